(* AdaptorProofs.v -- proofs of the lemmas the statement files Properties_C09/C10/C11.v close with. *)
From Coq Require Import List String ZArith NArith Bool Lia Permutation Arith.
Import ListNotations.
Require Import GenTypes AdaptorModel.
Local Open Scope string_scope.
Local Open Scope list_scope.

(* ========================================================================================== *)
(* C09: tracking *)

Lemma visit_eqb_eq : forall a b, visit_eqb a b = true -> a = b.
Proof.
  intros a b; destruct a, b; simpl; intro H; try discriminate; try reflexivity.
  - apply String.eqb_eq in H; subst; reflexivity.
  - apply String.eqb_eq in H; subst; reflexivity.
  - apply andb_true_iff in H; destruct H as [H1 H2].
    apply String.eqb_eq in H1; apply Nat.eqb_eq in H2; subst; reflexivity.
  - apply String.eqb_eq in H; subst; reflexivity.
Qed.

Lemma filter_length_le : forall (A : Type) (p : A -> bool) (l : list A),
  List.length (filter p l) <= List.length l.
Proof.
  intros A p l; induction l as [|a r IH]; simpl; [lia|].
  destruct (p a); simpl; lia.
Qed.

Lemma filter_nonempty_ex : forall (A : Type) (p : A -> bool) (l : list A),
  1 <= List.length (filter p l) -> exists y, In y l /\ p y = true.
Proof.
  intros A p l H. destruct (filter p l) as [|y r] eqn:E; simpl in H; [lia|].
  assert (Hy : In y (filter p l)) by (rewrite E; left; reflexivity).
  apply filter_In in Hy. exists y; exact Hy.
Qed.

Lemma once_NoDup : forall l : list visit,
  (forall x, In x l -> visit_eqb x x = true /\ List.length (filter (visit_eqb x) l) <= 1) -> NoDup l.
Proof.
  induction l as [|a r IH]; intro H; [constructor|].
  constructor.
  - intro Hin. destruct (H a (or_introl eq_refl)) as [Hrefl Hlen].
    simpl in Hlen. rewrite Hrefl in Hlen. simpl in Hlen.
    assert (Hf : In a (filter (visit_eqb a) r)) by (apply filter_In; split; assumption).
    destruct (filter (visit_eqb a) r); simpl in *; [contradiction|lia].
  - apply IH. intros x Hx. destruct (H x (or_intror Hx)) as [Hrefl Hlen].
    split; [exact Hrefl|]. simpl in Hlen. destruct (visit_eqb x a); simpl in Hlen; lia.
Qed.

Lemma visits_equiv_perm : forall l1 l2, visits_equiv l1 l2 = true -> Permutation l1 l2.
Proof.
  intros l1 l2 H. unfold visits_equiv in H. apply andb_true_iff in H. destruct H as [Hlen Hall].
  apply Nat.eqb_eq in Hlen. rewrite forallb_forall in Hall.
  assert (Hx : forall x, In x l1 ->
            List.length (filter (visit_eqb x) l1) = 1 /\ List.length (filter (visit_eqb x) l2) = 1).
  { intros x Hin. specialize (Hall x Hin). apply andb_true_iff in Hall. destruct Hall as [A B].
    apply Nat.eqb_eq in A. apply Nat.eqb_eq in B. split; assumption. }
  apply NoDup_Permutation_bis.
  - apply once_NoDup. intros x Hin. destruct (Hx x Hin) as [A _]. split; [|lia].
    destruct (filter_nonempty_ex _ (visit_eqb x) l1) as [y [Hy Hxy]]; [lia|].
    pose proof (visit_eqb_eq _ _ Hxy) as E. subst y. exact Hxy.
  - lia.
  - intros x Hin. destruct (Hx x Hin) as [_ B].
    destruct (filter_nonempty_ex _ (visit_eqb x) l2) as [y [Hy Hxy]]; [lia|].
    pose proof (visit_eqb_eq _ _ Hxy) as E. subst y. exact Hy.
Qed.

Lemma table_ok_perm : forall T k vs, table_ok T = true -> In (k, vs) expected_visits ->
  Permutation (visits_of T k) vs.
Proof.
  intros T k vs H Hin. unfold table_ok in H. rewrite forallb_forall in H.
  specialize (H (k, vs) Hin). simpl in H. apply visits_equiv_perm; exact H.
Qed.

Lemma perm_singleton : forall (A : Type) (l : list A) (x : A), Permutation l [x] -> l = [x].
Proof.
  intros A l x H. apply Permutation_sym in H. apply Permutation_length_1_inv in H. exact H.
Qed.

Lemma table_ok_limit : forall T, table_ok T = true -> reaches_limit_reference T = true.
Proof.
  intros T H. unfold reaches_limit_reference.
  rewrite (perm_singleton _ _ _ (table_ok_perm T "limit_reference" [VVisitMethod] H
             ltac:(simpl; tauto))). reflexivity.
Qed.

Lemma table_ok_bound : forall T, table_ok T = true -> reaches_bound_argument T = true.
Proof.
  intros T H. unfold reaches_bound_argument. rewrite (table_ok_limit T H).
  rewrite (perm_singleton _ _ _ (table_ok_perm T "bound_argument" [VVisitMethod] H
             ltac:(simpl; tauto))). reflexivity.
Qed.

Lemma mem_reach_ok : forall T t, table_ok T = true -> mem_reach T t = [t].
Proof.
  intros T t H. unfold mem_reach.
  rewrite (perm_singleton _ _ _ (table_ok_perm T "bound_mem_functor" [VMember "obj_"] H
             ltac:(simpl; tauto))).
  cbn. rewrite (table_ok_limit T H). reflexivity.
Qed.

Lemma bound_refs_ok : forall T b, table_ok T = true -> bound_refs T b = bound_refs_doc b.
Proof.
  intros T b H. unfold bound_refs. rewrite (table_ok_bound T H).
  destruct b; try reflexivity; cbn [bound_refs_doc]; apply mem_reach_ok; exact H.
Qed.

Lemma flat_map_bound_refs_ok : forall T bs, table_ok T = true ->
  flat_map (bound_refs T) bs = flat_map bound_refs_doc bs.
Proof. intros T bs H. apply flat_map_ext. intro b. apply bound_refs_ok; exact H. Qed.

(* rewrite the visit list of the class at hand into the expected one *)
Ltac use_table H k vs :=
  let P := fresh "P" in
  pose proof (table_ok_perm _ k vs H ltac:(simpl; tauto)) as P;
  eapply Permutation_trans; [apply Permutation_flat_map; exact P|]; clear P.

Theorem visit_reaches_all :
  forall T, table_ok T = true -> forall e, Permutation (visited T e) (refs e).
Proof.
  intros T H e.
  pose proof (table_ok_limit T H) as HL.
  induction e as [id th | id | t id kinds | loc f IHf bs | loc f IHf | f IHf | f IHf | f IHf | f IHf b
                  | s IHs g IHg | s IHs g1 IHg1 g2 IHg2 | f IHf c | f IHf ts | f IHf].
  - simpl. constructor.
  - simpl. constructor.
  - cbn [visited visitor_key class_of refs].
    use_table H "bound_mem_functor" [VMember "obj_"].
    cbn. rewrite HL. cbn. apply Permutation_refl.
  - destruct loc as [i|]; cbn [visited visitor_key class_of refs].
    + use_table H "bind_functor" [VMember "functor_"; VTupleAll "bound_"].
      cbn. rewrite app_nil_r. rewrite (flat_map_bound_refs_ok T bs H).
      apply Permutation_app; [exact IHf|apply Permutation_refl].
    + use_table H "bind_functor<-1>" [VMember "functor_"; VTupleAll "bound_"].
      cbn. rewrite app_nil_r. rewrite (flat_map_bound_refs_ok T bs H).
      apply Permutation_app; [exact IHf|apply Permutation_refl].
  - cbn [visited visitor_key class_of refs].
    use_table H "hide_functor" [VMember "functor_"].
    cbn. rewrite app_nil_r. exact IHf.
  - cbn [visited visitor_key class_of refs].
    use_table H "retype_functor" [VMember "functor_"].
    cbn. rewrite app_nil_r. exact IHf.
  - cbn [visited visitor_key class_of refs].
    use_table H "retype_return_functor" [VMember "functor_"].
    cbn. rewrite app_nil_r. exact IHf.
  - cbn [visited visitor_key class_of refs].
    use_table H "retype_return_functor" [VMember "functor_"].
    cbn. rewrite app_nil_r. exact IHf.
  - cbn [visited visitor_key class_of refs].
    use_table H "bind_return_functor" [VMember "ret_value_"; VMember "functor_"].
    cbn. rewrite app_nil_r. rewrite (bound_refs_ok T b H).
    eapply Permutation_trans; [apply Permutation_app_comm|].
    apply Permutation_app; [exact IHf|apply Permutation_refl].
  - cbn [visited visitor_key class_of refs].
    use_table H "compose1_functor" [VMember "functor_"; VMember "get_"].
    cbn. rewrite app_nil_r.
    apply Permutation_app; assumption.
  - cbn [visited visitor_key class_of refs].
    use_table H "compose2_functor" [VMember "functor_"; VMember "get1_"; VMember "get2_"].
    cbn. rewrite app_nil_r.
    apply Permutation_app; [assumption|]. apply Permutation_app; assumption.
  - cbn [visited visitor_key class_of refs].
    use_table H "exception_catch_functor" [VMember "functor_"; VMember "catcher_"].
    cbn. rewrite app_nil_r. exact IHf.
  - cbn [visited visitor_key class_of refs].
    use_table H "track_obj_functor" [VMember "functor_"; VTupleAll "obj_"].
    cbn. rewrite HL. cbn. rewrite app_nil_r.
    apply Permutation_app; [exact IHf|apply Permutation_refl].
  - cbn [visited refs]. exact IHf.
Qed.

Theorem reaches_iff :
  forall T, table_ok T = true -> forall e t, In t (refs e) <-> In t (visited T e).
Proof.
  intros T H e t. pose proof (visit_reaches_all T H e) as P. split; intro Hin.
  - eapply Permutation_in; [apply Permutation_sym; exact P|exact Hin].
  - eapply Permutation_in; [exact P|exact Hin].
Qed.

Lemma count_occ_remove_one : forall x l t,
  count_occ N.eq_dec (remove_one x l) t = count_occ N.eq_dec l t - (if N.eq_dec x t then 1 else 0).
Proof.
  intros x l t; induction l as [|a r IH]; simpl; [reflexivity|].
  destruct (N.eqb a x) eqn:E.
  - apply N.eqb_eq in E; subst a.
    destruct (N.eq_dec x t); lia.
  - apply N.eqb_neq in E. simpl.
    destruct (N.eq_dec a t) as [Eat|Eat].
    + subst a. destruct (N.eq_dec x t) as [Ext|Ext]; [subst; contradiction|]. lia.
    + exact IH.
Qed.

Lemma count_occ_fold_remove : forall vs l t,
  count_occ N.eq_dec (fold_left (fun r t => remove_one t r) vs l) t
  = count_occ N.eq_dec l t - count_occ N.eq_dec vs t.
Proof.
  induction vs as [|x vs IH]; intros l t; simpl; [lia|].
  rewrite IH, count_occ_remove_one.
  destruct (N.eq_dec x t); lia.
Qed.

Theorem unbind_mirrors_bind :
  forall T e (regs : list N) t,
    count_occ N.eq_dec (unbind_regs (visited T e) (bind_regs (visited T e) regs)) t = count_occ N.eq_dec regs t.
Proof.
  intros T e regs t. unfold unbind_regs, bind_regs.
  rewrite count_occ_fold_remove, count_occ_app. lia.
Qed.

(* ========================================================================================== *)
(* C10 / C11: calling *)

(* same values, identities possibly different *)
Definition sv (l1 l2 : list arg) : Prop := map a_v l1 = map a_v l2.

Lemma sv_refl : forall l, sv l l.
Proof. intro l; reflexivity. Qed.

Lemma sv_length : forall l1 l2, sv l1 l2 -> List.length l1 = List.length l2.
Proof.
  intros l1 l2 H. unfold sv in H.
  rewrite <- (map_length a_v l1), <- (map_length a_v l2), H. reflexivity.
Qed.

Lemma sv_app : forall a1 a2 b1 b2, sv a1 a2 -> sv b1 b2 -> sv (a1 ++ b1) (a2 ++ b2).
Proof. unfold sv; intros a1 a2 b1 b2 H1 H2. rewrite !map_app, H1, H2. reflexivity. Qed.

Lemma sv_firstn : forall n a1 a2, sv a1 a2 -> sv (firstn n a1) (firstn n a2).
Proof. unfold sv; intros n a1 a2 H. rewrite <- !firstn_map, H. reflexivity. Qed.

Lemma sv_skipn : forall n a1 a2, sv a1 a2 -> sv (skipn n a1) (skipn n a2).
Proof. unfold sv; intros n a1 a2 H. rewrite <- !skipn_map, H. reflexivity. Qed.

Lemma sv_removelast : forall a1 a2, sv a1 a2 -> sv (removelast a1) (removelast a2).
Proof.
  intros a1 a2 H. rewrite !removelast_firstn_len, (sv_length _ _ H). apply sv_firstn; exact H.
Qed.

Lemma weighted_sv : forall l1 l2 i, sv l1 l2 -> weighted i l1 = weighted i l2.
Proof.
  unfold sv. induction l1 as [|a r IH]; intros l2 i H; destruct l2 as [|b r2]; simpl in H; try discriminate.
  - reflexivity.
  - injection H as Hv Hr. simpl. rewrite Hv, (IH r2 (i + 1)%Z Hr). reflexivity.
Qed.

Lemma leaf_ret_sv : forall id l1 l2, sv l1 l2 -> leaf_ret id l1 = leaf_ret id l2.
Proof. intros id l1 l2 H. unfold leaf_ret. rewrite (weighted_sv l1 l2 1%Z H). reflexivity. Qed.

Lemma apply_kinds_sv : forall ks a1 a2, sv a1 a2 -> sv (apply_kinds ks a1) (apply_kinds ks a2).
Proof.
  unfold sv, apply_kinds.
  induction ks as [|k ks IH]; intros a1 a2 H; [reflexivity|].
  destruct a1 as [|x r1], a2 as [|y r2]; simpl in H; try discriminate; [reflexivity|].
  injection H as Hv Hr. simpl. rewrite (IH r1 r2 Hr). f_equal.
  destruct k; simpl; exact Hv.
Qed.

Lemma map_copy_sv : forall l, sv (map copy_arg l) l.
Proof. unfold sv. intro l. rewrite map_map. apply map_ext. intro a; reflexivity. Qed.

Lemma pass_sv : forall m d l, sv (pass m d l) l.
Proof.
  intros m d l. destruct m; simpl; try apply sv_refl.
  destruct d; [apply map_copy_sv|apply sv_refl].
Qed.

Lemma pass_length : forall m d l, List.length (pass m d l) = List.length l.
Proof. intros m d l. apply sv_length. apply pass_sv. Qed.

Lemma pass_forwarding : forall m d l, forwarding m = true -> pass m d l = l.
Proof. intros m d l H. destruct m; simpl in *; try reflexivity; discriminate. Qed.

(* ---- slicing arithmetic ---- *)

Lemma aexp_eqb_eq : forall a b, aexp_eqb a b = true -> a = b.
Proof.
  induction a as [| |z|a IHa|a1 IH1 a2 IH2|a1 IH1 a2 IH2|a1 IH1 a2 IH2|c IHc a1 IH1 a2 IH2|];
    intros b H; destruct b; simpl in H; try discriminate; try reflexivity.
  - apply Z.eqb_eq in H; subst; reflexivity.
  - rewrite (IHa _ H); reflexivity.
  - apply andb_true_iff in H; destruct H as [H1 H2]. rewrite (IH1 _ H1), (IH2 _ H2); reflexivity.
  - apply andb_true_iff in H; destruct H as [H1 H2]. rewrite (IH1 _ H1), (IH2 _ H2); reflexivity.
  - apply andb_true_iff in H; destruct H as [H1 H2]. rewrite (IH1 _ H1), (IH2 _ H2); reflexivity.
  - apply andb_true_iff in H; destruct H as [H12 H3]. apply andb_true_iff in H12; destruct H12 as [H1 H2].
    rewrite (IHc _ H1), (IH1 _ H2), (IH2 _ H3); reflexivity.
Qed.

Definition bind_start := ALoc.
Definition bind_end := ASub ASize ALoc.
Definition hide_start := AIf (AEq ALoc (ANeg (AConst 1))) (ASub ASize (AConst 1)) ALoc.
Definition hide_end := ASub (ASub ASize hide_start) (AConst 1).

Lemma slices_ok_bind : forall S, slices_ok S = true ->
  exists l, slookup "bind_functor" S = Some l /\
            slookup "tuple_start" l = Some bind_start /\ slookup "tuple_end" l = Some bind_end.
Proof.
  intros S H. unfold slices_ok, expected_slices in H.
  cbn [forallb] in H. apply andb_true_iff in H. destruct H as [H _].
  destruct (slookup "bind_functor" S) as [l|]; [|discriminate].
  exists l. split; [reflexivity|].
  cbn [forallb] in H. apply andb_true_iff in H. destruct H as [H1 H]. apply andb_true_iff in H. destruct H as [H2 _].
  destruct (slookup "tuple_start" l) as [a|]; [|discriminate].
  destruct (slookup "tuple_end" l) as [b|]; [|discriminate].
  apply aexp_eqb_eq in H1. apply aexp_eqb_eq in H2. subst a b. split; reflexivity.
Qed.

Lemma slices_ok_hide : forall S, slices_ok S = true ->
  exists l, slookup "hide_functor" S = Some l /\
            slookup "tuple_start" l = Some hide_start /\ slookup "tuple_end" l = Some hide_end.
Proof.
  intros S H. unfold slices_ok, expected_slices in H.
  cbn [forallb] in H. apply andb_true_iff in H. destruct H as [_ H]. apply andb_true_iff in H. destruct H as [H _].
  destruct (slookup "hide_functor" S) as [l|]; [|discriminate].
  exists l. split; [reflexivity|].
  cbn [forallb] in H. apply andb_true_iff in H. destruct H as [H1 H]. apply andb_true_iff in H. destruct H as [H2 _].
  destruct (slookup "tuple_start" l) as [a|]; [|discriminate].
  destruct (slookup "tuple_end" l) as [b|]; [|discriminate].
  apply aexp_eqb_eq in H1. apply aexp_eqb_eq in H2. subst a b. split; reflexivity.
Qed.

Lemma slice_bind : forall S i n, slices_ok S = true -> i <= n ->
  slice_counts S "bind_functor" (Z.of_nat i) n = Some (i, n - i).
Proof.
  intros S i n H Hi. destruct (slices_ok_bind S H) as [l [E [E1 E2]]].
  unfold slice_counts. rewrite E, E1, E2. unfold bind_start, bind_end. cbn [aeval].
  replace (0 <=? Z.of_nat i)%Z with true by (symmetry; apply Z.leb_le; lia).
  replace (0 <=? Z.of_nat n - Z.of_nat i)%Z with true by (symmetry; apply Z.leb_le; lia).
  cbn [andb]. f_equal. f_equal; lia.
Qed.

Lemma slice_hide_some : forall S i n, slices_ok S = true -> i < n ->
  slice_counts S "hide_functor" (Z.of_nat i) n = Some (i, n - i - 1).
Proof.
  intros S i n H Hi. destruct (slices_ok_hide S H) as [l [E [E1 E2]]].
  unfold slice_counts. rewrite E, E1, E2. unfold hide_end, hide_start. cbn [aeval option_map].
  replace (Z.of_nat i =? - (1))%Z with false by (symmetry; apply Z.eqb_neq; lia).
  cbn [Z.eqb aeval].
  replace (0 <=? Z.of_nat i)%Z with true by (symmetry; apply Z.leb_le; lia).
  replace (0 <=? Z.of_nat n - Z.of_nat i - 1)%Z with true by (symmetry; apply Z.leb_le; lia).
  cbn [andb]. f_equal. f_equal; lia.
Qed.

Lemma slice_hide_none : forall S n, slices_ok S = true -> 1 <= n ->
  slice_counts S "hide_functor" (-1)%Z n = Some (n - 1, 0).
Proof.
  intros S n H Hn. destruct (slices_ok_hide S H) as [l [E [E1 E2]]].
  unfold slice_counts. rewrite E, E1, E2. unfold hide_end, hide_start. cbn [aeval option_map].
  change (- (1))%Z with (-1)%Z. change (-1 =? -1)%Z with true. cbn [Z.eqb aeval].
  replace (0 <=? Z.of_nat n - 1)%Z with true by (symmetry; apply Z.leb_le; lia).
  replace (0 <=? Z.of_nat n - (Z.of_nat n - 1) - 1)%Z with true by (symmetry; apply Z.leb_le; lia).
  cbn [andb]. f_equal. f_equal; lia.
Qed.

(* ---- one hop of bind / hide under the expected slicing ---- *)

Lemma lastn_skipn : forall (A : Type) (l : list A) k i, k + i = List.length l -> lastn k l = skipn i l.
Proof. intros A l k i H. unfold lastn. f_equal. lia. Qed.

Lemma call_bind_some : forall M S i f bs d args, slices_ok S = true -> i <= List.length args ->
  call M S (FBind (Some i) f bs) d args =
  call M S f true (firstn i (pass (mode_of M "bind_functor") d args) ++ map bound_arg bs
                   ++ skipn i (pass (mode_of M "bind_functor") d args)).
Proof.
  intros M S i f bs d args H Hi. cbn [call class_of].
  set (a := pass (mode_of M "bind_functor") d args).
  assert (La : List.length a = List.length args) by apply pass_length.
  rewrite (slice_bind S i (List.length a) H) by lia.
  replace (Nat.leb i (List.length a)) with true by (symmetry; apply Nat.leb_le; lia).
  rewrite (lastn_skipn _ a (List.length a - i) i) by lia. reflexivity.
Qed.

Lemma call_hide_some : forall M S i f d args, slices_ok S = true -> i < List.length args ->
  call M S (FHide (Some i) f) d args =
  call M S f true (firstn i (pass (mode_of M "hide_functor") d args)
                   ++ skipn (Datatypes.S i) (pass (mode_of M "hide_functor") d args)).
Proof.
  intros M S i f d args H Hi. cbn [call class_of].
  set (a := pass (mode_of M "hide_functor") d args).
  assert (La : List.length a = List.length args) by apply pass_length.
  rewrite (slice_hide_some S i (List.length a) H) by lia.
  replace (Nat.leb (i + (List.length a - i - 1) + 1) (List.length a)) with true by (symmetry; apply Nat.leb_le; lia).
  rewrite (lastn_skipn _ a (List.length a - i - 1) (Datatypes.S i)) by lia. reflexivity.
Qed.

Lemma call_hide_none : forall M S f d args, slices_ok S = true -> 1 <= List.length args ->
  call M S (FHide None f) d args =
  call M S f true (removelast (pass (mode_of M "hide_functor") d args)).
Proof.
  intros M S f d args H Hi. cbn [call class_of].
  set (a := pass (mode_of M "hide_functor") d args).
  assert (La : List.length a = List.length args) by apply pass_length.
  rewrite (slice_hide_none S (List.length a) H) by lia.
  replace (Nat.leb (List.length a - 1 + 0 + 1) (List.length a)) with true by (symmetry; apply Nat.leb_le; lia).
  rewrite (lastn_skipn _ a 0 (List.length a)) by lia.
  rewrite skipn_all, app_nil_r, removelast_firstn_len.
  f_equal. f_equal. lia.
Qed.

(* ---- results ---- *)

Lemma call_doc_nonvoid : forall e, returns_value e = true -> forall args, snd (call_doc e args) <> RVoid.
Proof.
  induction e as [id th | id | t id kinds | loc f IHf bs | loc f IHf | f IHf | f IHf | f IHf | f IHf b
                  | s IHs g IHg | s IHs g1 IHg1 g2 IHg2 | f IHf c | f IHf ts | f IHf];
    intros Hr args; cbn [returns_value] in Hr; cbn [call_doc].
  - destruct th; simpl; discriminate.
  - destruct args; simpl; discriminate.
  - simpl; discriminate.
  - destruct loc; apply IHf; exact Hr.
  - destruct loc; apply IHf; exact Hr.
  - apply IHf; exact Hr.
  - specialize (IHf Hr args). destruct (call_doc f args) as [l r]. simpl in *.
    destruct r; simpl; try discriminate. exact IHf.
  - discriminate.
  - destruct (call_doc f args) as [l r]. destruct r; simpl; discriminate.
  - destruct (call_doc g args) as [l1 r1]. destruct r1 as [v|a| |]; cbn [result_arg]; try (simpl; discriminate).
    + specialize (IHs Hr [mkArg v ICopy]). destruct (call_doc s [mkArg v ICopy]) as [l2 r2]. exact IHs.
    + specialize (IHs Hr [a]). destruct (call_doc s [a]) as [l2 r2]. exact IHs.
  - destruct (call_doc g1 args) as [l1 r1]. destruct (call_doc g2 args) as [l2 r2].
    destruct r1 as [v1|b1| |]; cbn [result_arg]; try (simpl; discriminate);
      (destruct r2 as [v2|b2| |]; cbn [result_arg]; try (simpl; discriminate));
      match goal with
      | |- context [call_doc s ?xs] => specialize (IHs Hr xs); destruct (call_doc s xs) as [l3 r3]; exact IHs
      end.
  - specialize (IHf Hr args). destruct (call_doc f args) as [l r]. simpl in *.
    destruct r; try discriminate; [exact IHf|].
    unfold catcher_result. destruct (N.ltb c 5000); discriminate.
  - apply IHf; exact Hr.
  - apply IHf; exact Hr.
Qed.

Lemma log_values_app : forall l1 l2, log_values (l1 ++ l2) = log_values l1 ++ log_values l2.
Proof. intros; unfold log_values; apply map_app. Qed.

Lemma list_length_bind_some : forall i (a : list arg) (bs : list bound), i <= List.length a ->
  List.length (firstn i a ++ map bound_arg bs ++ skipn i a) = List.length a + List.length bs.
Proof.
  intros i a bs H. rewrite !app_length, firstn_length, map_length, skipn_length. lia.
Qed.

Lemma list_length_hide_some : forall i (a : list arg), i < List.length a ->
  List.length (firstn i a ++ skipn (Datatypes.S i) a) = List.length a - 1.
Proof.
  intros i a H. rewrite app_length, firstn_length, skipn_length. lia.
Qed.

Lemma list_length_removelast : forall (a : list arg), List.length (removelast a) = List.length a - 1.
Proof.
  intros a. rewrite removelast_firstn_len, firstn_length. lia.
Qed.

(* results up to the identity of a returned reference *)
Lemma rv_cases : forall r r0, result_val r = result_val r0 ->
  (exists v, r = RInt v /\ r0 = RInt v) \/
  (exists a b, r = RRef a /\ r0 = RRef b /\ a_v a = a_v b) \/
  (r = RVoid /\ r0 = RVoid) \/ (r = RThrow /\ r0 = RThrow).
Proof.
  intros r r0 H; destruct r as [v|a| |], r0 as [v0|a0| |]; simpl in H; try discriminate.
  - injection H as Hv. subst. left. exists v0. split; reflexivity.
  - injection H as Hv. right; left. exists a, a0. repeat split; assumption.
  - right; right; left. split; reflexivity.
  - right; right; right. split; reflexivity.
Qed.

Lemma first_arg_ref_sv : forall a1 a2, sv a1 a2 -> result_val (first_arg_ref a1) = result_val (first_arg_ref a2).
Proof.
  unfold sv. intros a1 a2 H. destruct a1 as [|x r1], a2 as [|y r2]; simpl in H; try discriminate; [reflexivity|].
  injection H as Hv Hr. simpl. rewrite Hv. reflexivity.
Qed.

Lemma to_long_rv : forall r r0, result_val r = result_val r0 -> to_long r = to_long r0.
Proof.
  intros r r0 H.
  destruct (rv_cases _ _ H) as [[v [-> ->]]|[[ra [rb [-> [-> Hab]]]]|[[-> ->]|[-> ->]]]]; simpl; congruence.
Qed.

(* values only: any way the pack is handed on *)
Lemma call_sv : forall M S, slices_ok S = true ->
  forall e d a1 a2, sv a1 a2 -> wt e (List.length a2) = true -> wf_values e = true ->
    exists l r, call M S e d a1 = COk l r /\ result_val r = result_val (snd (call_doc e a2)) /\
                log_values l = log_values (fst (call_doc e a2)).
Proof.
  intros M S HS.
  induction e as [id th | id | t id kinds | loc f IHf bs | loc f IHf | f IHf | f IHf | f IHf | f IHf b
                  | s IHs g IHg | s IHs g1 IHg1 g2 IHg2 | f IHf c | f IHf ts | f IHf];
    intros d a1 a2 Hsv Hwt Hwf; cbn [wt wf_values] in Hwt, Hwf;
    pose proof (sv_length _ _ Hsv) as Hlen.
  - (* FLeaf *)
    cbn [call call_doc fst snd]. rewrite (leaf_ret_sv id a1 a2 Hsv).
    eexists; eexists; split; [reflexivity|split; [reflexivity|]].
    cbn. unfold sv in Hsv. rewrite Hsv. reflexivity.
  - (* FLeafRef *)
    cbn [call call_doc fst snd].
    eexists; eexists; split; [reflexivity|split; [apply first_arg_ref_sv; exact Hsv|]].
    cbn. unfold sv in Hsv. rewrite Hsv. reflexivity.
  - (* FMem *)
    cbn [call call_doc fst snd]. rewrite Hlen, Hwt.
    pose proof (apply_kinds_sv kinds a1 a2 Hsv) as Hk.
    rewrite (leaf_ret_sv id _ _ Hk).
    eexists; eexists; split; [reflexivity|split; [reflexivity|]].
    cbn. unfold sv in Hk. rewrite Hk. reflexivity.
  - (* FBind *)
    destruct loc as [i|].
    + apply andb_true_iff in Hwt. destruct Hwt as [Hi Hwt]. apply Nat.leb_le in Hi.
      rewrite call_bind_some by (assumption || lia). cbn [call_doc].
      apply IHf.
      * pose proof (pass_sv (mode_of M "bind_functor") d a1) as Hp.
        assert (Hpa : sv (pass (mode_of M "bind_functor") d a1) a2) by (unfold sv in *; congruence).
        apply sv_app; [apply sv_firstn; exact Hpa|]. apply sv_app; [apply sv_refl|apply sv_skipn; exact Hpa].
      * rewrite list_length_bind_some by lia. exact Hwt.
      * exact Hwf.
    + cbn [call call_doc class_of]. apply IHf.
      * pose proof (pass_sv (mode_of M "bind_functor<-1>") d a1) as Hp.
        apply sv_app; [unfold sv in *; congruence|apply sv_refl].
      * rewrite app_length, map_length. exact Hwt.
      * exact Hwf.
  - (* FHide *)
    destruct loc as [i|].
    + apply andb_true_iff in Hwt. destruct Hwt as [Hi Hwt]. apply Nat.ltb_lt in Hi.
      rewrite call_hide_some by (assumption || lia). cbn [call_doc].
      apply IHf.
      * pose proof (pass_sv (mode_of M "hide_functor") d a1) as Hp.
        assert (Hpa : sv (pass (mode_of M "hide_functor") d a1) a2) by (unfold sv in *; congruence).
        apply sv_app; [apply sv_firstn; exact Hpa|apply sv_skipn; exact Hpa].
      * rewrite list_length_hide_some by lia. exact Hwt.
      * exact Hwf.
    + apply andb_true_iff in Hwt. destruct Hwt as [Hi Hwt]. apply Nat.leb_le in Hi.
      rewrite call_hide_none by (assumption || lia). cbn [call_doc].
      apply IHf.
      * pose proof (pass_sv (mode_of M "hide_functor") d a1) as Hp.
        apply sv_removelast. unfold sv in *; congruence.
      * rewrite list_length_removelast. exact Hwt.
      * exact Hwf.
  - (* FRetype *)
    cbn [call call_doc class_of]. apply IHf; try assumption.
    pose proof (pass_sv (mode_of M "retype_functor") d a1) as Hp. unfold sv in *; congruence.
  - (* FRetypeReturn *)
    cbn [call call_doc class_of].
    destruct (IHf true (pass (mode_of M "retype_return_functor") d a1) a2) as [l [r [E [R V]]]]; try assumption.
    { pose proof (pass_sv (mode_of M "retype_return_functor") d a1) as Hp. unfold sv in *; congruence. }
    rewrite E. destruct (call_doc f a2) as [l0 r0]. cbn [cbind fst snd] in *.
    exists l, (to_long r). split; [reflexivity|]. split; [|exact V].
    rewrite (to_long_rv _ _ R). reflexivity.
  - (* FHideReturn *)
    cbn [call call_doc class_of].
    destruct (IHf true (pass (mode_of M "retype_return_functor<void>") d a1) a2) as [l [r [E [R V]]]]; try assumption.
    { pose proof (pass_sv (mode_of M "retype_return_functor<void>") d a1) as Hp. unfold sv in *; congruence. }
    rewrite E. destruct (call_doc f a2) as [l0 r0]. cbn [cbind fst snd] in *.
    eexists; eexists; split; [reflexivity|]. split; [|exact V].
    destruct (rv_cases _ _ R) as [[v [-> ->]]|[[ra [rb [-> [-> Hab]]]]|[[-> ->]|[-> ->]]]]; reflexivity.
  - (* FBindReturn *)
    cbn [call call_doc class_of].
    destruct (IHf true (pass (mode_of M "bind_return_functor") d a1) a2) as [l [r [E [R V]]]]; try assumption.
    { pose proof (pass_sv (mode_of M "bind_return_functor") d a1) as Hp. unfold sv in *; congruence. }
    rewrite E. destruct (call_doc f a2) as [l0 r0]. cbn [cbind fst snd] in *.
    eexists; eexists; split; [reflexivity|]. split; [|exact V].
    destruct (rv_cases _ _ R) as [[v [-> ->]]|[[ra [rb [-> [-> Hab]]]]|[[-> ->]|[-> ->]]]]; reflexivity.
  - (* FCompose1 *)
    apply andb_true_iff in Hwt. destruct Hwt as [Hwg Hws].
    apply andb_true_iff in Hwf. destruct Hwf as [Hwf Hrg]. apply andb_true_iff in Hwf. destruct Hwf as [Hfs Hfg].
    cbn [call call_doc class_of].
    destruct (IHg true (pass (mode_of M "compose1_functor") d a1) a2) as [l1 [r1 [E1 [R1 V1]]]]; try assumption.
    { pose proof (pass_sv (mode_of M "compose1_functor") d a1) as Hp. unfold sv in *; congruence. }
    rewrite E1. pose proof (call_doc_nonvoid g Hrg a2) as Hnv.
    destruct (call_doc g a2) as [lg rg]. cbn [cbind fst snd] in *.
    destruct (rv_cases _ _ R1) as [[v [-> ->]]|[[ra [rb [-> [-> Hab]]]]|[[-> ->]|[-> ->]]]];
      try contradiction; cbn [result_arg];
      lazymatch goal with
      | |- context [call M S s true ?xs] =>
          lazymatch goal with
          | |- context [call_doc s ?ys] =>
              destruct (IHs true xs ys) as [l2 [r2 [E2 [R2 V2]]]];
              [unfold sv; simpl; congruence|assumption|assumption|];
              rewrite E2; destruct (call_doc s ys) as [ls rs]; cbn [cbind fst snd] in *;
              exists (l1 ++ l2), r2; split; [reflexivity|split; [exact R2|]];
              rewrite !log_values_app, V1, V2; reflexivity
          end
      | |- _ => exists l1, RThrow; split; [reflexivity|split; [reflexivity|exact V1]]
      end.
  - (* FCompose2 *)
    apply andb_true_iff in Hwt. destruct Hwt as [Hwt Hws]. apply andb_true_iff in Hwt. destruct Hwt as [Hw1 Hw2].
    apply andb_true_iff in Hwf. destruct Hwf as [Hwf Hr2]. apply andb_true_iff in Hwf. destruct Hwf as [Hwf Hr1].
    apply andb_true_iff in Hwf. destruct Hwf as [Hwf Hf2]. apply andb_true_iff in Hwf. destruct Hwf as [Hfs Hf1].
    cbn [call call_doc class_of].
    assert (Hpa : sv (pass (mode_of M "compose2_functor") d a1) a2).
    { pose proof (pass_sv (mode_of M "compose2_functor") d a1) as Hp. unfold sv in *; congruence. }
    destruct (IHg1 true (pass (mode_of M "compose2_functor") d a1) a2) as [l1 [r1 [E1 [R1 V1]]]]; try assumption.
    destruct (IHg2 true (pass (mode_of M "compose2_functor") d a1) a2) as [l2 [r2 [E2 [R2 V2]]]]; try assumption.
    rewrite E1, E2.
    pose proof (call_doc_nonvoid g1 Hr1 a2) as Hnv1. pose proof (call_doc_nonvoid g2 Hr2 a2) as Hnv2.
    destruct (call_doc g1 a2) as [lg1 rg1]. destruct (call_doc g2 a2) as [lg2 rg2]. cbn [cbind fst snd] in *.
    destruct (rv_cases _ _ R1) as [[v1 [-> ->]]|[[b1 [c1 [-> [-> Hbc1]]]]|[[-> ->]|[-> ->]]]];
      try contradiction;
      (destruct (rv_cases _ _ R2) as [[v2 [-> ->]]|[[b2 [c2 [-> [-> Hbc2]]]]|[[-> ->]|[-> ->]]]];
       try contradiction); cbn [result_arg];
      lazymatch goal with
      | |- context [call M S s true ?xs] =>
          lazymatch goal with
          | |- context [call_doc s ?ys] =>
              destruct (IHs true xs ys) as [l3 [r3 [E3 [R3 V3]]]];
              [unfold sv; simpl; congruence|assumption|assumption|];
              rewrite E3; destruct (call_doc s ys) as [ls rs]; cbn [cbind fst snd] in *;
              exists (l1 ++ l2 ++ l3), r3; split; [reflexivity|split; [exact R3|]];
              rewrite !log_values_app, V1, V2, V3; reflexivity
          end
      | |- _ => exists (l1 ++ l2), RThrow; split; [reflexivity|split; [reflexivity|]];
                cbn [fst]; rewrite !log_values_app, V1, V2; reflexivity
      end.
  - (* FExcCatch *)
    cbn [call call_doc class_of].
    destruct (IHf true (pass (mode_of M "exception_catch_functor") d a1) a2) as [l [r [E [R V]]]]; try assumption.
    { pose proof (pass_sv (mode_of M "exception_catch_functor") d a1) as Hp. unfold sv in *; congruence. }
    rewrite E. destruct (call_doc f a2) as [l0 r0]. cbn [cbind fst snd] in *.
    eexists; eexists; split; [reflexivity|]. split; [|exact V].
    destruct (rv_cases _ _ R) as [[v [-> ->]]|[[ra [rb [-> [-> Hab]]]]|[[-> ->]|[-> ->]]]]; try reflexivity.
    simpl. rewrite Hab. reflexivity.
  - (* FTrackObj *)
    cbn [call call_doc class_of]. apply IHf; try assumption.
    pose proof (pass_sv (mode_of M "track_obj_functor") d a1) as Hp. unfold sv in *; congruence.
  - (* FSlot *)
    cbn [call call_doc]. apply IHf; assumption.
Qed.

Theorem call_eq_doc :
  forall M S, slices_ok S = true ->
  forall e d args, wt e (List.length args) = true -> wf_values e = true ->
    exists l r, call M S e d args = COk l r /\ result_val r = result_val (snd (call_doc e args)) /\
                log_values l = log_values (fst (call_doc e args)).
Proof.
  intros M S HS e d args Hwt Hwf. apply call_sv; try assumption. apply sv_refl.
Qed.

Theorem route_independent :
  forall M S, slices_ok S = true ->
  forall e args, wt e (List.length args) = true -> wf_values e = true ->
    exists l1 l2 r1 r2, call M S e true args = COk l1 r1 /\ call M S (FSlot e) true args = COk l2 r2 /\
                        result_val r1 = result_val r2 /\ log_values l1 = log_values l2.
Proof.
  intros M S HS e args Hwt Hwf.
  destruct (call_eq_doc M S HS e true args Hwt Hwf) as [l1 [r1 [E1 [R1 V1]]]].
  destruct (call_eq_doc M S HS e false args Hwt Hwf) as [l2 [r2 [E2 [R2 V2]]]].
  exists l1, l2, r1, r2. split; [exact E1|]. split; [cbn [call]; exact E2|]. split.
  - rewrite R1, R2. reflexivity.
  - rewrite V1, V2. reflexivity.
Qed.

Theorem exception_catch_exact :
  forall f c args, snd (call_doc (FExcCatch f c) args) =
    match snd (call_doc f args) with RThrow => catcher_result c | r => r end.
Proof.
  intros f c args. cbn [call_doc]. destruct (call_doc f args) as [l r]. destruct r; reflexivity.
Qed.

Theorem exception_catch_rethrow :
  forall f c args, (5000 <= c)%N -> snd (call_doc f args) = RThrow -> snd (call_doc (FExcCatch f c) args) = RThrow.
Proof.
  intros f c args Hc H. rewrite exception_catch_exact, H. unfold catcher_result.
  destruct (N.ltb_spec c 5000) as [Hlt|_]; [|reflexivity]. exfalso. apply (N.lt_irrefl c). eapply N.lt_le_trans; eassumption.
Qed.

Theorem bind_return_returns_bound :
  forall f b args, snd (call_doc f args) <> RThrow -> snd (call_doc (FBindReturn f b) args) = RInt (bound_result b).
Proof.
  intros f b args H. cbn [call_doc]. destruct (call_doc f args) as [l r]. cbn [snd] in *.
  destruct r; try reflexivity. contradiction.
Qed.

(* identities too, when every hop forwards *)
Theorem reference_identity :
  forall M S, slices_ok S = true ->
  forall e, all_forwarding M e = true ->
  forall d args, wt e (List.length args) = true -> wf_values e = true ->
    call M S e d args = COk (fst (call_doc e args)) (snd (call_doc e args)).
Proof.
  intros M S HS.
  induction e as [id th | id | t id kinds | loc f IHf bs | loc f IHf | f IHf | f IHf | f IHf | f IHf b
                  | s IHs g IHg | s IHs g1 IHg1 g2 IHg2 | f IHf c | f IHf ts | f IHf];
    intros Hfw d args Hwt Hwf; cbn [wt wf_values all_forwarding class_of] in Hwt, Hwf, Hfw.
  - reflexivity.
  - reflexivity.
  - cbn [call call_doc]. rewrite Hwt. reflexivity.
  - (* FBind *)
    apply andb_true_iff in Hfw. destruct Hfw as [Hm Hfw].
    destruct loc as [i|]; cbn [class_of] in Hm.
    + apply andb_true_iff in Hwt. destruct Hwt as [Hi Hwt]. apply Nat.leb_le in Hi.
      rewrite call_bind_some by assumption. rewrite (pass_forwarding _ d args Hm). cbn [call_doc].
      apply IHf; try assumption. rewrite list_length_bind_some by lia. exact Hwt.
    + cbn [call call_doc class_of]. rewrite (pass_forwarding _ d args Hm).
      apply IHf; try assumption. rewrite app_length, map_length. exact Hwt.
  - (* FHide *)
    apply andb_true_iff in Hfw. destruct Hfw as [Hm Hfw].
    destruct loc as [i|].
    + apply andb_true_iff in Hwt. destruct Hwt as [Hi Hwt]. apply Nat.ltb_lt in Hi.
      rewrite call_hide_some by assumption. rewrite (pass_forwarding _ d args Hm). cbn [call_doc].
      apply IHf; try assumption. rewrite list_length_hide_some by lia. exact Hwt.
    + apply andb_true_iff in Hwt. destruct Hwt as [Hi Hwt]. apply Nat.leb_le in Hi.
      rewrite call_hide_none by assumption. rewrite (pass_forwarding _ d args Hm). cbn [call_doc].
      apply IHf; try assumption. rewrite list_length_removelast. exact Hwt.
  - (* FRetype *)
    apply andb_true_iff in Hfw. destruct Hfw as [Hm Hfw].
    cbn [call call_doc class_of]. rewrite (pass_forwarding _ d args Hm). apply IHf; assumption.
  - (* FRetypeReturn *)
    apply andb_true_iff in Hfw. destruct Hfw as [Hm Hfw].
    cbn [call call_doc class_of]. rewrite (pass_forwarding _ d args Hm).
    rewrite (IHf Hfw true args Hwt Hwf). destruct (call_doc f args) as [l r]. reflexivity.
  - (* FHideReturn *)
    apply andb_true_iff in Hfw. destruct Hfw as [Hm Hfw].
    cbn [call call_doc class_of]. rewrite (pass_forwarding _ d args Hm).
    rewrite (IHf Hfw true args Hwt Hwf). destruct (call_doc f args) as [l r]. reflexivity.
  - (* FBindReturn *)
    apply andb_true_iff in Hfw. destruct Hfw as [Hm Hfw].
    cbn [call call_doc class_of]. rewrite (pass_forwarding _ d args Hm).
    rewrite (IHf Hfw true args Hwt Hwf). destruct (call_doc f args) as [l r]. reflexivity.
  - (* FCompose1 *)
    apply andb_true_iff in Hfw. destruct Hfw as [Hfw Hag]. apply andb_true_iff in Hfw. destruct Hfw as [Hm Has].
    apply andb_true_iff in Hwt. destruct Hwt as [Hwg Hws].
    apply andb_true_iff in Hwf. destruct Hwf as [Hwf Hrg]. apply andb_true_iff in Hwf. destruct Hwf as [Hfs Hfg].
    cbn [call call_doc class_of]. rewrite (pass_forwarding _ d args Hm).
    rewrite (IHg Hag true args Hwg Hfg).
    pose proof (call_doc_nonvoid g Hrg args) as Hnv.
    destruct (call_doc g args) as [lg rg]. cbn [cbind fst snd] in *.
    destruct rg as [v|ra| |]; [| |contradiction|reflexivity]; cbn [result_arg].
    + rewrite (IHs Has true [mkArg v ICopy] Hws Hfs).
      destruct (call_doc s [mkArg v ICopy]) as [ls rs]. reflexivity.
    + rewrite (IHs Has true [ra] Hws Hfs).
      destruct (call_doc s [ra]) as [ls rs]. reflexivity.
  - (* FCompose2 *)
    apply andb_true_iff in Hfw. destruct Hfw as [Hfw Ha2]. apply andb_true_iff in Hfw. destruct Hfw as [Hfw Ha1].
    apply andb_true_iff in Hfw. destruct Hfw as [Hm Has].
    apply andb_true_iff in Hwt. destruct Hwt as [Hwt Hws]. apply andb_true_iff in Hwt. destruct Hwt as [Hw1 Hw2].
    apply andb_true_iff in Hwf. destruct Hwf as [Hwf Hr2]. apply andb_true_iff in Hwf. destruct Hwf as [Hwf Hr1].
    apply andb_true_iff in Hwf. destruct Hwf as [Hwf Hf2]. apply andb_true_iff in Hwf. destruct Hwf as [Hfs Hf1].
    cbn [call call_doc class_of]. rewrite (pass_forwarding _ d args Hm).
    rewrite (IHg1 Ha1 true args Hw1 Hf1), (IHg2 Ha2 true args Hw2 Hf2).
    pose proof (call_doc_nonvoid g1 Hr1 args) as Hnv1. pose proof (call_doc_nonvoid g2 Hr2 args) as Hnv2.
    destruct (call_doc g1 args) as [lg1 rg1]. destruct (call_doc g2 args) as [lg2 rg2]. cbn [cbind fst snd] in *.
    destruct rg1 as [v1|ra1| |]; [| |contradiction|];
      (destruct rg2 as [v2|ra2| |]; [| |contradiction|]); cbn [result_arg]; try reflexivity;
      match goal with
      | |- context [call_doc s ?xs] =>
          rewrite (IHs Has true xs Hws Hfs); destruct (call_doc s xs) as [ls rs]; reflexivity
      end.
  - (* FExcCatch *)
    apply andb_true_iff in Hfw. destruct Hfw as [Hm Hfw].
    cbn [call call_doc class_of]. rewrite (pass_forwarding _ d args Hm).
    rewrite (IHf Hfw true args Hwt Hwf). destruct (call_doc f args) as [l r]. reflexivity.
  - (* FTrackObj *)
    apply andb_true_iff in Hfw. destruct Hfw as [Hm Hfw].
    cbn [call call_doc class_of]. rewrite (pass_forwarding _ d args Hm). apply IHf; assumption.
  - (* FSlot *)
    cbn [call call_doc]. apply IHf; assumption.
Qed.

Theorem modes_ok_all_forwarding :
  forall M, modes_ok M = true -> forall e, all_forwarding M e = true.
Proof.
  intros M H. unfold modes_ok in H. rewrite forallb_forall in H.
  assert (K : forall k, In k ["bind_functor"; "bind_functor<-1>"; "hide_functor"; "retype_functor";
                              "retype_return_functor"; "retype_return_functor<void>"; "bind_return_functor";
                              "compose1_functor"; "compose2_functor"; "exception_catch_functor";
                              "track_obj_functor"] -> forwarding (mode_of M k) = true) by exact H.
  clear H.
  induction e as [id th | id | t id kinds | loc f IHf bs | loc f IHf | f IHf | f IHf | f IHf | f IHf b
                  | s IHs g IHg | s IHs g1 IHg1 g2 IHg2 | f IHf c | f IHf ts | f IHf];
    cbn [all_forwarding class_of]; try reflexivity; try exact IHf;
    try (destruct loc);
    repeat (apply andb_true_iff; split); try assumption;
    apply K; simpl; tauto.
Qed.
