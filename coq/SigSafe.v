(* SigSafe.v -- the interpreter of SigCore.v never returns a memory-safety error. *)
From Coq Require Import List NArith Bool Lia Arith Permutation.
Import ListNotations.
Require Import Util SigCore SigLemmas SigInv.
Local Open Scope N_scope.

(* ------------------------------------------------------------------ *)
(* What a piece of (user or library) code may do to the impl table      *)

Definition fresh_impl (im : impl) : Prop :=
  i_exec im = 0 /\ i_holders im = 0 /\ i_deferred im = false /\ i_dying im = false /\
  phc (ids (i_nodes im)) = O.

Record Stab (st st' : state) : Prop := mkStab
  { sb_bound : forall i, aget i (impls st) <> None -> i < next_iid st
  ; sb_mono : next_iid st <= next_iid st'
  ; sb_impls : forall i im', aget i (impls st') = Some im' ->
      (exists im, aget i (impls st) = Some im /\ impl_same im im') \/ (next_iid st <= i /\ fresh_impl im')
  ; sb_keep : forall i im, aget i (impls st) = Some im -> 0 < i_holders im -> aget i (impls st') <> None }.

Lemma iid_bound st : WFstruct st -> forall i, aget i (impls st) <> None -> i < next_iid st.
Proof.
  intros Hs i H. apply (ws_iid _ Hs). destruct (aget i (impls st)) eqn:E; [|contradiction].
  eapply aget_some_in_keys; eauto.
Qed.

Lemma Stab_refl st : WFstruct st -> Stab st st.
Proof.
  intro Hs. constructor; [apply iid_bound; exact Hs|lia| |].
  - intros i im' H. left. exists im'. split; [exact H|apply impl_same_refl].
  - intros i im H _. congruence.
Qed.

Lemma fresh_impl_same im im' : fresh_impl im -> impl_same im im' -> fresh_impl im'.
Proof.
  intros (A & B & C & D & E) (S1 & S2 & S3 & S4 & S5 & S6).
  split; [congruence|]. split; [congruence|]. split; [rewrite S5 by exact A; exact C|].
  split; [congruence|lia].
Qed.

Lemma Stab_trans a b c : Stab a b -> Stab b c -> Stab a c.
Proof.
  intros [B1 M1 I1 K1] [B2 M2 I2 K2]. constructor; [exact B1|lia| |].
  - intros i im'' H. destruct (I2 i im'' H) as [(im' & H' & S')|(Hge & Hf)].
    + destruct (I1 i im' H') as [(im & H0 & S0)|(Hge & Hf)].
      * left. exists im. split; [exact H0|eapply impl_same_trans; eauto].
      * right. split; [exact Hge|eapply fresh_impl_same; eauto].
    + right. split; [lia|exact Hf].
  - intros i im H Hh. pose proof (K1 i im H Hh) as P.
    destruct (aget i (impls b)) as [im'|] eqn:Hb; [|contradiction].
    destruct (I1 i im' Hb) as [(im0 & H0 & S0)|(Hge & _)].
    + rewrite H in H0. inversion H0; subst im0. apply (K2 i im' Hb).
      destruct S0 as (_ & S2 & _). lia.
    + exfalso. assert (i < next_iid a) by (apply B1; congruence). lia.
Qed.

Lemma Casc_Stab st st' : WFstruct st -> Casc st st' -> Stab st st'.
Proof.
  intros Hs C. constructor; [apply iid_bound; exact Hs|rewrite (ca_iid _ _ C); lia| |].
  - intros i im' H. left. pose proof (ca_impls _ _ C i) as X. rewrite H in X.
    destruct (aget i (impls st)) as [im|]; [|contradiction]. exists im. auto.
  - intros i im H _. apply (Casc_impl_present _ _ i C). congruence.
Qed.

Lemma Stab_flags st st' : flags_ok st -> Stab st st' -> flags_ok st'.
Proof.
  intros Hf S i im' H. destruct (sb_impls _ _ S i im' H) as [(im & H0 & (S1 & S2 & S3 & S4 & S5 & S6))|(_ & (A & B & C & D & E))].
  - destruct (Hf i im H0) as (F1 & F2 & F3). split; [congruence|]. split.
    + intro X. rewrite S5 by congruence. apply F2. congruence.
    + rewrite S1. lia.
  - split; [exact D|]. split; [intros _; exact C|]. rewrite E, A. cbn. lia.
Qed.

Definition Guar (st st' : state) : Prop := WF st' /\ Stab st st'.

Lemma Guar_refl st : WF st -> Guar st st.
Proof. intro H. split; [exact H|]. apply Stab_refl. exact (wc_struct _ (wf_c _ H)). Qed.

Lemma Guar_trans a b c : Guar a b -> Guar b c -> Guar a c.
Proof. intros [_ S1] [W2 S2]. split; [exact W2|eapply Stab_trans; eauto]. Qed.

(* the usual way to establish Guar for library code *)
Lemma Guar_of_Casc st st' : WF st -> WFc st' -> Casc st st' -> Guar st st'.
Proof.
  intros [Hc Hn Hf Hsh] Hc' C. assert (S : Stab st st') by (apply Casc_Stab; [exact (wc_struct _ Hc)|exact C]).
  split; [|exact S]. constructor; [exact Hc'|eapply tlive_noclear; [exact (ca_tracks _ _ C)|exact Hn]|eapply Stab_flags; eauto|].
  unfold shared_ok. rewrite (ca_shared _ _ C). exact Hsh.
Qed.

(* states that differ only in trace / leak counter / kind table *)
Record sim (st st' : state) : Prop := mkSim
  { sm_heavy : same_heavy st st'
  ; sm_tracks : tracks st' = tracks st
  ; sm_conns : conns st' = conns st
  ; sm_sconns : sconns st' = sconns st }.

Lemma sim_emit_ev e st : sim st (emit_ev e st).
Proof. constructor; [constructor|..]; reflexivity. Qed.

Lemma sim_sym st st' : sim st st' -> sim st' st.
Proof. intros [[] ? ? ?]. constructor; [constructor|..]; congruence. Qed.

Lemma WFc_sim st st' : sim st st' -> WFc st -> WFc st'.
Proof.
  intros [Hh Et Ec Ek] [Hs Hr Hg Hw]. eapply WFc_build; eauto.
  - apply tlive_tracks_eq. exact Et.
  - eapply regs_tracks_eq; eauto.
  - eapply watch_ok_ex_transfer; [| | |exact Hw]; [destruct Hh|..]; assumption.
Qed.

Lemma WF_sim st st' : sim st st' -> WF st -> WF st'.
Proof.
  intros Hs [Hc Hn Hf Hsh]. constructor; [eapply WFc_sim; eauto| | |].
  - unfold noclear, live_track. rewrite (sm_tracks _ _ Hs). exact Hn.
  - unfold flags_ok. rewrite (sh_impls _ _ (sm_heavy _ _ Hs)). exact Hf.
  - unfold shared_ok. rewrite (sh_shared _ _ (sm_heavy _ _ Hs)). exact Hsh.
Qed.

Lemma Stab_sim_r st st' st'' : sim st' st'' -> Stab st st' -> Stab st st''.
Proof.
  intros Hs [B M I K]. pose proof (sh_impls _ _ (sm_heavy _ _ Hs)) as Ei. pose proof (sh_iid _ _ (sm_heavy _ _ Hs)) as En.
  constructor; rewrite ?Ei, ?En; assumption.
Qed.

Lemma Stab_sim_l st st0 st' : sim st st0 -> Stab st0 st' -> Stab st st'.
Proof.
  intros Hs [B M I K]. pose proof (sh_impls _ _ (sm_heavy _ _ Hs)) as Ei. pose proof (sh_iid _ _ (sm_heavy _ _ Hs)) as En.
  rewrite Ei, En in *. constructor; assumption.
Qed.

Lemma Guar_sim_r st st' st'' : sim st' st'' -> Guar st st' -> Guar st st''.
Proof. intros Hs [W S]. split; [eapply WF_sim; eauto|eapply Stab_sim_r; eauto]. Qed.

Lemma Guar_sim_l st st0 st' : sim st st0 -> Guar st0 st' -> Guar st st'.
Proof. intros Hs [W S]. split; [exact W|eapply Stab_sim_l; eauto]. Qed.

Definition out_ok {A} (st : state) (o : outcome A) : Prop :=
  match o with
  | Done st' _ => Guar st st'
  | Thrown st' => Guar st st'
  | Fail e => safe_err e
  end.

(* ------------------------------------------------------------------ *)
(* Consequences of the invariant, exported                              *)

Lemma wf_conn_target st w i n : WF st -> get_connptr w st = Some (Some (i, n)) ->
  exists sb r, get_sb (LNode i n) st = Some sb /\ sb_rep sb = Some r /\ In w (r_watch r).
Proof.
  intros H Hp. destruct (wc_watch _ (wf_c _ H) w i n Hp) as [[]|X]. exact X.
Qed.

Lemma wf_valid_has_fn st r : WF st -> In r (all_reps st) -> r_valid r = true -> r_fn r <> None.
Proof.
  intros H Hin. exact (proj2 (in_all_reps_good _ _ (wc_struct _ (wf_c _ H)) Hin)).
Qed.

Lemma wf_rids_unique st : WF st ->
  NoDup (map r_id (all_reps st)) /\ Forall (fun r => r_id r < next_rid st) (all_reps st).
Proof.
  intro H. pose proof (wc_struct _ (wf_c _ H)) as Hs. split; [exact (ws_rids _ Hs)|].
  eapply Forall_impl; [|exact (ws_good _ Hs)]. intros r (A & _). exact A.
Qed.

Lemma wf_refs_live st r f t : WF st -> In r (all_reps st) -> r_fn r = Some f -> In t (f_refs f) ->
  live_track t st <> None.
Proof.
  intros H Hin Hf Ht. apply (proj1 (wc_regs _ (wf_c _ H)) t (r_id r)).
  eapply dem_in_pos; [|exact Ht]. unfold dem_of. apply in_map_iff. exists r. split; [|exact Hin].
  unfold refs_of. rewrite Hf. reflexivity.
Qed.

Lemma wf_var_detached st r : WF st -> In r (var_reps st) -> r_attached r = false /\ r_watch r = [].
Proof.
  intros H Hin. pose proof (ws_vars _ (wc_struct _ (wf_c _ H))) as F. rewrite Forall_forall in F. exact (F r Hin).
Qed.

Lemma wf_node_ids st i im : WF st -> aget i (impls st) = Some im ->
  NoDup (map n_id (i_nodes im)) /\
  (forall nd, In nd (i_nodes im) ->
     match n_id nd with Real n => n < next_nid st | Ph n => n < next_ph st end).
Proof.
  intros H Hi. destruct (ws_nodes _ (wc_struct _ (wf_c _ H)) i im Hi) as (A & B). split; [exact A|].
  intros nd Hin. rewrite Forall_forall in B. apply (B (n_id nd)). apply in_map. exact Hin.
Qed.

(* every rep of the state is reachable through get_sb, so the statements above cover "all slot
   variables and all nodes of all impls" *)
Lemma all_reps_complete st l sb r : get_sb l st = Some sb -> sb_rep sb = Some r -> In r (all_reps st).
Proof. apply get_sb_in_all_reps. Qed.

(* ------------------------------------------------------------------ *)
(* Guar from the frames of SigInv                                       *)

Lemma Stab_impls_eq st st' : WFstruct st -> impls st' = impls st -> next_iid st <= next_iid st' -> Stab st st'.
Proof.
  intros Hs Ei Hn. constructor; [apply iid_bound; exact Hs|exact Hn| |].
  - intros i im' H. left. exists im'. rewrite <- Ei. split; [exact H|apply impl_same_refl].
  - intros i im H _. rewrite Ei. congruence.
Qed.

Lemma FrameI_Stab i st st' : WFstruct st -> FrameI i st st' ->
  match aget i (impls st') with
  | Some im' => exists im, aget i (impls st) = Some im /\ impl_same im im'
  | None => forall im, aget i (impls st) = Some im -> i_holders im = 0
  end -> Stab st st'.
Proof.
  intros Hs F Hi. constructor; [apply iid_bound; exact Hs|rewrite (fi_iid _ _ _ F); lia| |].
  - intros j im' H. left. destruct (N.eq_dec j i) as [->|Hne].
    + rewrite H in Hi. exact Hi.
    + rewrite (fi_others _ _ _ F j Hne) in H. exists im'. split; [exact H|apply impl_same_refl].
  - intros j im H Hh. destruct (N.eq_dec j i) as [->|Hne].
    + destruct (aget i (impls st')) eqn:E; [discriminate|]. specialize (Hi im H). lia.
    + rewrite (fi_others _ _ _ F j Hne). congruence.
Qed.

Lemma Guar_of_Stab st st' : WF st -> WFc st' -> noclear st' -> shared_ok st' -> Stab st st' -> Guar st st'.
Proof.
  intros [Hc Hn Hf Hsh] Hc' Hn' Hsh' S. split; [|exact S]. constructor; [exact Hc'|exact Hn'|eapply Stab_flags; eauto|exact Hsh'].
Qed.

Lemma release_check_G i st : WF st ->
  exists st', release_check i st = Ok st' /\ Guar st st' /\ sigs st' = sigs st /\ tlive_same st st' /\
    (forall j, j <> i -> aget j (impls st') = aget j (impls st)).
Proof.
  intro H. destruct (release_check_ok i st (wf_c _ H)) as (st' & E & W & F & D).
  exists st'. split; [exact E|]. split; [|split; [exact (fi_sigs _ _ _ F)|split; [exact (fi_tracks _ _ _ F)|exact (fi_others _ _ _ F)]]].
  apply Guar_of_Stab; [exact H|exact W|eapply tlive_noclear; [exact (fi_tracks _ _ _ F)|exact (wf_noclear _ H)]|
                        unfold shared_ok; rewrite (fi_shared _ _ _ F); exact (wf_shared _ H)|].
  eapply FrameI_Stab; [exact (wc_struct _ (wf_c _ H))|exact F|].
  destruct D as [->|(A & B)].
  - destruct (aget i (impls st)) as [im|]; [exists im; split; [reflexivity|apply impl_same_refl]|discriminate].
  - rewrite A. intros im Hi. exact (proj2 (refcount_zero i st B) im Hi).
Qed.

Lemma track_notify_G t st : WF st ->
  exists st', track_notify t st = Ok st' /\ Guar st st' /\ Casc st st' /\
     (forall rid, dem t rid (dem_of (all_reps st')) = O).
Proof.
  intro H. destruct (track_notify_ok t st (wf_c _ H) (wf_noclear _ H)) as (st' & E & W & C & N0 & D).
  exists st'. split; [exact E|]. split; [apply Guar_of_Casc; assumption|]. split; assumption.
Qed.

(* ------------------------------------------------------------------ *)
(* creating and destroying trackables                                   *)

Lemma live_track_aset t t' o st :
  live_track t' (with_tracks (aset t o (tracks st)) st) = if N.eqb t' t then o else live_track t' st.
Proof.
  unfold live_track. cbn [tracks with_tracks]. rewrite aget_aset. destruct (N.eqb t' t); [destruct o|]; reflexivity.
Qed.

Lemma regs_new_track D t st : regs D st -> live_track t st = None ->
  regs D (with_tracks (aset t (Some (mkTr None false)) (tracks st)) st).
Proof.
  intros [R1 R2] Hl. split.
  - intros t' rid H. rewrite live_track_aset. destruct (N.eqb t' t); [discriminate|eauto].
  - intros t' tr H rid. rewrite live_track_aset in H. destruct (N.eqb_spec t' t) as [->|Hne]; [|eauto].
    inversion H; subst tr. cbn. destruct (dem t rid D) eqn:E; [reflexivity|].
    exfalso. apply (R1 t rid); [lia|exact Hl].
Qed.

Lemma regs_del_track D t st : regs D st -> (forall rid, dem t rid D = O) ->
  regs D (with_tracks (aset t None (tracks st)) st).
Proof.
  intros [R1 R2] Hz. split.
  - intros t' rid H. rewrite live_track_aset. destruct (N.eqb_spec t' t) as [->|Hne]; [|eauto].
    rewrite Hz in H. lia.
  - intros t' tr H rid. rewrite live_track_aset in H. destruct (N.eqb t' t); [discriminate|eauto].
Qed.

Lemma with_tracks_heavy v st : same_heavy st (with_tracks v st).
Proof. constructor; reflexivity. Qed.

Lemma WFc_with_tracks v st : WFc st -> regs (dem_of (all_reps st)) (with_tracks v st) -> sig_ok (with_tracks v st) ->
  WFc (with_tracks v st).
Proof.
  intros [Hs Hr Hg Hw] Hr' Hg'. constructor; [eapply WFstruct_heavy; [apply with_tracks_heavy|exact Hs]| |exact Hg'|].
  - exact Hr'.
  - eapply watch_ok_ex_transfer; [| | |exact Hw]; reflexivity.
Qed.

Lemma user_track_not_sig t g : t < 1000 -> trackable_of_sig g <> t.
Proof. unfold trackable_of_sig. lia. Qed.

Lemma sig_ok_user_track t o st : t < 1000 -> sig_ok st -> sig_ok (with_tracks (aset t o (tracks st)) st).
Proof.
  intros Ht [G1 G2]. split; [|exact G2]. intro g. destruct (G1 g) as [A B].
  pose proof (user_track_not_sig t g Ht) as Hne. split.
  - rewrite live_track_aset. destruct (N.eqb_spec (trackable_of_sig g) t); [contradiction|exact A].
  - intro X. cbn [tracks with_tracks]. rewrite aget_aset_other by exact Hne. apply B. exact X.
Qed.

Lemma noclear_aset t o st : noclear st -> (forall tr, o = Some tr -> t_clearing tr = false) ->
  noclear (with_tracks (aset t o (tracks st)) st).
Proof.
  intros Hn Ho t' tr H. rewrite live_track_aset in H. destruct (N.eqb t' t); [apply Ho; exact H|eapply Hn; eauto].
Qed.

Lemma Guar_with_tracks v st : WF st -> WFc (with_tracks v st) -> noclear (with_tracks v st) -> Guar st (with_tracks v st).
Proof.
  intros H Hc Hn. apply Guar_of_Stab; try assumption; [exact (wf_shared _ H)|].
  apply Stab_impls_eq; [exact (wc_struct _ (wf_c _ H))|reflexivity|cbn; lia].
Qed.

Lemma new_user_track_G t st : WF st -> aget t (tracks st) = None -> t < 1000 ->
  Guar st (with_tracks (aset t (Some (mkTr None false)) (tracks st)) st).
Proof.
  intros H Hf Ht. assert (Hl : live_track t st = None) by (unfold live_track; rewrite Hf; reflexivity).
  apply Guar_with_tracks; [exact H| |].
  - apply WFc_with_tracks; [exact (wf_c _ H)| |].
    + apply regs_new_track; [exact (wc_regs _ (wf_c _ H))|exact Hl].
    + apply sig_ok_user_track; [exact Ht|exact (wc_sig _ (wf_c _ H))].
  - apply noclear_aset; [exact (wf_noclear _ H)|]. intros tr E. inversion E. reflexivity.
Qed.

Lemma del_user_track_G t st : WF st -> t < 1000 ->
  exists st1, track_notify t st = Ok st1 /\ Casc st st1 /\
    Guar st (with_tracks (aset t None (tracks st1)) st1).
Proof.
  intros H Ht. destruct (track_notify_G t st H) as (st1 & E & G & C & D).
  exists st1. split; [exact E|]. split; [exact C|]. eapply Guar_trans; [exact G|]. destruct G as [W1 _].
  apply Guar_with_tracks; [exact W1| |].
  - apply WFc_with_tracks; [exact (wf_c _ W1)| |].
    + apply regs_del_track; [exact (wc_regs _ (wf_c _ W1))|exact D].
    + apply sig_ok_user_track; [exact Ht|exact (wc_sig _ (wf_c _ W1))].
  - apply noclear_aset; [exact (wf_noclear _ W1)|]. intros tr E'. discriminate.
Qed.

(* ------------------------------------------------------------------ *)
(* fresh reps, deleting a slot variable                                 *)

Lemma fresh_rep_ok v f b st : WFc st -> noclear st ->
  (forall t, In t (f_refs f) -> live_track t st <> None) ->
  exists st2, bind_all (next_rid st) (f_refs f) (with_next_rid (next_rid st + 1) st) = Ok st2 /\
    WFp (mkSB (Some (mkRep (next_rid st) v false (Some f) [])) b) st2 /\ Grow st st2 /\ slots st2 = slots st.
Proof.
  intros [Hs Hr Hg Hw] Hnc Hlive.
  set (rid := next_rid st). set (st0 := with_next_rid (rid + 1) st).
  assert (Hr0 : regs (dem_of (all_reps st)) st0) by (eapply regs_tracks_eq; [|exact Hr]; reflexivity).
  destruct (bind_all_ok rid (f_refs f) _ st0 Hr0 Hnc Hlive) as (st2 & E2 & R2 & H2 & T2 & C2 & K2).
  exists st2. split; [exact E2|].
  assert (Hs0 : WFstruct st0).
  { eapply WFstruct_mono; [| | | | | |exact Hs]; cbn [st0 slots impls next_rid next_nid next_iid next_ph with_next_rid]; try reflexivity; lia. }
  assert (Ea : all_reps st2 = all_reps st) by (rewrite (all_reps_heavy _ _ H2); reflexivity).
  assert (Hrid2 : next_rid st2 = rid + 1) by (rewrite (sh_rid _ _ H2); reflexivity).
  split; [|split].
  - constructor.
    + eapply WFstruct_heavy; eauto.
    + rewrite Ea. exact R2.
    + eapply sig_ok_transfer; [| | |exact Hg]; [exact (sh_sigs _ _ H2)|exact T2|].
      rewrite (sh_impls _ _ H2). auto.
    + eapply watch_ok_ex_transfer; [| | |exact Hw]; [exact (sh_impls _ _ H2)|rewrite C2; reflexivity|rewrite K2; reflexivity].
    + cbn [sb_reps sb_rep optl]. constructor; [|constructor]. split; [|split].
      * unfold rep_good. cbn [r_id r_valid r_fn]. rewrite Hrid2. split; [lia|discriminate].
      * split; reflexivity.
      * cbn [r_id]. rewrite Ea. intro X. apply in_map_iff in X. destruct X as (x & Ex & Hx).
        pose proof (proj1 (in_all_reps_good _ _ Hs Hx)) as Y. fold rid in Y. lia.
  - constructor; [exact (sh_sigs _ _ H2)|exact (sh_impls _ _ H2)|exact (sh_nid _ _ H2)|exact (sh_iid _ _ H2)|exact (sh_ph _ _ H2)|exact (sh_shared _ _ H2)| |exact T2].
    rewrite Hrid2. unfold rid. lia.
  - exact (sh_slots _ _ H2).
Qed.

Lemma Casc_impls_eq st st' : sigs st' = sigs st -> next_iid st' = next_iid st -> shared st' = shared st ->
  tlive_same st st' -> impls st' = impls st -> Casc st st'.
Proof.
  intros Es En Ex T Ei. constructor; try assumption. intro i. rewrite Ei.
  destruct (aget i (impls st)); [apply impl_same_refl|exact I].
Qed.

Lemma del_slot_ok s sb st : WFc st -> get_sb (LVar s) st = Some sb ->
  exists st', sb_delete sb (with_slots (aset s None (slots st)) st) = Ok st' /\ WFc st' /\ Casc st st'.
Proof.
  intros [Hs Hr Hg Hw] Hget. set (st1 := with_slots (aset s None (slots st)) st).
  pose proof (get_sb_var_inv _ _ _ Hget) as Hs0.
  destruct (set_slot_reps st s (Some sb) None Hs0) as (L & R & Ea & Ea' & _). fold st1 in Ea'.
  cbn [slot_reps app] in Ea, Ea'.
  assert (Hs1 : WFstruct st1).
  { eapply WFstruct_set_slot; eauto; cbn [slot_reps]; [apply reps_upd_nil|constructor]. }
  assert (Hg1 : sig_ok st1).
  { eapply sig_ok_transfer; [| | |exact Hg]; [reflexivity|apply tlive_tracks_eq; reflexivity|auto]. }
  assert (Hw1 : watch_ok st1) by (eapply watch_ok_ex_transfer; [| | |exact Hw]; reflexivity).
  unfold sb_delete. destruct (sb_rep sb) as [r|] eqn:Hrep.
  - destruct (var_rep_detached _ _ _ _ Hs Hget Hrep) as (_ & Hwat).
    assert (Hr1 : regs ((r_id r, refs_of r) :: dem_of (all_reps st1)) st1).
    { rewrite Ea'. eapply regs_tracks_eq; [reflexivity|]. rewrite Ea in Hr. apply regs_mid_out in Hr.
      unfold sb_reps in Hr. rewrite Hrep in Hr. exact Hr. }
    destruct (rep_delete_ok r _ [] st1 Hr1) as (st' & E' & R' & W' & H' & T').
    { rewrite Hwat. exact Hw1. }
    exists st'. split; [exact E'|]. split; [eapply WFc_build; eauto|].
    apply Casc_impls_eq; [exact (sh_sigs _ _ H')|exact (sh_iid _ _ H')|exact (sh_shared _ _ H')| |exact (sh_impls _ _ H')].
    eapply tlive_same_trans; [apply tlive_tracks_eq|exact T']. reflexivity.
  - exists st1. split; [reflexivity|]. split.
    + constructor; try assumption. rewrite Ea'. eapply regs_tracks_eq; [reflexivity|].
      rewrite Ea in Hr. unfold sb_reps in Hr. rewrite Hrep in Hr. exact Hr.
    + apply Casc_impls_eq; try reflexivity. apply tlive_tracks_eq. reflexivity.
Qed.

(* ------------------------------------------------------------------ *)
(* the table of signal objects                                          *)

Lemma tos_inj g g' : trackable_of_sig g = trackable_of_sig g' -> g = g'.
Proof. unfold trackable_of_sig. lia. Qed.

Lemma WFc_sigs_tracks st st' :
  WFc st -> slots st' = slots st -> impls st' = impls st -> conns st' = conns st -> sconns st' = sconns st ->
  next_rid st' = next_rid st -> next_nid st' = next_nid st -> next_iid st' = next_iid st -> next_ph st' = next_ph st ->
  regs (dem_of (all_reps st)) st' -> sig_ok st' -> WFc st'.
Proof.
  intros [Hs Hr Hg Hw] E1 E2 E3 E4 E5 E6 E7 E8 Hr' Hg'.
  assert (Ea : all_reps st' = all_reps st) by (unfold all_reps, var_reps, node_reps; congruence).
  constructor.
  - eapply WFstruct_mono; [exact E1|exact E2| | | | |exact Hs]; lia.
  - rewrite Ea. exact Hr'.
  - exact Hg'.
  - eapply watch_ok_ex_transfer; eauto.
Qed.

Definition add_sig (g : N) (k : gkind) (io : option N) (st : state) : state :=
  let st1 := with_sigs (aset g (Some (mkSig k io)) (sigs st)) st in
  if gk_track k then with_tracks (aset (trackable_of_sig g) (Some (mkTr None false)) (tracks st1)) st1 else st1.

Lemma add_sig_impls g k io st : impls (add_sig g k io st) = impls st /\ next_iid (add_sig g k io st) = next_iid st.
Proof. unfold add_sig. destruct (gk_track k); split; reflexivity. Qed.

Lemma add_sig_G g k io st : WF st -> aget g (sigs st) = None ->
  (forall i, io = Some i -> aget i (impls st) <> None) ->
  Guar st (add_sig g k io st).
Proof.
  intros H Hfresh Hio. pose proof (wf_c _ H) as Hc. destruct (wc_sig _ Hc) as [G1 G2].
  assert (Htn : aget (trackable_of_sig g) (tracks st) = None) by (apply (G1 g); exact Hfresh).
  assert (Hl : live_track (trackable_of_sig g) st = None) by (unfold live_track; rewrite Htn; reflexivity).
  assert (Hsig : forall g', live_sig g' (add_sig g k io st) = if N.eqb g' g then Some (mkSig k io) else live_sig g' st).
  { intro g'. unfold add_sig. destruct (gk_track k); apply live_sig_aset. }
  assert (Htr : forall t, live_track t (add_sig g k io st) =
                  if gk_track k && N.eqb t (trackable_of_sig g) then Some (mkTr None false) else live_track t st).
  { intro t. unfold add_sig. destruct (gk_track k); cbn [andb]; [|reflexivity]. rewrite live_track_aset.
    destruct (N.eqb t (trackable_of_sig g)); reflexivity. }
  assert (Hc' : WFc (add_sig g k io st)).
  { apply (WFc_sigs_tracks st); try exact Hc; try (unfold add_sig; destruct (gk_track k); reflexivity).
    - unfold add_sig. destruct (gk_track k).
      + apply (regs_new_track _ _ (with_sigs _ st)); [|exact Hl]. eapply regs_tracks_eq; [|exact (wc_regs _ Hc)]. reflexivity.
      + eapply regs_tracks_eq; [|exact (wc_regs _ Hc)]. reflexivity.
    - split.
      + intro g'. destruct (G1 g') as [A B]. rewrite Hsig, Htr. split.
        * destruct (N.eqb_spec g' g) as [->|Hne].
          -- rewrite N.eqb_refl, andb_true_r. destruct (gk_track k) eqn:Hk.
             ++ split; [intros _; eexists; split; [reflexivity|exact Hk]|discriminate].
             ++ rewrite Hl. split; [intro X; exfalso; apply X; reflexivity|].
                intros (go & E & K). inversion E; subst go. cbn [g_kind] in K. congruence.
          -- destruct (N.eqb_spec (trackable_of_sig g') (trackable_of_sig g)) as [E|_];
               [apply tos_inj in E; contradiction|]. rewrite andb_false_r. exact A.
        * unfold add_sig. destruct (gk_track k); cbn [sigs tracks with_sigs with_tracks]; rewrite !aget_aset;
            destruct (N.eqb_spec g' g) as [->|Hne]; try discriminate.
          -- destruct (N.eqb_spec (trackable_of_sig g') (trackable_of_sig g)) as [E|_];
               [apply tos_inj in E; contradiction|exact B].
          -- exact B.
      + intros g' go i Hl' Hi. rewrite Hsig in Hl'. rewrite (proj1 (add_sig_impls g k io st)).
        destruct (N.eqb g' g); [inversion Hl'; subst go; apply Hio; exact Hi|eapply G2; eauto]. }
  apply Guar_of_Stab; [exact H|exact Hc'| | |].
  - intros t tr Ht. rewrite Htr in Ht. destruct (gk_track k && N.eqb t (trackable_of_sig g)).
    + inversion Ht. reflexivity.
    + exact (wf_noclear _ H _ _ Ht).
  - unfold shared_ok, add_sig. destruct (gk_track k); exact (wf_shared _ H).
  - apply Stab_impls_eq; [exact (wc_struct _ Hc)|exact (proj1 (add_sig_impls g k io st))|].
    rewrite (proj2 (add_sig_impls g k io st)). lia.
Qed.

Lemma upd_sig_G g go io st : WF st -> live_sig g st = Some go ->
  (forall i, io = Some i -> aget i (impls st) <> None) ->
  Guar st (with_sigs (aset g (Some (mkSig (g_kind go) io)) (sigs st)) st).
Proof.
  intros H Hl Hio. pose proof (wf_c _ H) as Hc. destruct (wc_sig _ Hc) as [G1 G2].
  set (st' := with_sigs (aset g (Some (mkSig (g_kind go) io)) (sigs st)) st).
  assert (Hc' : WFc st').
  { apply (WFc_sigs_tracks st); try exact Hc; try reflexivity.
    - eapply regs_tracks_eq; [|exact (wc_regs _ Hc)]. reflexivity.
    - split.
      + intro g'. destruct (G1 g') as [A B]. unfold st'. rewrite live_sig_aset. split.
        * destruct (N.eqb_spec g' g) as [->|Hne]; [|exact A]. rewrite Hl in A. split.
          -- intro X. destruct (proj1 A X) as (go' & E & K). inversion E; subst go'. eexists. split; [reflexivity|exact K].
          -- intros (go' & E & K). inversion E; subst go'. apply (proj2 A). exists go. auto.
        * cbn [sigs with_sigs tracks]. rewrite aget_aset. destruct (N.eqb g' g); [discriminate|exact B].
      + intros g' go' i Hl' Hi. unfold st' in Hl'. rewrite live_sig_aset in Hl'.
        destruct (N.eqb g' g); [inversion Hl'; subst go'; apply Hio; exact Hi|eapply G2; eauto]. }
  apply Guar_of_Stab; [exact H|exact Hc'|exact (wf_noclear _ H)|exact (wf_shared _ H)|].
  apply Stab_impls_eq; [exact (wc_struct _ Hc)|reflexivity|cbn; lia].
Qed.

Definition del_sig (g : N) (tracked : bool) (st : state) : state :=
  let st1 := if tracked then with_tracks (aset (trackable_of_sig g) None (tracks st)) st else st in
  with_sigs (aset g None (sigs st1)) st1.

Lemma del_sig_G g go st : WF st -> live_sig g st = Some go ->
  (gk_track (g_kind go) = true -> forall rid, dem (trackable_of_sig g) rid (dem_of (all_reps st)) = O) ->
  Guar st (del_sig g (gk_track (g_kind go)) st).
Proof.
  intros H Hl Hdem. pose proof (wf_c _ H) as Hc. destruct (wc_sig _ Hc) as [G1 G2].
  set (st' := del_sig g (gk_track (g_kind go)) st).
  assert (Hsig : forall g', live_sig g' st' = if N.eqb g' g then None else live_sig g' st).
  { intro g'. unfold st', del_sig. destruct (gk_track (g_kind go)); rewrite live_sig_aset; reflexivity. }
  assert (Htr : forall t, live_track t st' =
                  if gk_track (g_kind go) && N.eqb t (trackable_of_sig g) then None else live_track t st).
  { intro t. unfold st', del_sig. destruct (gk_track (g_kind go)); cbn [andb]; [|reflexivity].
    unfold live_track. cbn [tracks with_sigs with_tracks]. rewrite aget_aset.
    destruct (N.eqb t (trackable_of_sig g)); reflexivity. }
  assert (Hc' : WFc st').
  { apply (WFc_sigs_tracks st); try exact Hc; try (unfold st', del_sig; destruct (gk_track (g_kind go)); reflexivity).
    - unfold st', del_sig. destruct (gk_track (g_kind go)) eqn:Hk.
      + apply (regs_tracks_eq _ (with_tracks (aset (trackable_of_sig g) None (tracks st)) st)); [reflexivity|].
        apply regs_del_track; [exact (wc_regs _ Hc)|apply Hdem; reflexivity].
      + eapply regs_tracks_eq; [|exact (wc_regs _ Hc)]. reflexivity.
    - split.
      + intro g'. destruct (G1 g') as [A B]. rewrite Hsig, Htr. split.
        * destruct (N.eqb_spec g' g) as [->|Hne].
          -- rewrite N.eqb_refl, andb_true_r. destruct (gk_track (g_kind go)) eqn:Hk.
             ++ split; [intro X; exfalso; apply X; reflexivity|intros (go' & E & _); discriminate].
             ++ split; [|intros (go' & E & _); discriminate]. intro X. destruct (proj1 A X) as (go' & E & K).
                rewrite Hl in E. inversion E; subst go'. congruence.
          -- destruct (N.eqb_spec (trackable_of_sig g') (trackable_of_sig g)) as [E|_];
               [apply tos_inj in E; contradiction|]. rewrite andb_false_r. exact A.
        * unfold st', del_sig. destruct (gk_track (g_kind go)); cbn [sigs tracks with_sigs with_tracks]; rewrite !aget_aset;
            destruct (N.eqb_spec g' g) as [->|Hne]; try discriminate.
          -- destruct (N.eqb_spec (trackable_of_sig g') (trackable_of_sig g)) as [E|_];
               [apply tos_inj in E; contradiction|exact B].
          -- exact B.
      + intros g' go' i Hl' Hi. rewrite Hsig in Hl'.
        assert (Ei : impls st' = impls st) by (unfold st', del_sig; destruct (gk_track (g_kind go)); reflexivity).
        rewrite Ei. destruct (N.eqb g' g); [discriminate|eapply G2; eauto]. }
  apply Guar_of_Stab; [exact H|exact Hc'| | |].
  - intros t tr Ht. rewrite Htr in Ht. destruct (gk_track (g_kind go) && N.eqb t (trackable_of_sig g)); [discriminate|].
    exact (wf_noclear _ H _ _ Ht).
  - unfold shared_ok, st', del_sig. destruct (gk_track (g_kind go)); exact (wf_shared _ H).
  - apply Stab_impls_eq; [exact (wc_struct _ Hc)| |]; unfold st', del_sig; destruct (gk_track (g_kind go)); cbn; try reflexivity; lia.
Qed.

(* ------------------------------------------------------------------ *)
(* positions in node lists                                              *)

Lemma find_index_nth {A} (p : A -> bool) (l : list A) j x :
  nth_error l j = Some x -> p x = true -> (forall j' y, (j' < j)%nat -> nth_error l j' = Some y -> p y = false) ->
  find_index p l = Some j.
Proof.
  revert j. induction l as [|a l IH]; intros [|j] H Hp Hlt; cbn [nth_error find_index] in *; try discriminate.
  - inversion H; subst a. rewrite Hp. reflexivity.
  - rewrite (Hlt O a); [|lia|reflexivity]. rewrite (IH j H Hp); [reflexivity|].
    intros j' y Hj' Hy. apply (Hlt (S j') y); [lia|exact Hy].
Qed.

Lemma NoDup_nth_inj {A} (l : list A) j j' x : NoDup l -> nth_error l j = Some x -> nth_error l j' = Some x -> j = j'.
Proof.
  intros Hnd H1 H2. apply (proj1 (NoDup_nth_error l) Hnd); [apply nth_error_Some; congruence|congruence].
Qed.

Lemma nth_error_ids l j : nth_error (ids l) j = option_map n_id (nth_error l j).
Proof. unfold ids. revert j. induction l as [|a l IH]; intros [|j]; cbn; auto. Qed.

Lemma find_index_node l j cur : NoDup (ids l) -> nth_error (ids l) j = Some cur ->
  find_index (fun x => nid_eqb (n_id x) cur) l = Some j.
Proof.
  intros Hnd Hj. rewrite nth_error_ids in Hj. destruct (nth_error l j) as [x|] eqn:Hx; [|discriminate].
  cbn [option_map] in Hj. inversion Hj as [Hid].
  eapply find_index_nth; [exact Hx|rewrite Hid; apply nid_eqb_refl|].
  intros j' y Hlt Hy. apply nid_eqb_neq. intro E.
  assert (Ha : nth_error (ids l) j' = Some cur) by (rewrite nth_error_ids, Hy; cbn; congruence).
  assert (Hb : nth_error (ids l) j = Some cur) by (rewrite nth_error_ids, Hx; cbn; congruence).
  pose proof (NoDup_nth_inj _ _ _ _ Hnd Ha Hb). lia.
Qed.

Lemma nth_error_block {A} (pre blk post : list A) k : (k < length blk)%nat ->
  nth_error (pre ++ blk ++ post) (length pre + k) = nth_error blk k.
Proof.
  intro H. rewrite nth_error_app2 by lia. replace (length pre + k - length pre)%nat with k by lia.
  apply nth_error_app1. exact H.
Qed.

(* the impl of an emission frame seen from a later state *)
Inductive in_block (i : N) (blk : list nid) (st : state) : Prop :=
| mkInBlock (im : impl) (pre post : list nid)
    (Hget : aget i (impls st) = Some im)
    (Hids : ids (i_nodes im) = pre ++ blk ++ post)
    (Hnodup : NoDup (ids (i_nodes im))).

Lemma node_at_block i blk st k cur : in_block i blk st -> nth_error blk k = Some cur ->
  exists sb, get_sb (LNode i cur) st = Some sb.
Proof.
  intros [im pre post Hg Hids Hnd] Hk. rewrite get_sb_node, Hg.
  assert (Hin : In cur (ids (i_nodes im))).
  { rewrite Hids. apply in_or_app. right. apply in_or_app. left. eapply nth_error_In; eauto. }
  destruct (find_node cur (i_nodes im)) as [nd|] eqn:Hf; [eexists; reflexivity|].
  exfalso. apply find_node_none_iff in Hf. contradiction.
Qed.

Lemma node_next_block i blk st k cur : in_block i blk st -> nth_error blk k = Some cur ->
  (S k < length blk)%nat ->
  exists nx, node_next i cur st = Ok (Some nx) /\ nth_error blk (S k) = Some nx.
Proof.
  intros [im pre post Hg Hids Hnd] Hk Hlt. unfold node_next. rewrite Hg.
  assert (Hpos : nth_error (ids (i_nodes im)) (length pre + k) = Some cur).
  { rewrite Hids, nth_error_block by lia. exact Hk. }
  rewrite (find_index_node _ _ _ Hnd Hpos).
  destruct (nth_error blk (S k)) as [nx|] eqn:Hnx; [|apply nth_error_None in Hnx; lia].
  exists nx. split; [|reflexivity]. rewrite <- nth_error_ids, Hids.
  replace (S (length pre + k)) with (length pre + S k)%nat by lia.
  rewrite nth_error_block by lia. rewrite Hnx. reflexivity.
Qed.

Lemma node_prev_block i blk st k cur : in_block i blk st -> nth_error blk (S k) = Some cur ->
  exists pv, node_prev i cur st = Ok (Some pv) /\ nth_error blk k = Some pv.
Proof.
  intros [im pre post Hg Hids Hnd] Hk. unfold node_prev. rewrite Hg.
  assert (Hlt : (S k < length blk)%nat) by (apply nth_error_Some; congruence).
  assert (Hpos : nth_error (ids (i_nodes im)) (length pre + S k) = Some cur).
  { rewrite Hids, nth_error_block by lia. exact Hk. }
  rewrite (find_index_node _ _ _ Hnd Hpos).
  replace (length pre + S k)%nat with (S (length pre + k)) by lia.
  destruct (nth_error blk k) as [pv|] eqn:Hpv; [|apply nth_error_None in Hpv; lia].
  exists pv. split; [|reflexivity]. rewrite <- nth_error_ids, Hids.
  rewrite nth_error_block by lia. rewrite Hpv. reflexivity.
Qed.

Lemma Guar_block i st1 st im1 : Guar st1 st -> aget i (impls st1) = Some im1 ->
  0 < i_exec im1 -> 0 < i_holders im1 ->
  in_block i (ids (i_nodes im1)) st /\
  exists im, aget i (impls st) = Some im /\ impl_same im1 im.
Proof.
  intros [W S] Hi He Hh.
  pose proof (sb_keep _ _ S i im1 Hi Hh) as Hp.
  destruct (aget i (impls st)) as [im|] eqn:Hg; [|contradiction].
  destruct (sb_impls _ _ S i im Hg) as [(im0 & H0 & Hs)|(Hge & _)].
  2:{ exfalso. assert (i < next_iid st1) by (apply (sb_bound _ _ S); congruence). lia. }
  rewrite Hi in H0. inversion H0; subst im0.
  split; [|exists im; auto].
  destruct Hs as (_ & _ & _ & S4 & _). destruct (S4 He) as (pre & post & Eids).
  econstructor; [exact Hg|exact Eids|]. exact (proj1 (ws_nodes _ (wc_struct _ (wf_c _ W)) i im Hg)).
Qed.

(* ------------------------------------------------------------------ *)
(* emission frames                                                      *)

Lemma phc_app a b : phc (a ++ b) = (phc a + phc b)%nat.
Proof. unfold phc. rewrite filter_app, app_length. reflexivity. Qed.

Lemma ids_app a b : ids (a ++ b) = ids a ++ ids b.
Proof. apply map_app. Qed.

Lemma ids_del_node n l A B : ids l = A ++ n :: B -> ~ In n A -> ids (del_node n l) = A ++ B.
Proof.
  revert A. induction l as [|x l IH]; intros A E Hn.
  - destruct A; discriminate.
  - cbn [ids map] in E. cbn [del_node]. destruct A as [|a A]; cbn [app] in E; inversion E as [[E1 E2]].
    + rewrite nid_eqb_refl. reflexivity.
    + destruct (nid_eqb_spec (n_id x) n) as [X|X]; [exfalso; apply Hn; left; congruence|].
      cbn [ids map app]. f_equal. apply IH; [exact E2|]. intro Y. apply Hn. right; exact Y.
Qed.

Record Framed (i : N) (im : impl) (ph : nid) (st st1 : state) (im1 : impl) : Prop := mkFramed
  { fr_get : aget i (impls st1) = Some im1
  ; fr_exec : i_exec im1 = i_exec im + 1
  ; fr_holders : i_holders im1 = i_holders im + 1
  ; fr_dying : i_dying im1 = i_dying im
  ; fr_ids : ids (i_nodes im1) = ids (i_nodes im) ++ [ph]
  ; fr_fresh : ~ In ph (ids (i_nodes im))
  ; fr_isph : nid_is_ph ph = true
  ; fr_frame : FrameI i st st1 }.

Lemma frame_enter_ok i im st : WF st -> aget i (impls st) = Some im ->
  exists first ph st1 im1, frame_enter i st = Ok (first, ph, length (i_nodes im1), st1) /\
    WF st1 /\ Framed i im ph st st1 im1 /\ nth_error (ids (i_nodes im1)) 0 = Some first.
Proof.
  intros H Hi. unfold frame_enter. rewrite Hi.
  set (ph := Ph (next_ph st)). set (nodes' := i_nodes im ++ [mkNode ph sb_none]).
  set (im1 := with_nodes nodes' (with_exec (i_exec im + 1) (with_holders (i_holders im + 1) im))).
  set (st0 := with_next_ph (next_ph st + 1) st). set (st1 := set_impl i im1 st0).
  destruct H as [[Hs Hr Hg Hw] Hn Hf Hsh].
  assert (Hfresh : ~ In ph (ids (i_nodes im))).
  { intro X. destruct (ws_nodes _ Hs i im Hi) as (_ & F). rewrite Forall_forall in F.
    specialize (F ph X). unfold ph, nid_ok in F. lia. }
  assert (Hs0 : WFstruct st0).
  { eapply WFstruct_mono; [| | | | | |exact Hs]; cbn [st0 slots impls next_rid next_nid next_iid next_ph with_next_ph]; try reflexivity; lia. }
  assert (E1 : i_nodes im = i_nodes im ++ [] ++ []) by (rewrite !app_nil_r; reflexivity).
  assert (E2 : i_nodes im1 = i_nodes im ++ [mkNode ph sb_none] ++ []) by (rewrite app_nil_r; reflexivity).
  assert (Hi0 : aget i (impls st0) = Some im) by exact Hi.
  assert (Hs1 : WFstruct st1).
  { eapply (WFstruct_set_impl st0 i im im1 (i_nodes im) [] [mkNode ph sb_none] []); eauto.
    - cbn [im1 i_nodes with_nodes]. unfold nodes'. rewrite ids_app. cbn [ids map n_id].
      apply NoDup_app_swap. cbn [app]. constructor; [exact Hfresh|exact (proj1 (ws_nodes _ Hs i im Hi))].
    - cbn [ids map n_id]. constructor; [|constructor]. unfold ph, nid_ok, st0. cbn [next_ph with_next_ph]. lia.
    - cbn [nodes_reps flat_map n_sb sb_none sb_reps sb_rep optl app]. apply reps_upd_nil. }
  destruct (set_impl_nodes_reps st0 i im im1 _ _ _ _ Hi0 E1 E2) as (L & R & Ea & Ea').
  cbn [nodes_reps flat_map n_sb sb_none sb_reps sb_rep optl app] in Ea, Ea'. fold st1 in Ea'.
  assert (first_ok : exists first, (match nodes' with x :: _ => n_id x | [] => ph end) = first /\
                                   nth_error (ids (i_nodes im1)) 0 = Some first).
  { cbn [im1 i_nodes with_nodes]. unfold nodes'. destruct (i_nodes im) as [|x l]; eexists; split; reflexivity. }
  destruct first_ok as (first & Ef & Hfirst). rewrite Ef.
  exists first, ph, st1, im1. split; [reflexivity|]. split; [|split; [|exact Hfirst]].
  - constructor; [constructor| | |].
    + exact Hs1.
    + rewrite Ea'. assert (X : all_reps st = L ++ R) by exact Ea. rewrite <- X.
      eapply regs_tracks_eq; [|exact Hr]. reflexivity.
    + apply sig_ok_set_impl. exact Hg.
    + intros w j m Hp. destruct (Hw w j m) as [[]|(sb & r & G1 & G2 & G3)].
      { rewrite <- Hp. destruct w; reflexivity. }
      right. exists sb, r. split; [|auto]. unfold st1. rewrite get_sb_set_impl_node.
      destruct (N.eqb_spec j i) as [->|Hne]; [|exact G1].
      rewrite get_sb_node, Hi in G1. cbn [im1 i_nodes with_nodes]. unfold nodes'. rewrite find_node_app.
      destruct (find_node m (i_nodes im)); [exact G1|discriminate].
    + exact Hn.
    + intros j imj Hj. unfold st1 in Hj. rewrite aget_set_impl in Hj. destruct (N.eqb_spec j i) as [->|Hne].
      * inversion Hj; subst imj. destruct (Hf i im Hi) as (F1 & F2 & F3).
        cbn [im1 i_exec i_dying i_deferred i_nodes with_nodes with_exec with_holders].
        split; [exact F1|]. split; [intro X; lia|]. unfold nodes'. rewrite ids_app, phc_app.
        cbn [ids map n_id phc filter nid_is_ph ph length]. lia.
      * exact (Hf j imj Hj).
    + exact Hsh.
  - constructor; try reflexivity.
    + unfold st1. rewrite aget_set_impl, N.eqb_refl. reflexivity.
    + cbn [im1 i_nodes with_nodes]. unfold nodes'. rewrite ids_app. reflexivity.
    + exact Hfresh.
    + unfold st1. constructor; [reflexivity|reflexivity|reflexivity|apply tlive_tracks_eq; reflexivity|].
      intros j Hj. rewrite aget_set_impl. destruct (N.eqb_spec j i); [contradiction|reflexivity].
Qed.

Lemma frame_leave_ok i im ph st st1 im1 st2 :
  WF st -> aget i (impls st) = Some im -> Framed i im ph st st1 im1 -> Guar st1 st2 ->
  exists st', frame_leave i ph st2 = Ok st' /\ Guar st st'.
Proof.
  intros H Hi [Hg1 Fe Fh Fd Fids Ffresh Fph FF] G12.
  pose proof G12 as [W2 S12].
  destruct (Guar_block i st1 st2 im1 G12 Hg1) as (_ & im2 & Hg2 & (S1 & S2 & S3 & S4 & S5 & S6)); [lia|lia|].
  destruct S4 as (pre & post & Eids2); [lia|]. rewrite Fids in Eids2.
  pose proof (proj1 (ws_nodes _ (wc_struct _ (wf_c _ W2)) i im2 Hg2)) as Hnd2.
  assert (Eids2' : ids (i_nodes im2) = (pre ++ ids (i_nodes im)) ++ ph :: post).
  { rewrite Eids2, <- !app_assoc. reflexivity. }
  assert (Hph_notin : ~ In ph (pre ++ ids (i_nodes im))).
  { rewrite Eids2' in Hnd2. apply NoDup_remove_2 in Hnd2. intro X. apply Hnd2. apply in_or_app. left; exact X. }
  assert (Hin2 : In ph (ids (i_nodes im2))) by (rewrite Eids2'; apply in_or_app; right; left; reflexivity).
  destruct (find_node ph (i_nodes im2)) as [nd|] eqn:Hfn; [|exfalso; exact (in_ids_find _ _ Hin2 Hfn)].
  unfold frame_leave.
  destruct (erase_node_ok i ph st2 im2 nd (wf_c _ W2) Hg2 Hfn) as (st3 & E3 & W3 & H3 & T3).
  rewrite E3. cbn [rbind].
  set (im3 := with_nodes (del_node ph (i_nodes im2)) im2) in *.
  assert (Hg3 : aget i (impls st3) = Some im3) by (rewrite (sh_impls _ _ H3), aget_set_impl, N.eqb_refl; reflexivity).
  assert (Eids3 : ids (i_nodes im3) = pre ++ ids (i_nodes im) ++ post).
  { cbn [im3 i_nodes with_nodes]. rewrite (ids_del_node _ _ _ _ Eids2' Hph_notin), <- app_assoc. reflexivity. }
  assert (Hphc : phc (ids (i_nodes im3)) = phc (ids (i_nodes im))).
  { rewrite Eids3, !phc_app. rewrite Eids2, Fids, !phc_app in S6.
    assert (phc [ph] = 1%nat) by (unfold phc; cbn [filter]; rewrite Fph; reflexivity). lia. }
  destruct (unreference_exec_ok i im3 st3 W3 Hg3) as (st4 & E4 & W4 & F4 & P4 & D4).
  rewrite E4. cbn [rbind].
  cbn [im3 i_exec i_holders i_dying i_deferred with_nodes] in P4, D4.
  destruct D4 as [(_ & Bad)|(im4 & Hg4 & X1 & X2 & X3 & X4 & X5)]; [exfalso; lia|].
  unfold upd_impl. rewrite Hg4. cbn [rbind].
  set (im5 := with_holders (i_holders im4 - 1) im4). set (st5 := set_impl i im5 st4).
  assert (Hg5 : aget i (impls st5) = Some im5) by (unfold st5; rewrite aget_set_impl, N.eqb_refl; reflexivity).
  assert (W5 : WFc st5) by (eapply WFc_set_impl_flags; eauto).
  destruct (release_check_ok i st5 W5) as (st6 & E6 & W6 & F6 & D6).
  exists st6. split; [exact E6|].
  assert (Hexec4 : i_exec im4 = i_exec im) by lia.
  assert (Hothers : forall j, j <> i -> aget j (impls st6) = aget j (impls st2)).
  { intros j Hj. rewrite (fi_others _ _ _ F6 j Hj). unfold st5. rewrite aget_set_impl.
    destruct (N.eqb_spec j i); [contradiction|]. rewrite (fi_others _ _ _ F4 j Hj), (sh_impls _ _ H3), aget_set_impl.
    destruct (N.eqb_spec j i); [contradiction|reflexivity]. }
  assert (Hsame : impl_same im im5).
  { destruct (wf_flags _ H i im Hi) as (Q1 & Q2 & Q3).
    split; [|split; [|split; [|split; [|split]]]]; cbn [im5 i_exec i_holders i_dying i_deferred i_nodes with_holders].
    - exact Hexec4.
    - lia.
    - congruence.
    - intro Hpos. assert (Est4 : st4 = set_impl i (with_exec (i_exec im2 - 1) im3) st3) by (apply P4; left; lia).
      rewrite Est4, aget_set_impl, N.eqb_refl in Hg4. inversion Hg4; subst im4.
      exists pre, post. cbn [i_nodes with_exec]. exact Eids3.
    - intro Hz. rewrite X4 by lia. symmetry. apply Q2. exact Hz.
    - lia. }
  assert (S : Stab st st6).
  { constructor.
    - apply iid_bound. exact (wc_struct _ (wf_c _ H)).
    - rewrite (fi_iid _ _ _ F6). unfold st5. cbn [next_iid set_impl with_impls]. rewrite (fi_iid _ _ _ F4), (sh_iid _ _ H3).
      cbn [next_iid set_impl with_impls]. pose proof (sb_mono _ _ S12). rewrite (fi_iid _ _ _ FF) in *. lia.
    - intros j im' Hj. destruct (N.eq_dec j i) as [->|Hne].
      + left. exists im. split; [exact Hi|]. destruct D6 as [->|(A & _)]; [|congruence].
        rewrite Hg5 in Hj. inversion Hj; subst im'. exact Hsame.
      + rewrite (Hothers j Hne) in Hj. destruct (sb_impls _ _ S12 j im' Hj) as [(im0 & H0 & Hs0)|(Hge & Hfr)].
        * left. exists im0. rewrite (fi_others _ _ _ FF j Hne) in H0. auto.
        * right. rewrite (fi_iid _ _ _ FF) in Hge. auto.
    - intros j imj Hj Hh. destruct (N.eq_dec j i) as [->|Hne].
      + rewrite Hi in Hj. inversion Hj; subst imj. destruct D6 as [->|(_ & B)]; [congruence|].
        exfalso. pose proof (proj2 (refcount_zero i st5 B) im5 Hg5) as Z. cbn [im5 i_holders with_holders] in Z. lia.
      + rewrite (Hothers j Hne). apply (sb_keep _ _ S12 j imj); [|exact Hh].
        rewrite (fi_others _ _ _ FF j Hne). exact Hj. }
  apply Guar_of_Stab; [exact H|exact W6| | |exact S].
  - eapply tlive_noclear; [|exact (wf_noclear _ W2)].
    eapply tlive_same_trans; [exact T3|]. eapply tlive_same_trans; [exact (fi_tracks _ _ _ F4)|].
    eapply tlive_same_trans; [|exact (fi_tracks _ _ _ F6)]. apply tlive_tracks_eq. reflexivity.
  - unfold shared_ok. rewrite (fi_shared _ _ _ F6). unfold st5. cbn [shared set_impl with_impls].
    rewrite (fi_shared _ _ _ F4), (sh_shared _ _ H3). exact (wf_shared _ W2).
Qed.

(* ------------------------------------------------------------------ *)
(* more Guar wrappers                                                   *)

Lemma Guar_of_Grow st st' : WF st -> WFc st' -> Grow st st' -> Guar st st'.
Proof. intros H Hc G. apply Guar_of_Casc; [exact H|exact Hc|apply Grow_Casc; exact G]. Qed.

Lemma ensure_impl_G g go st : WF st -> live_sig g st = Some go ->
  exists i st', ensure_impl g go st = (i, st') /\ Guar st st' /\ aget i (impls st') <> None /\
    live_sig g st' = Some (mkSig (g_kind go) (Some i)) /\
    (forall g', g' <> g -> aget g' (sigs st') = aget g' (sigs st)) /\
    slots st' = slots st /\ conns st' = conns st /\ sconns st' = sconns st.
Proof.
  intros H Hl. destruct (ensure_impl_ok g go st (wf_c _ H) Hl) as (i & st' & E & W & P & L & D).
  exists i, st'. split; [exact E|]. split; [|split; [exact P|split; [exact L|]]].
  - destruct D as [(_ & ->)|(Hn & Ei & ->)]; [apply Guar_refl; exact H|].
    apply Guar_of_Stab; [exact H|exact W|exact (wf_noclear _ H)|exact (wf_shared _ H)|].
    pose proof (wc_struct _ (wf_c _ H)) as Hs. constructor.
    + apply iid_bound. exact Hs.
    + cbn [next_iid with_sigs set_impl with_impls with_next_iid]. lia.
    + intros j im' Hj. cbn [impls with_sigs] in Hj. rewrite aget_set_impl in Hj.
      destruct (N.eqb_spec j i) as [->|Hne].
      * right. inversion Hj; subst im'. split; [lia|]. repeat split; reflexivity.
      * left. exists im'. split; [exact Hj|apply impl_same_refl].
    + intros j im Hj _. cbn [impls with_sigs]. apply set_impl_present. cbn [impls with_next_iid]. congruence.
  - destruct D as [(_ & ->)|(Hn & Ei & ->)]; [repeat split; reflexivity|].
    split; [|repeat split; reflexivity]. intros g' Hne. cbn [sigs with_sigs set_impl with_impls with_next_iid].
    apply aget_aset_other. exact Hne.
Qed.

Lemma track_add_slots t rid st st' : track_add t rid st = Ok st' -> slots st' = slots st.
Proof.
  unfold track_add. destruct (live_track t st) as [tr|]; [|discriminate]. destruct (t_clearing tr); intro H; inversion H; reflexivity.
Qed.

Lemma bind_all_slots rid refs : forall st st', bind_all rid refs st = Ok st' -> slots st' = slots st.
Proof.
  induction refs as [|t refs IH]; intros st st'; cbn [bind_all]; [intro H; inversion H; reflexivity|].
  destruct (track_add t rid st) as [st1|] eqn:E; cbn [rbind]; [|discriminate].
  intro H. rewrite (IH _ _ H). eapply track_add_slots; eauto.
Qed.

Lemma rep_clone_slots r st r' st' : rep_clone r st = Ok (r', st') -> slots st' = slots st.
Proof.
  unfold rep_clone. destruct (r_fn r) as [f|].
  - destruct (bind_all (next_rid st) (f_refs f) (with_next_rid (next_rid st + 1) st)) as [st2|] eqn:E; cbn [rbind]; [|discriminate].
    intro H. inversion H; subst. rewrite (bind_all_slots _ _ _ _ E). reflexivity.
  - cbn [rbind]. intro H. inversion H; reflexivity.
Qed.

Lemma sb_move_slots src st sb src' st' : sb_move src st = Ok (sb, src', st') -> slots st' = slots st.
Proof.
  unfold sb_move. destruct (sb_rep src) as [r|]; [|intro H; inversion H; reflexivity].
  destruct (r_attached r).
  - destruct (r_valid r); [|intro H; inversion H; reflexivity].
    destruct (rep_clone r st) as [[r' st1]|] eqn:E; cbn [rbind]; [|discriminate].
    intro H. inversion H; subst. eapply rep_clone_slots; eauto.
  - intro H. inversion H; subst. exact (proj1 (null_watchers_fields _ _)).
Qed.

(* a connection variable that stops being live no longer needs a registration *)
Lemma WFx_kill w st st' : WFx [w] st -> same_heavy st st' -> tracks st' = tracks st ->
  (forall w', w' <> w -> get_connptr w' st' = get_connptr w' st) ->
  (forall i n, get_connptr w st' <> Some (Some (i, n))) -> WFc st'.
Proof.
  intros (A & B & C & D) Hh Et Ho Hw. eapply WFc_build; eauto.
  - apply tlive_tracks_eq. exact Et.
  - eapply regs_tracks_eq; eauto.
  - intros w' i n Hp. destruct (wref_eqb_spec w' w) as [->|Hne]; [exfalso; exact (Hw i n Hp)|].
    rewrite (Ho w' Hne) in Hp. destruct (D w' i n Hp) as [[X|[]]|X]; [congruence|].
    right. eapply target_ok_impls; [exact (sh_impls _ _ Hh)|exact X].
Qed.

(* ------------------------------------------------------------------ *)
(* the table of shared trackables                                       *)

Lemma Forall_aset {A} (P : N * A -> Prop) k v l : Forall P l -> P (k, v) -> Forall P (aset k v l).
Proof.
  intros F Hk. induction l as [|[k' v'] l IH]; cbn [aset]; [constructor; [exact Hk|constructor]|].
  inversion F as [|? ? F1 F2]; subst. destruct (N.eqb_spec k k') as [->|Hne]; constructor; auto.
Qed.

Lemma WF_with_shared v st : WF st -> Forall (fun e => shkey (fst e)) v -> WF (with_shared v st).
Proof.
  intros [[Hs Hr Hg Hw] Hn Hf Hsh] Hv. constructor; [constructor| | |exact Hv].
  - eapply WFstruct_mono; [| | | | | |exact Hs]; try reflexivity; lia.
  - eapply regs_tracks_eq; [|exact Hr]. reflexivity.
  - eapply sig_ok_transfer; [| | |exact Hg]; [reflexivity|apply tlive_tracks_eq; reflexivity|auto].
  - eapply watch_ok_ex_transfer; [| | |exact Hw]; reflexivity.
  - exact Hn.
  - exact Hf.
Qed.

Lemma Guar_with_shared st st' v : Guar st st' -> Forall (fun e => shkey (fst e)) v -> Guar st (with_shared v st').
Proof.
  intros [W [B M I K]] Hv. split; [apply WF_with_shared; assumption|]. constructor; assumption.
Qed.

Lemma shared_key_lt st t b : WF st -> aget t (shared st) = Some b -> shkey t.
Proof.
  intros H Hg. pose proof (wf_shared _ H) as F. unfold shared_ok in F. rewrite Forall_forall in F.
  exact (F (t, b) (aget_in _ _ _ Hg)).
Qed.

Lemma filter_length_le {A} (p : A -> bool) l : (length (filter p l) <= length l)%nat.
Proof. induction l as [|x l IH]; cbn [filter length]; [lia|]. destruct (p x); cbn [length]; lia. Qed.

Lemma filter_length_lt {A} (p q : A -> bool) l x : In x l -> p x = true -> q x = false ->
  (forall y, q y = true -> p y = true) -> (length (filter q l) < length (filter p l))%nat.
Proof.
  intros Hin Hp Hq Himp. induction l as [|y l IH]; [destruct Hin|].
  assert (Hle : forall l', (length (filter q l') <= length (filter p l'))%nat).
  { induction l' as [|z l' IH']; cbn [filter length]; [lia|].
    destruct (q z) eqn:Eq; [rewrite (Himp z Eq); cbn [length]; lia|]. destruct (p z); cbn [length]; lia. }
  cbn [filter]. destruct Hin as [->|Hin].
  - rewrite Hp, Hq. cbn [length]. specialize (Hle l). lia.
  - specialize (IH Hin). destruct (q y) eqn:Eq; [rewrite (Himp y Eq); cbn [length]; lia|].
    destruct (p y); cbn [length]; lia.
Qed.

Definition is_live (st : state) (e : N * bool) : bool := key_live (fst e) st.
Definition lv (st : state) : nat := length (filter (is_live st) (shared st)).

(* ------------------------------------------------------------------ *)
(* The interpreter, under the assumption that recursive calls are fine  *)

(* ------------------------------------------------------------------ *)
(* connection pointers only ever change by being nulled (by library-internal cascades) *)

Definition cmono (st st' : state) : Prop :=
  forall w, get_connptr w st' = get_connptr w st \/ (get_connptr w st' = Some None /\ get_connptr w st <> None).

Lemma cmono_refl st : cmono st st.
Proof. intro w. left; reflexivity. Qed.

Lemma cmono_trans a b c : cmono a b -> cmono b c -> cmono a c.
Proof.
  intros H1 H2 w. destruct (H2 w) as [E2|[E2 N2]].
  - destruct (H1 w) as [E1|[E1 N1]]; [left; congruence|right; split; [congruence|exact N1]].
  - right. split; [exact E2|]. destruct (H1 w) as [E1|[E1 N1]]; [congruence|exact N1].
Qed.

Lemma cmono_eq st st' : conns st' = conns st -> sconns st' = sconns st -> cmono st st'.
Proof. intros A B w. left. apply get_connptr_eq; assumption. Qed.

Lemma cmono_null ws st : cmono st (null_watchers ws st).
Proof.
  intro w. rewrite get_connptr_null_watchers. destruct (existsb (wref_eqb w) ws); [|left; reflexivity].
  destruct (get_connptr w st); [right; split; [reflexivity|discriminate]|left; reflexivity].
Qed.

(* in particular no handle is destroyed or brought back *)
Lemma cmono_dom st st' w : cmono st st' -> (get_connptr w st' <> None <-> get_connptr w st <> None).
Proof.
  intro H. destruct (H w) as [E|[E N]]; [rewrite E; reflexivity|].
  rewrite E. split; intro X; [exact N|discriminate].
Qed.

Lemma cmono_set_sb l sb st : cmono st (set_sb l sb st).
Proof. intro w. left. apply get_connptr_set_sb. Qed.

Lemma cmono_set_rep l r st : cmono st (set_rep l r st).
Proof. unfold set_rep. destruct (get_sb l st); [apply cmono_set_sb|apply cmono_refl]. Qed.

Lemma cmono_set_impl i im st : cmono st (set_impl i im st).
Proof. apply cmono_eq; reflexivity. Qed.

(* operations that leave every slot base where it is *)
Definition lite (st st' : state) : Prop :=
  slots st' = slots st /\ impls st' = impls st /\ sigs st' = sigs st /\ cmono st st'.

Lemma lite_refl st : lite st st.
Proof. split; [reflexivity|]. split; [reflexivity|]. split; [reflexivity|apply cmono_refl]. Qed.

Lemma lite_trans a b c : lite a b -> lite b c -> lite a c.
Proof.
  intros (A1 & A2 & A3 & A4) (B1 & B2 & B3 & B4).
  split; [congruence|]. split; [congruence|]. split; [congruence|eapply cmono_trans; eauto].
Qed.

Lemma lite_cmono a b : lite a b -> cmono a b.
Proof. intros (_ & _ & _ & H). exact H. Qed.

Lemma track_remove_lite t rid st st' : track_remove t rid st = Ok st' -> lite st st'.
Proof.
  unfold track_remove. destruct (live_track t st) as [tr|]; [|discriminate].
  destruct (t_clearing tr); intro H; inversion H; (split; [reflexivity|]; split; [reflexivity|]; split; [reflexivity|]);
    apply cmono_eq; reflexivity.
Qed.

Lemma unbind_all_lite rid refs : forall st st', unbind_all rid refs st = Ok st' -> lite st st'.
Proof.
  induction refs as [|t refs IH]; intros st st' H; cbn [unbind_all] in H.
  - inversion H. apply lite_refl.
  - destruct (track_remove t rid st) as [st1|e] eqn:E; cbn [rbind] in H; [|discriminate].
    eapply lite_trans; [eapply track_remove_lite; eauto|apply IH; exact H].
Qed.

Lemma null_watchers_lite ws st : lite st (null_watchers ws st).
Proof.
  destruct (null_watchers_fields ws st) as (A & B & C & _).
  split; [exact A|]. split; [exact C|]. split; [exact B|apply cmono_null].
Qed.

Lemma rep_delete_lite r st st' : rep_delete r st = Ok st' -> lite st st'.
Proof.
  unfold rep_delete. intro H.
  set (sta := if r_attached r then with_leaked (leaked st + 1) st else st) in H.
  assert (L0 : lite st sta).
  { unfold sta. destruct (r_attached r); [|apply lite_refl].
    split; [reflexivity|]. split; [reflexivity|]. split; [reflexivity|apply cmono_eq; reflexivity]. }
  destruct (match r_fn r with Some f => unbind_all (r_id r) (f_refs f) sta | None => Ok sta end) as [st1|e] eqn:E;
    cbn [rbind] in H; [|discriminate].
  inversion H; subst st'. clear H.
  assert (L1 : lite sta st1).
  { destruct (r_fn r); [eapply unbind_all_lite; eauto|inversion E; apply lite_refl]. }
  eapply lite_trans; [exact L0|]. eapply lite_trans; [exact L1|apply null_watchers_lite].
Qed.

Lemma sb_delete_lite sb st st' : sb_delete sb st = Ok st' -> lite st st'.
Proof.
  unfold sb_delete. destruct (sb_rep sb); [apply rep_delete_lite|]. intro H; inversion H; apply lite_refl.
Qed.

Lemma delete_sbs_lite l : forall st st', delete_sbs l st = Ok st' -> lite st st'.
Proof.
  induction l as [|x l IH]; intros st st' H; cbn [delete_sbs] in H.
  - inversion H. apply lite_refl.
  - destruct (sb_delete (n_sb x) st) as [st1|e] eqn:E; cbn [rbind] in H; [|discriminate].
    eapply lite_trans; [eapply sb_delete_lite; eauto|apply IH; exact H].
Qed.

Lemma erase_node_cm i n st st' : erase_node i n st = Ok st' -> cmono st st'.
Proof.
  unfold erase_node. destruct (aget i (impls st)) as [im|]; [|discriminate].
  destruct (find_node n (i_nodes im)) as [nd|]; [|discriminate]. intro H.
  eapply cmono_trans; [apply cmono_set_impl|]. apply lite_cmono. eapply sb_delete_lite; eauto.
Qed.

Lemma parent_cleanup_cm i n st st' : parent_cleanup i n st = Ok st' -> cmono st st'.
Proof.
  unfold parent_cleanup. destruct (aget i (impls st)) as [im|]; [|intro H; inversion H; apply cmono_refl].
  destruct (i_dying im); [intro H; inversion H; apply cmono_refl|].
  destruct (N.eqb (i_exec im) 0); [apply erase_node_cm|].
  intro H; inversion H. apply cmono_set_impl.
Qed.

Lemma rep_disconnect_cm l st st' : rep_disconnect l st = Ok st' -> cmono st st'.
Proof.
  unfold rep_disconnect. destruct (get_rep l st) as [r|]; [|intro H; inversion H; apply cmono_refl].
  destruct (r_attached r).
  - destruct l as [s|i n]; [discriminate|]. intro H.
    eapply cmono_trans; [apply cmono_set_rep|eapply parent_cleanup_cm; eauto].
  - intro H; inversion H. apply cmono_set_rep.
Qed.

Lemma rep_destroy_cm l st st' : rep_destroy l st = Ok st' -> cmono st st'.
Proof.
  unfold rep_destroy. destruct (get_rep l st) as [r|]; [|intro H; inversion H; apply cmono_refl].
  intro H. eapply cmono_trans; [apply cmono_set_rep|].
  destruct (r_fn r); [apply lite_cmono; eapply unbind_all_lite; eauto|inversion H; apply cmono_refl].
Qed.

Lemma rep_invalidated_cm rid st st' : rep_invalidated rid st = Ok st' -> cmono st st'.
Proof.
  unfold rep_invalidated. destruct (find_rep rid st) as [l|]; [|discriminate].
  destruct (rep_disconnect l st) as [st1|e] eqn:E; cbn [rbind]; [|discriminate].
  intro H. eapply cmono_trans; [eapply rep_disconnect_cm; eauto|].
  destruct (find_rep rid st1) as [l'|]; [eapply rep_destroy_cm; eauto|inversion H; apply cmono_refl].
Qed.

Lemma track_round_cm fuel : forall k t st st', track_round fuel k t st = Ok st' -> cmono st st'.
Proof.
  induction fuel as [|fuel IH]; intros k t st st' H; cbn [track_round] in H; [inversion H; apply cmono_refl|].
  destruct (live_track t st) as [tr|]; [|discriminate].
  destruct (t_list tr) as [l|]; [|inversion H; apply cmono_refl].
  destruct (nth_error l k) as [[rid [|]]|]; [| |inversion H; apply cmono_refl].
  - destruct (rep_invalidated rid st) as [st1|e] eqn:E; cbn [rbind] in H; [|discriminate].
    eapply cmono_trans; [eapply rep_invalidated_cm; eauto|eapply IH; eauto].
  - eapply IH; eauto.
Qed.

Lemma cmono_set_track t tr st : cmono st (set_track t tr st).
Proof. apply cmono_eq; reflexivity. Qed.

Lemma track_notify_cm t st st' : track_notify t st = Ok st' -> cmono st st'.
Proof.
  unfold track_notify. destruct (live_track t st) as [tr|]; [|intro H; inversion H; apply cmono_refl].
  destruct (t_list tr) as [l|]; [|intro H; inversion H; apply cmono_refl].
  match goal with |- (st2 <- ?x ;; _) = _ -> _ => destruct x as [st2|e] eqn:E end; cbn [rbind]; [|discriminate].
  intro H; inversion H.
  eapply cmono_trans; [apply cmono_set_track|]. eapply cmono_trans; [eapply track_round_cm; eauto|apply cmono_set_track].
Qed.

Lemma disconnect_nodes_cm i ns : forall st st', disconnect_nodes i ns st = Ok st' -> cmono st st'.
Proof.
  induction ns as [|n ns IH]; intros st st' H; cbn [disconnect_nodes] in H; [inversion H; apply cmono_refl|].
  destruct (rep_disconnect (LNode i n) st) as [st1|e] eqn:E; cbn [rbind] in H; [|discriminate].
  eapply cmono_trans; [eapply rep_disconnect_cm; eauto|eapply IH; eauto].
Qed.

Lemma destroy_impl_cm i st st' : destroy_impl i st = Ok st' -> cmono st st'.
Proof.
  unfold destroy_impl, upd_impl. destruct (aget i (impls st)) as [im0|]; cbn [rbind]; [|discriminate].
  match goal with |- match aget i (impls ?s) with _ => _ end = _ -> _ => set (st1 := s) end.
  destruct (aget i (impls st1)) as [im|]; [|discriminate].
  destruct (disconnect_nodes i (map n_id (i_nodes im)) st1) as [st2|e] eqn:E2; cbn [rbind]; [|discriminate].
  destruct (aget i (impls st2)) as [im2|]; [|discriminate].
  destruct (delete_sbs (i_nodes im2) (set_impl i (with_nodes [] im2) st2)) as [st4|e] eqn:E4; cbn [rbind]; [|discriminate].
  intro H; inversion H.
  apply (cmono_trans st st1); [apply cmono_set_impl|].
  eapply cmono_trans; [eapply disconnect_nodes_cm; eauto|].
  eapply cmono_trans; [apply cmono_set_impl|].
  eapply cmono_trans; [apply lite_cmono; eapply delete_sbs_lite; eauto|]. apply cmono_eq; reflexivity.
Qed.

Lemma release_check_cm i st st' : release_check i st = Ok st' -> cmono st st'.
Proof.
  unfold release_check. destruct (aget i (impls st)) as [im|]; [|intro H; inversion H; apply cmono_refl].
  destruct (N.eqb (refcount i st) 0 && negb (i_dying im)); [apply destroy_impl_cm|intro H; inversion H; apply cmono_refl].
Qed.

(* destruction of a signal object or of a trackable: no connection handle appears or disappears *)
Lemma sig_destroy_cm g go st st' : sig_destroy g go st = Ok st' -> cmono st st'.
Proof.
  unfold sig_destroy. intro E.
  destruct (if gk_track (g_kind go)
            then st1 <- track_notify (trackable_of_sig g) st ;;
                 Ok (with_tracks (aset (trackable_of_sig g) None (tracks st1)) st1)
            else Ok st) as [st1|e] eqn:E1; cbn [rbind] in E; [|discriminate].
  assert (C1 : cmono st st1).
  { destruct (gk_track (g_kind go)); [|inversion E1; apply cmono_refl].
    destruct (track_notify (trackable_of_sig g) st) as [sta|] eqn:Ea; cbn [rbind] in E1; [|discriminate].
    inversion E1. eapply cmono_trans; [eapply track_notify_cm; eauto|apply cmono_eq; reflexivity]. }
  eapply cmono_trans; [exact C1|].
  apply (cmono_trans _ (with_sigs (aset g None (sigs st1)) st1)); [apply cmono_eq; reflexivity|].
  destruct (g_impl go); [eapply release_check_cm; eauto|inversion E; apply cmono_refl].
Qed.

Lemma conn_dom_sig_destroy g go st st' : sig_destroy g go st = Ok st' ->
  forall c, get_connptr (WC c) st' <> None -> get_connptr (WC c) st <> None.
Proof. intros E c Hc. exact (proj1 (cmono_dom _ _ (WC c) (sig_destroy_cm _ _ _ _ E)) Hc). Qed.
Lemma conn_dom_track_notify t st st' : track_notify t st = Ok st' ->
  forall c, get_connptr (WC c) st' <> None -> get_connptr (WC c) st <> None.
Proof. intros E c Hc. exact (proj1 (cmono_dom _ _ (WC c) (track_notify_cm _ _ _ E)) Hc). Qed.

Section Safe.
  Variable prog : program.
  Variable rec : callee -> state -> outcome N.
  Hypothesis rec_ok : forall c st, WF st -> out_ok st (rec c st).

  Lemma out_ok_done_ev {A} st e (v : A) : WF st -> out_ok st (Done (emit_ev e st) v).
  Proof. intro H. cbn [out_ok]. eapply Guar_sim_r; [apply sim_emit_ev|apply Guar_refl; exact H]. Qed.

  Lemma Guar_ev_r st st' e : Guar st st' -> Guar st (emit_ev e st').
  Proof. apply Guar_sim_r. apply sim_emit_ev. Qed.

  Lemma WF_ev st e : WF st -> WF (emit_ev e st).
  Proof. apply WF_sim. apply sim_emit_ev. Qed.

  Lemma invoke_functor_ok f arg st : WF st -> out_ok st (invoke_functor rec f arg st).
  Proof.
    intro H. unfold invoke_functor. destruct (f_fwd f) as [g|]; [apply rec_ok; exact H|].
    pose proof (rec_ok (CScript (f_body f) arg) _ (WF_ev st (EEnter (f_body f) arg) H)) as X.
    destruct (rec (CScript (f_body f) arg) (emit_ev (EEnter (f_body f) arg) st)) as [s v|s|e]; cbn [out_ok] in *.
    - apply Guar_ev_r. eapply Guar_sim_l; [apply sim_emit_ev|exact X].
    - apply Guar_ev_r. eapply Guar_sim_l; [apply sim_emit_ev|exact X].
    - exact X.
  Qed.

  Lemma invoke_at_ok l arg st sb : WF st -> get_sb l st = Some sb -> sb_empty sb = false ->
    out_ok st (invoke_at rec l arg st).
  Proof.
    intros H Hg He. unfold invoke_at, get_rep. rewrite Hg. unfold sb_empty in He.
    destruct (sb_rep sb) as [r|] eqn:Hr; [|discriminate].
    assert (Hv : r_valid r = true) by (destruct (r_valid r); [reflexivity|discriminate]).
    pose proof (wf_valid_has_fn st r H (get_sb_in_all_reps _ _ _ _ Hg Hr) Hv) as Hf.
    destruct (r_fn r) as [f|]; [|contradiction]. apply invoke_functor_ok. exact H.
  Qed.

  Lemma with_frame_ok {A} i im (body : nid -> nid -> nat -> state -> outcome A) st :
    WF st -> aget i (impls st) = Some im ->
    (forall first ph st1 im1, WF st1 -> Framed i im ph st st1 im1 ->
        nth_error (ids (i_nodes im1)) 0 = Some first ->
        out_ok st1 (body first ph (length (i_nodes im1)) st1)) ->
    out_ok st (with_frame i body st).
  Proof.
    intros H Hi Hbody. unfold with_frame.
    destruct (frame_enter_ok i im st H Hi) as (first & ph & st1 & im1 & E & W1 & Fr & Hfirst).
    rewrite E. specialize (Hbody first ph st1 im1 W1 Fr Hfirst).
    destruct (body first ph (length (i_nodes im1)) st1) as [st2 v|st2|e]; cbn [out_ok] in Hbody.
    - destruct (frame_leave_ok i im ph st st1 im1 st2 H Hi Fr Hbody) as (st' & E' & G'). rewrite E'. exact G'.
    - destruct (frame_leave_ok i im ph st st1 im1 st2 H Hi Fr Hbody) as (st' & E' & G'). rewrite E'. exact G'.
    - exact Hbody.
  Qed.

  (* facts about an open frame that stay true while user code runs *)
  Inductive Open (i : N) (blk : list nid) (ph : nid) (st1 : state) : Prop :=
  | mkOpen (Hwf : WF st1) (im : impl)
      (Hget : aget i (impls st1) = Some im)
      (Hexec : 0 < i_exec im) (Hholders : 0 < i_holders im)
      (Hids : ids (i_nodes im) = blk)
      (Hlast : nth_error blk (length blk - 1) = Some ph)
      (Hnodup : NoDup blk).

  Lemma op_last i blk ph st1 : Open i blk ph st1 -> nth_error blk (length blk - 1) = Some ph.
  Proof. intros []. assumption. Qed.
  Lemma op_wf i blk ph st1 : Open i blk ph st1 -> WF st1.
  Proof. intros []. assumption. Qed.
  Lemma op_nodup i blk ph st1 : Open i blk ph st1 -> NoDup blk.
  Proof. intros []. assumption. Qed.

  Lemma Open_block i blk ph st1 st : Open i blk ph st1 -> Guar st1 st -> in_block i blk st.
  Proof.
    intros [W im Hg He Hh Hids _ _] G. rewrite <- Hids. exact (proj1 (Guar_block i st1 st im G Hg He Hh)).
  Qed.

  Lemma Framed_Open i im ph st st1 im1 : WF st1 -> Framed i im ph st st1 im1 ->
    Open i (ids (i_nodes im1)) ph st1.
  Proof.
    intros W [Hg1 Fe Fh Fd Fids Ffresh Fph FF]. econstructor; [exact W|exact Hg1|lia|lia|reflexivity| |].
    - rewrite Fids, app_length. cbn [length]. replace (length (ids (i_nodes im)) + 1 - 1)%nat with (length (ids (i_nodes im))) by lia.
      rewrite nth_error_app2 by lia. rewrite Nat.sub_diag. reflexivity.
    - exact (proj1 (ws_nodes _ (wc_struct _ (wf_c _ W)) i im1 Hg1)).
  Qed.

  Lemma emit_loop_ok i blk ph st1 arg : Open i blk ph st1 ->
    forall fuel k cur last st, Guar st1 st -> nth_error blk k = Some cur ->
      (length blk - 1 - k <= fuel)%nat ->
      out_ok st1 (emit_loop rec fuel i cur ph arg last st).
  Proof.
    intro Op. induction fuel as [|fuel IH]; intros k cur last st G Hk Hf.
    - assert (k < length blk)%nat by (apply nth_error_Some; congruence).
      assert (k = length blk - 1)%nat by lia. subst k. rewrite (op_last _ _ _ _ Op) in Hk. inversion Hk; subst cur.
      cbn [emit_loop]. rewrite nid_eqb_refl. exact G.
    - cbn [emit_loop]. destruct (nid_eqb_spec cur ph) as [->|Hne]; [exact G|].
      assert (Hlt : (k < length blk)%nat) by (apply nth_error_Some; congruence).
      assert (Hk' : (S k < length blk)%nat).
      { destruct (Nat.eq_dec k (length blk - 1)) as [->|]; [|lia]. rewrite (op_last _ _ _ _ Op) in Hk. congruence. }
      pose proof (Open_block _ _ _ _ _ Op G) as IB.
      destruct (node_at_block _ _ _ _ _ IB Hk) as (sb & Hsb). rewrite Hsb.
      assert (Hcont : forall st' last', Guar st1 st' ->
                out_ok st1 (match node_next i cur st' with
                            | Err e => Fail e
                            | Ok None => Fail ErrDangling
                            | Ok (Some nx) => emit_loop rec fuel i nx ph arg last' st'
                            end)).
      { intros st' last' G'. pose proof (Open_block _ _ _ _ _ Op G') as IB'.
        destruct (node_next_block _ _ _ _ _ IB' Hk Hk') as (nx & En & Hnx). rewrite En.
        apply (IH (S k)); [exact G'|exact Hnx|lia]. }
      destruct (sb_empty sb || sb_blocked sb) eqn:Hskip; [apply Hcont; exact G|].
      apply orb_false_elim in Hskip. destruct Hskip as [Hemp _].
      pose proof (invoke_at_ok (LNode i cur) arg st sb (proj1 G) Hsb Hemp) as X.
      destruct (invoke_at rec (LNode i cur) arg st) as [st' v|st'|e]; cbn [out_ok] in X.
      + apply Hcont. eapply Guar_trans; eauto.
      + cbn [out_ok]. eapply Guar_trans; eauto.
      + exact X.
  Qed.
  (* ---- accumulator emission ---- *)

  Definition cur_in (blk : list nid) (c : cursor) : Prop := exists k, nth_error blk k = Some (c_pos c).

  Lemma not_last i blk ph st1 k cur : Open i blk ph st1 -> nth_error blk k = Some cur -> cur <> ph ->
    (S k < length blk)%nat.
  Proof.
    intros Op Hk Hne. assert (k < length blk)%nat by (apply nth_error_Some; congruence).
    destruct (Nat.eq_dec k (length blk - 1)) as [->|]; [|lia]. rewrite (op_last _ _ _ _ Op) in Hk. congruence.
  Qed.

  Lemma cur_deref_ok i blk ph st1 arg c st : Open i blk ph st1 -> Guar st1 st -> cur_in blk c ->
    match cur_deref rec i arg c st with
    | Done st' c' => Guar st1 st' /\ c_pos c' = c_pos c
    | Thrown st' => Guar st1 st'
    | Fail e => safe_err e
    end.
  Proof.
    intros Op G (k & Hk). unfold cur_deref.
    destruct (node_at_block _ _ _ _ _ (Open_block _ _ _ _ _ Op G) Hk) as (sb & Hsb). rewrite Hsb.
    destruct (negb (sb_empty sb) && negb (sb_blocked sb) && negb (c_invoked c)) eqn:Hc; [|split; [exact G|reflexivity]].
    apply andb_true_iff in Hc. destruct Hc as [Hc _]. apply andb_true_iff in Hc. destruct Hc as [Hc _].
    apply negb_true_iff in Hc.
    pose proof (invoke_at_ok (LNode i (c_pos c)) arg st sb (proj1 G) Hsb Hc) as X.
    destruct (invoke_at rec (LNode i (c_pos c)) arg st) as [st' v|st'|e]; cbn [out_ok] in X.
    - split; [eapply Guar_trans; eauto|reflexivity].
    - eapply Guar_trans; eauto.
    - exact X.
  Qed.

  Lemma cur_inc_ok i blk ph st1 c st k : Open i blk ph st1 -> Guar st1 st ->
    nth_error blk k = Some (c_pos c) -> c_pos c <> ph ->
    exists c', cur_inc i c st = Ok c' /\ nth_error blk (S k) = Some (c_pos c').
  Proof.
    intros Op G Hk Hne. unfold cur_inc.
    destruct (node_next_block _ _ _ _ _ (Open_block _ _ _ _ _ Op G) Hk (not_last _ _ _ _ _ _ Op Hk Hne)) as (nx & En & Hnx).
    rewrite En. cbn [rbind]. eexists. split; [reflexivity|exact Hnx].
  Qed.

  Lemma cur_dec_ok i blk ph st1 c st k : Open i blk ph st1 -> Guar st1 st ->
    nth_error blk (S k) = Some (c_pos c) ->
    exists c', cur_dec i c st = Ok c' /\ nth_error blk k = Some (c_pos c').
  Proof.
    intros Op G Hk. unfold cur_dec.
    destruct (node_prev_block _ _ _ _ _ (Open_block _ _ _ _ _ Op G) Hk) as (pv & En & Hpv).
    rewrite En. cbn [rbind]. eexists. split; [reflexivity|exact Hpv].
  Qed.

  Lemma acc_walk_ok i blk ph st1 arg z : Open i blk ph st1 ->
    forall fuel k c a st, Guar st1 st -> nth_error blk k = Some (c_pos c) ->
      (length blk - 1 - k <= fuel)%nat ->
      match acc_walk rec fuel i arg ph z c a st with
      | Done st' (c', _) => Guar st1 st' /\ cur_in blk c'
      | Thrown st' => Guar st1 st'
      | Fail e => safe_err e
      end.
  Proof.
    intro Op. induction fuel as [|fuel IH]; intros k c a st G Hk Hf.
    - assert (k < length blk)%nat by (apply nth_error_Some; congruence).
      assert (k = length blk - 1)%nat by lia. subst k. rewrite (op_last _ _ _ _ Op) in Hk. inversion Hk as [Hp].
      cbn [acc_walk]. rewrite <- Hp, nid_eqb_refl. split; [exact G|]. exists (length blk - 1)%nat.
      rewrite (op_last _ _ _ _ Op). congruence.
    - cbn [acc_walk]. destruct (nid_eqb_spec (c_pos c) ph) as [E|Hne]; [split; [exact G|exists k; exact Hk]|].
      pose proof (cur_deref_ok i blk ph st1 arg c st Op G (ex_intro _ k Hk)) as X.
      destruct (cur_deref rec i arg c st) as [st' c1|st'|e]; [|exact X|exact X].
      destruct X as [G' Hp1].
      destruct (cur_inc_ok i blk ph st1 c1 st' k Op G') as (c2 & E2 & Hk2); [congruence|congruence|].
      rewrite E2.
      destruct (match z with Some zz => N.ltb zz (c_buf c1) | None => false end).
      + split; [exact G'|exists (S k); exact Hk2].
      + apply (IH (S k)); [exact G'|exact Hk2|lia].
  Qed.

  Lemma acc_walk_rev_ok i blk ph st1 arg first : Open i blk ph st1 -> nth_error blk 0 = Some first ->
    forall fuel k c a st, Guar st1 st -> nth_error blk k = Some (c_pos c) -> (k <= fuel)%nat ->
      match acc_walk_rev rec fuel i arg first c a st with
      | Done st' (c', _) => Guar st1 st' /\ cur_in blk c'
      | Thrown st' => Guar st1 st'
      | Fail e => safe_err e
      end.
  Proof.
    intros Op Hfirst. induction fuel as [|fuel IH]; intros k c a st G Hk Hf.
    - assert (k = 0)%nat by lia. subst k. rewrite Hfirst in Hk. inversion Hk as [Hp].
      cbn [acc_walk_rev]. rewrite <- Hp, nid_eqb_refl. split; [exact G|]. exists O. congruence.
    - cbn [acc_walk_rev]. destruct (nid_eqb_spec (c_pos c) first) as [E|Hne]; [split; [exact G|exists k; exact Hk]|].
      destruct k as [|k]; [rewrite Hfirst in Hk; congruence|].
      destruct (cur_dec_ok i blk ph st1 c st k Op G Hk) as (c1 & E1 & Hk1). rewrite E1.
      pose proof (cur_deref_ok i blk ph st1 arg c1 st Op G (ex_intro _ k Hk1)) as X.
      destruct (cur_deref rec i arg c1 st) as [st' c2|st'|e]; [|exact X|exact X].
      destruct X as [G' Hp2]. apply (IH k); [exact G'|congruence|lia].
  Qed.

  Lemma getc_in blk fc lc cs k : cur_in blk fc -> cur_in blk lc ->
    (forall k' c, aget k' cs = Some c -> cur_in blk c) ->
    cur_in blk (if N.eqb k 0 then fc else if N.eqb k 1 then lc else get_cur k cs fc).
  Proof.
    intros Hf Hl Hcs. destruct (N.eqb k 0); [exact Hf|]. destruct (N.eqb k 1); [exact Hl|].
    unfold get_cur. destruct (aget k cs) eqn:E; [eapply Hcs; eauto|exact Hf].
  Qed.

  Lemma aset_in blk cs k c : cur_in blk c -> (forall k' c', aget k' cs = Some c' -> cur_in blk c') ->
    forall k' c', aget k' (aset k c cs) = Some c' -> cur_in blk c'.
  Proof.
    intros Hc Hcs k' c' H. rewrite aget_aset in H. destruct (N.eqb k' k); [inversion H; subst; exact Hc|eauto].
  Qed.

  Lemma acc_run_ok i blk ph st1 arg fc lc n : Open i blk ph st1 ->
    nth_error blk 0 = Some (c_pos fc) -> c_pos lc = ph -> (length blk <= n)%nat ->
    forall ops cs a st, Guar st1 st -> (forall k c, aget k cs = Some c -> cur_in blk c) ->
      out_ok st1 (acc_run rec n i arg fc lc ops cs a st).
  Proof.
    intros Op Hfc Hlc Hn.
    assert (Hfin : cur_in blk fc) by (exists O; exact Hfc).
    assert (Hlin : cur_in blk lc) by (exists (length blk - 1)%nat; rewrite Hlc; exact (op_last _ _ _ _ Op)).
    induction ops as [|o ops IH]; intros cs a st G Hcs; cbn [acc_run]; [exact G|].
    destruct o as [k j|k|k|k|k|k|k z].
    - (* ACopy *)
      destruct (writable k); [|apply IH; assumption].
      apply IH; [exact G|]. apply aset_in; [apply getc_in; assumption|exact Hcs].
    - (* AInc *)
      pose proof (getc_in blk fc lc cs k Hfin Hlin Hcs) as Hck.
      set (ck := if N.eqb k 0 then fc else if N.eqb k 1 then lc else get_cur k cs fc) in *.
      destruct (writable k); cbn [andb]; [|apply IH; assumption].
      destruct (nid_eqb_spec (c_pos ck) (c_pos lc)) as [E|Hne]; cbn [negb]; [apply IH; assumption|].
      destruct Hck as (kk & Hkk).
      destruct (cur_inc_ok i blk ph st1 ck st kk Op G Hkk) as (c' & E' & Hk'); [congruence|].
      rewrite E'. apply IH; [exact G|]. apply aset_in; [exists (S kk); exact Hk'|exact Hcs].
    - (* ADec *)
      pose proof (getc_in blk fc lc cs k Hfin Hlin Hcs) as Hck.
      set (ck := if N.eqb k 0 then fc else if N.eqb k 1 then lc else get_cur k cs fc) in *.
      destruct (writable k); cbn [andb]; [|apply IH; assumption].
      destruct (nid_eqb_spec (c_pos ck) (c_pos fc)) as [E|Hne]; cbn [negb]; [apply IH; assumption|].
      destruct Hck as (kk & Hkk). destruct kk as [|kk]; [rewrite Hfc in Hkk; congruence|].
      destruct (cur_dec_ok i blk ph st1 ck st kk Op G Hkk) as (c' & E' & Hk').
      rewrite E'. apply IH; [exact G|]. apply aset_in; [exists kk; exact Hk'|exact Hcs].
    - (* ADeref *)
      pose proof (getc_in blk fc lc cs k Hfin Hlin Hcs) as Hck.
      set (ck := if N.eqb k 0 then fc else if N.eqb k 1 then lc else get_cur k cs fc) in *.
      destruct (writable k); cbn [andb]; [|apply IH; assumption].
      destruct (nid_eqb (c_pos ck) (c_pos lc)); cbn [negb]; [apply IH; assumption|].
      pose proof (cur_deref_ok i blk ph st1 arg ck st Op G Hck) as X.
      destruct (cur_deref rec i arg ck st) as [st' c'|st'|e]; [|exact X|exact X].
      destruct X as [G' Hp]. apply IH; [exact G'|]. apply aset_in; [|exact Hcs].
      destruct Hck as (kk & Hkk). exists kk. congruence.
    - (* AWalk *)
      pose proof (getc_in blk fc lc cs k Hfin Hlin Hcs) as Hck.
      set (ck := if N.eqb k 0 then fc else if N.eqb k 1 then lc else get_cur k cs fc) in *.
      destruct (writable k); [|apply IH; assumption].
      destruct Hck as (kk & Hkk). rewrite Hlc.
      pose proof (acc_walk_ok i blk ph st1 arg None Op n kk ck a st G Hkk) as X.
      destruct (acc_walk rec n i arg ph None ck a st) as [st' [c' a']|st'|e]; [|apply X; lia|apply X; lia].
      destruct X as [G' Hc']; [lia|]. apply IH; [exact G'|]. apply aset_in; assumption.
    - (* AWalkRev *)
      destruct (writable k); [|apply IH; assumption].
      pose proof (acc_walk_rev_ok i blk ph st1 arg (c_pos fc) Op Hfc n (length blk - 1)%nat
                    (mkCur (c_pos lc) false (c_buf lc)) a st G) as X.
      cbn [c_pos] in X. rewrite Hlc in X. specialize (X (op_last _ _ _ _ Op)).
      rewrite Hlc.
      destruct (acc_walk_rev rec n i arg (c_pos fc) (mkCur ph false (c_buf lc)) a st) as [st' [c' a']|st'|e]; [|apply X; lia|apply X; lia].
      destruct X as [G' Hc']; [lia|]. apply IH; [exact G'|]. apply aset_in; assumption.
    - (* AWalkUntil *)
      pose proof (getc_in blk fc lc cs k Hfin Hlin Hcs) as Hck.
      set (ck := if N.eqb k 0 then fc else if N.eqb k 1 then lc else get_cur k cs fc) in *.
      destruct (writable k); [|apply IH; assumption].
      destruct Hck as (kk & Hkk). rewrite Hlc.
      pose proof (acc_walk_ok i blk ph st1 arg (Some z) Op n kk ck a st G Hkk) as X.
      destruct (acc_walk rec n i arg ph (Some z) ck a st) as [st' [c' a']|st'|e]; [|apply X; lia|apply X; lia].
      destruct X as [G' Hc']; [lia|]. apply IH; [exact G'|]. apply aset_in; assumption.
  Qed.

  (* accumulator over a signal without impl: every cursor is the null iterator *)
  Lemma acc_run_noimpl arg ops : forall cs a st,
    (forall k c, aget k cs = Some c -> c_pos c = Ph 0) ->
    exists a', acc_run rec O 0 arg (mkCur (Ph 0) false 0) (mkCur (Ph 0) false 0) ops cs a st = Done st a'.
  Proof.
    set (c0 := mkCur (Ph 0) false 0).
    assert (Hget : forall cs k, (forall k c, aget k cs = Some c -> c_pos c = Ph 0) ->
               c_pos (if N.eqb k 0 then c0 else if N.eqb k 1 then c0 else get_cur k cs c0) = Ph 0).
    { intros cs k Hcs. destruct (N.eqb k 0); [reflexivity|]. destruct (N.eqb k 1); [reflexivity|].
      unfold get_cur. destruct (aget k cs) eqn:E; [eapply Hcs; eauto|reflexivity]. }
    assert (Hset : forall cs k c, c_pos c = Ph 0 -> (forall k c, aget k cs = Some c -> c_pos c = Ph 0) ->
               forall k' c', aget k' (aset k c cs) = Some c' -> c_pos c' = Ph 0).
    { intros cs k c Hc Hcs k' c' H. rewrite aget_aset in H. destruct (N.eqb k' k); [inversion H; subst; exact Hc|eauto]. }
    induction ops as [|o ops IH]; intros cs a st Hcs; cbn [acc_run]; [eexists; reflexivity|].
    destruct o as [k j|k|k|k|k|k|k z].
    - destruct (writable k); [|apply IH; exact Hcs]. apply IH. apply Hset; [apply Hget; exact Hcs|exact Hcs].
    - rewrite (Hget cs k Hcs). cbn [c_pos c0 nid_eqb N.eqb negb]. rewrite andb_false_r. apply IH; exact Hcs.
    - rewrite (Hget cs k Hcs). cbn [c_pos c0 nid_eqb N.eqb negb]. rewrite andb_false_r. apply IH; exact Hcs.
    - rewrite (Hget cs k Hcs). cbn [c_pos c0 nid_eqb N.eqb negb]. rewrite andb_false_r. apply IH; exact Hcs.
    - destruct (writable k); [|apply IH; exact Hcs]. cbn [acc_walk]. rewrite (Hget cs k Hcs).
      cbn [c_pos c0 nid_eqb N.eqb]. apply IH. apply Hset; [apply Hget; exact Hcs|exact Hcs].
    - destruct (writable k); [|apply IH; exact Hcs]. cbn [acc_walk_rev c_pos c0 nid_eqb N.eqb].
      apply IH. apply Hset; [reflexivity|exact Hcs].
    - destruct (writable k); [|apply IH; exact Hcs]. cbn [acc_walk]. rewrite (Hget cs k Hcs).
      cbn [c_pos c0 nid_eqb N.eqb]. apply IH. apply Hset; [apply Hget; exact Hcs|exact Hcs].
  Qed.

  Lemma emit_sig_ok g arg st : WF st -> out_ok st (emit_sig prog rec g arg st).
  Proof.
    intro H. unfold emit_sig. destruct (live_sig g st) as [go|] eqn:Hl; [|exact safe_unsupported].
    destruct (gk_acc (g_kind go)) as [acc|].
    - destruct (g_impl go) as [i|] eqn:Hgi.
      + destruct (aget i (impls st)) as [im|] eqn:Hi;
          [|exfalso; exact (proj2 (wc_sig _ (wf_c _ H)) g go i Hl Hgi Hi)].
        eapply with_frame_ok; eauto. intros first ph st1 im1 W1 Fr Hfirst.
        pose proof (Framed_Open _ _ _ _ _ _ W1 Fr) as Op.
        eapply (acc_run_ok i (ids (i_nodes im1)) ph st1 arg); eauto.
        * unfold ids. rewrite map_length. lia.
        * apply Guar_refl. exact W1.
        * intros k c X. discriminate.
      + destruct (acc_run_noimpl arg (match aget acc (p_accs prog) with Some l => l | None => [] end) [] 0 st) as (a' & E).
        { intros k c X. discriminate. }
        rewrite E. apply Guar_refl. exact H.
    - destruct (g_impl go) as [i|] eqn:Hgi; [|apply Guar_refl; exact H].
      destruct (aget i (impls st)) as [im|] eqn:Hi;
        [|exfalso; exact (proj2 (wc_sig _ (wf_c _ H)) g go i Hl Hgi Hi)].
      destruct (i_nodes im) eqn:Hnodes; [apply Guar_refl; exact H|].
      eapply with_frame_ok; eauto. intros first ph st1 im1 W1 Fr Hfirst.
      pose proof (Framed_Open _ _ _ _ _ _ W1 Fr) as Op.
      eapply (emit_loop_ok i (ids (i_nodes im1)) ph st1 arg Op _ O); eauto.
      + apply Guar_refl. exact W1.
      + unfold ids. rewrite map_length. lia.
  Qed.
  (* ---- the operations ---- *)

  Lemma skip_ok st : WF st -> out_ok st (skip st).
  Proof. intro H. unfold skip. apply out_ok_done_ev. exact H. Qed.

  Lemma liftu_Casc st r : WF st -> (exists st', r = Ok st' /\ WFc st' /\ Casc st st') -> out_ok st (liftu r).
  Proof. intros H (st' & -> & W & C). cbn [liftu lift out_ok]. apply Guar_of_Casc; assumption. Qed.

  Lemma liftu_G st r : (exists st', r = Ok st' /\ Guar st st') -> out_ok st (liftu r).
  Proof. intros (st' & -> & G). exact G. Qed.

  Lemma prog_track_live t st tr : prog_track t st = Some tr -> live_track t st = Some tr.
  Proof. unfold prog_track. destruct (is_released t st); [discriminate|auto]. Qed.

  Lemma step_track_ok o st : WF st ->
    match o with
    | OTNew _ | OTDel _ | OTAssign _ _ | OTMoveAssign _ _ | OTNotify _ | OTNewShared _ | OTRelease _ =>
        out_ok st (step prog rec o st)
    | _ => True
    end.
  Proof.
    intro H. destruct o as [t|t|td ts|td ts|t|t|t|s rk body refs|s rk|sn so|sn so|sd ss|sd ss|s arg catch|s b|s|s|s|g k|gn go|gn go|gd gs|gd gs|g|g|g|g s c front mv|g arg catch|g|g b|g|s g|c|cn co|cd cs|c|c b|c|c|c|c|k c|k|k c|kn ko|kd ks|k1 k2|k c|k|k b|k|k| | ]; try exact I; cbn [step].
    - (* OTNew *)
      unfold fresh_track. destruct (aget t (tracks st)) eqn:Hf; cbn [andb]; [apply skip_ok; exact H|].
      destruct (N.ltb_spec t 1000); [|apply skip_ok; exact H].
      cbn [out_ok]. apply new_user_track_G; assumption.
    - (* OTDel *)
      destruct (live_track t st); [|apply skip_ok; exact H].
      destruct (N.ltb_spec t 1000); cbn [andb]; [|apply skip_ok; exact H].
      destruct (negb (is_shared t st)); [|apply skip_ok; exact H].
      destruct (del_user_track_G t st H) as (st1 & E & _ & G); [assumption|]. rewrite E. exact G.
    - (* OTAssign *)
      destruct (prog_track td st); [|apply skip_ok; exact H].
      destruct (prog_track ts st); [|apply skip_ok; exact H].
      destruct (N.eqb td ts); [apply Guar_refl; exact H|].
      destruct (track_notify_G td st H) as (st1 & E & G & _). rewrite E. exact G.
    - (* OTMoveAssign *)
      destruct (prog_track td st); [|apply skip_ok; exact H].
      destruct (prog_track ts st); [|apply skip_ok; exact H].
      destruct (N.eqb td ts); [apply Guar_refl; exact H|].
      destruct (track_notify_G td st H) as (st1 & E & G & _). rewrite E. cbn [rbind].
      destruct (track_notify_G ts st1 (proj1 G)) as (st2 & E2 & G2 & _). rewrite E2.
      cbn [liftu lift out_ok]. eapply Guar_trans; eauto.
    - (* OTNotify *)
      destruct (prog_track t st); [|apply skip_ok; exact H].
      destruct (track_notify_G t st H) as (st1 & E & G & _). rewrite E. exact G.
    - (* OTNewShared *)
      unfold fresh_track. destruct (aget t (tracks st)) eqn:Hf; cbn [andb]; [apply skip_ok; exact H|].
      destruct (N.ltb_spec t 1000); [|apply skip_ok; exact H].
      cbn [out_ok]. apply Guar_with_shared; [apply new_user_track_G; assumption|].
      apply Forall_aset; [exact (wf_shared _ H)|left; assumption].
    - (* OTRelease *)
      destruct (live_track t st); [|apply skip_ok; exact H].
      unfold is_shared. destruct (aget t (shared st)) as [b|] eqn:Hb; cbn [andb]; [|apply skip_ok; exact H].
      destruct (negb (is_released t st)); [|apply skip_ok; exact H].
      cbn [out_ok]. apply Guar_with_shared; [apply Guar_refl; exact H|].
      apply Forall_aset; [exact (wf_shared _ H)|]. exact (shared_key_lt st t b H Hb).
  Qed.

  Lemma forallb_live refs st :
    forallb (fun t => match live_track t st with Some _ => negb (is_released t st) | None => false end) refs = true ->
    forall t, In t refs -> live_track t st <> None.
  Proof.
    intros Hf t Hin. rewrite forallb_forall in Hf. specialize (Hf t Hin). destruct (live_track t st); [discriminate|discriminate].
  Qed.

  Lemma new_slot_var_G st0 s rk sb st : WF st0 -> Grow st0 st -> WFp sb st -> aget s (slots st) = None ->
    Guar st0 (new_slot_var s rk sb st).
  Proof.
    intros H G W Hf. destruct (new_slot_var_ok s rk sb st W Hf) as (Wc & G2).
    apply Guar_of_Grow; [exact H|exact Wc|eapply Grow_trans; eauto].
  Qed.

  Lemma step_slot_ok o st : WF st ->
    match o with
    | OSNew _ _ _ _ | OSEmpty _ _ | OSCopy _ _ | OSMove _ _ | OSAssign _ _ | OSMoveAssign _ _
    | OSCall _ _ _ | OSBlock _ _ | OSDisc _ | OSDel _ | OSQuery _ => out_ok st (step prog rec o st)
    | _ => True
    end.
  Proof.
    intro H. pose proof (wf_c _ H) as Hc. destruct o as [t|t|td ts|td ts|t|t|t|s rk body refs|s rk|sn so|sn so|sd ss|sd ss|s arg catch|s b|s|s|s|g k|gn go|gn go|gd gs|gd gs|g|g|g|g s c front mv|g arg catch|g|g b|g|s g|c|cn co|cd cs|c|c b|c|c|c|c|k c|k|k c|kn ko|kd ks|k1 k2|k c|k|k b|k|k| | ]; try exact I; cbn [step].
    - (* OSNew *)
      unfold fresh_slot. destruct (aget s (slots st)) eqn:Hf; cbn [andb]; [apply skip_ok; exact H|].
      destruct (forallb _ refs) eqn:Hlive; cbn [andb]; [|apply skip_ok; exact H].
      destruct (forallb _ (owns prog body)); [|apply skip_ok; exact H].
      destruct (fresh_rep_ok true (mkFun body refs None) false st Hc (wf_noclear _ H) (forallb_live _ _ Hlive))
        as (st2 & E & W & G & S).
      cbn [f_refs] in E. rewrite E. cbn [out_ok].
      apply (new_slot_var_G st); [exact H|exact G|exact W|rewrite S; exact Hf].
    - (* OSEmpty *)
      unfold fresh_slot. destruct (aget s (slots st)) eqn:Hf; [apply skip_ok; exact H|].
      cbn [out_ok]. apply (new_slot_var_G st); [exact H|apply Grow_refl|apply WFp_none; exact Hc|exact Hf].
    - (* OSCopy *)
      unfold live_slot. destruct (get_sb (LVar so) st) as [src|] eqn:Hsrc; [|apply skip_ok; exact H].
      unfold fresh_slot. destruct (aget sn (slots st)) eqn:Hf; [apply skip_ok; exact H|].
      destruct (sb_copy_ok (LVar so) src st Hc (wf_noclear _ H) Hsrc) as (sb & st1 & E & W & G & S).
      rewrite E. cbn [out_ok]. apply (new_slot_var_G st); [exact H|exact G|exact W|rewrite S; exact Hf].
    - (* OSMove *)
      unfold live_slot. destruct (get_sb (LVar so) st) as [src|] eqn:Hsrc; [|apply skip_ok; exact H].
      unfold fresh_slot. destruct (aget sn (slots st)) eqn:Hf; [apply skip_ok; exact H|].
      destruct (sb_move_var_ok so src st Hc (wf_noclear _ H) Hsrc) as (sb & src' & st1 & E & W & G).
      rewrite E. cbn [out_ok]. apply (new_slot_var_G st); [exact H|exact G|exact W|].
      cbn [set_sb slots with_slots]. rewrite (sb_move_slots _ _ _ _ _ E).
      rewrite aget_aset_other; [exact Hf|]. intro X. subst sn. apply get_sb_var_inv in Hsrc. congruence.
    - (* OSAssign *)
      unfold live_slot. destruct (get_sb (LVar sd) st); [|apply skip_ok; exact H].
      destruct (get_sb (LVar ss) st); [|apply skip_ok; exact H].
      destruct (rkind_eqb _ _); [|apply skip_ok; exact H].
      pose proof (sb_assign_ok sd ss st Hc (wf_noclear _ H)) as X.
      destruct (sb_assign sd ss st) as [st'|e]; cbn [liftu lift out_ok].
      + apply Guar_of_Casc; tauto.
      + subst e. exact safe_unsupported.
    - (* OSMoveAssign *)
      unfold live_slot. destruct (get_sb (LVar sd) st); [|apply skip_ok; exact H].
      destruct (get_sb (LVar ss) st); [|apply skip_ok; exact H].
      destruct (rkind_eqb _ _); [|apply skip_ok; exact H].
      pose proof (sb_move_assign_ok sd ss st Hc (wf_noclear _ H)) as X.
      destruct (sb_move_assign sd ss st) as [st'|e]; cbn [liftu lift out_ok].
      + apply Guar_of_Casc; tauto.
      + subst e. exact safe_unsupported.
    - (* OSCall *)
      unfold live_slot. destruct (get_sb (LVar s) st) as [sb|] eqn:Hsb; [|apply skip_ok; exact H].
      destruct (negb (sb_empty sb) && negb (sb_blocked sb)) eqn:Hcall; [|apply out_ok_done_ev; exact H].
      apply andb_true_iff in Hcall. destruct Hcall as [Hemp _]. apply negb_true_iff in Hemp.
      pose proof (invoke_at_ok (LVar s) arg st sb H Hsb Hemp) as X.
      destruct (invoke_at rec (LVar s) arg st) as [st1 v|st1|e]; cbn [out_ok] in *.
      + apply Guar_ev_r. exact X.
      + destruct catch; cbn [out_ok]; [apply Guar_ev_r|]; exact X.
      + exact X.
    - (* OSBlock *)
      unfold live_slot. destruct (get_sb (LVar s) st) as [sb|] eqn:Hsb; [|apply skip_ok; exact H].
      cbn [out_ok]. apply Guar_ev_r. apply Guar_of_Casc; [exact H|apply set_sb_blocked_ok; assumption|apply Casc_set_sb].
    - (* OSDisc *)
      unfold live_slot. destruct (get_sb (LVar s) st); [|apply skip_ok; exact H].
      apply liftu_Casc; [exact H|]. destruct (rep_disconnect_ok (LVar s) st Hc) as (st' & E & W & C & _). eauto.
    - (* OSDel *)
      unfold live_slot. destruct (get_sb (LVar s) st) as [sb|] eqn:Hsb; [|apply skip_ok; exact H].
      apply liftu_Casc; [exact H|]. destruct (del_slot_ok s sb st Hc Hsb) as (st' & E & W & C). eauto.
    - (* OSQuery *)
      unfold live_slot. destruct (get_sb (LVar s) st); [|apply skip_ok; exact H]. apply out_ok_done_ev. exact H.
  Qed.
  Lemma live_sig_impl_present st g go i : WF st -> live_sig g st = Some go -> g_impl go = Some i ->
    aget i (impls st) <> None.
  Proof. intros H Hl Hi. exact (proj2 (wc_sig _ (wf_c _ H)) g go i Hl Hi). Qed.

  Lemma fresh_sig_other st g go gn : live_sig go st = Some g -> aget gn (sigs st) = None -> gn <> go.
  Proof. intros Hl Hf X. subst gn. unfold live_sig in Hl. rewrite Hf in Hl. discriminate. Qed.

  Lemma sig_destroy_full g go st : WF st -> live_sig g st = Some go ->
    exists st', sig_destroy g go st = Ok st' /\ Guar st st' /\ shared st' = shared st /\
      (forall g', live_sig g' st' = if N.eqb g' g then None else live_sig g' st) /\
      (forall t, live_track t st' <> None -> live_track t st <> None) /\
      (forall t, t <> trackable_of_sig g -> live_track t st <> None -> live_track t st' <> None).
  Proof.
    intros H Hl. unfold sig_destroy.
    assert (Hmid : exists st1, (if gk_track (g_kind go)
                    then st1 <- track_notify (trackable_of_sig g) st ;;
                         Ok (with_tracks (aset (trackable_of_sig g) None (tracks st1)) st1)
                    else Ok st) = Ok st1 /\
               Guar st (with_sigs (aset g None (sigs st1)) st1) /\ shared st1 = shared st /\ sigs st1 = sigs st /\
               (forall t, live_track t st1 <> None -> live_track t st <> None) /\
               (forall t, t <> trackable_of_sig g -> live_track t st <> None -> live_track t st1 <> None)).
    { destruct (gk_track (g_kind go)) eqn:Hk.
      - destruct (track_notify_G (trackable_of_sig g) st H) as (sta & E & G & C & D). rewrite E. cbn [rbind].
        eexists. split; [reflexivity|]. split; [|split; [|split; [|split]]].
        + eapply Guar_trans; [exact G|].
          assert (Hla : live_sig g sta = Some go) by (unfold live_sig; rewrite (ca_sigs _ _ C); exact Hl).
          pose proof (del_sig_G g go sta (proj1 G) Hla (fun _ => D)) as X. rewrite Hk in X. exact X.
        + cbn [shared with_tracks]. exact (ca_shared _ _ C).
        + cbn [sigs with_tracks]. exact (ca_sigs _ _ C).
        + intros t Ht. rewrite live_track_aset in Ht.
          destruct (N.eqb t (trackable_of_sig g)); [exfalso; apply Ht; reflexivity|].
          apply (tlive_live _ _ t (ca_tracks _ _ C)). exact Ht.
        + intros t Hne Ht. rewrite live_track_aset.
          destruct (N.eqb_spec t (trackable_of_sig g)); [contradiction|].
          apply (tlive_live _ _ t (ca_tracks _ _ C)). exact Ht.
      - eexists. split; [reflexivity|]. split; [|auto].
        pose proof (del_sig_G g go st H Hl) as X. rewrite Hk in X. apply X. discriminate. }
    destruct Hmid as (st1 & E1 & G2 & Hsh & Hsg & Htr & Htr'). rewrite E1. cbn [rbind].
    set (st2 := with_sigs (aset g None (sigs st1)) st1) in *.
    assert (Hls : forall g', live_sig g' st2 = if N.eqb g' g then None else live_sig g' st).
    { intro g'. unfold st2. rewrite live_sig_aset. unfold live_sig. rewrite Hsg. reflexivity. }
    destruct (g_impl go) as [i|].
    - destruct (release_check_ok i st2 (wf_c _ (proj1 G2))) as (st' & E' & W' & F' & D').
      destruct (release_check_G i _ (proj1 G2)) as (st'' & E'' & G' & _). rewrite E' in E''. inversion E''; subst st''.
      exists st'. split; [exact E'|]. split; [eapply Guar_trans; eauto|]. split; [|split].
      + rewrite (fi_shared _ _ _ F'). exact Hsh.
      + intro g'. unfold live_sig at 1. rewrite (fi_sigs _ _ _ F'). exact (Hls g').
      + split.
        * intros t Ht. apply Htr. apply (tlive_live _ _ t (fi_tracks _ _ _ F')) in Ht. exact Ht.
        * intros t Hne Ht. apply (tlive_live _ _ t (fi_tracks _ _ _ F')). exact (Htr' t Hne Ht).
    - eexists. split; [reflexivity|]. split; [exact G2|]. split; [exact Hsh|]. split; [exact Hls|]. split; [exact Htr|exact Htr'].
  Qed.

  Lemma sig_destroy_G g go st : WF st -> live_sig g st = Some go ->
    exists st', sig_destroy g go st = Ok st' /\ Guar st st'.
  Proof.
    intros H Hl. destruct (sig_destroy_full g go st H Hl) as (st' & E & G & _). exists st'. split; assumption.
  Qed.

  Lemma step_sig_ok o st : WF st ->
    match o with
    | OGNew _ _ | OGCopy _ _ | OGMove _ _ | OGAssign _ _ | OGMoveAssign _ _ | OGShare _ | OGRelease _ | OGDel _
    | OGEmit _ _ _ | OGClear _ | OGBlock _ _ | OGQuery _ | OGMakeSlot _ _ => out_ok st (step prog rec o st)
    | _ => True
    end.
  Proof.
    intro H. pose proof (wf_c _ H) as Hc. destruct o as [t|t|td ts|td ts|t|t|t|s rk body refs|s rk|sn so|sn so|sd ss|sd ss|s arg catch|s b|s|s|s|g k|gn go|gn go|gd gs|gd gs|g|g|g|g s c front mv|g arg catch|g|g b|g|s g|c|cn co|cd cs|c|c b|c|c|c|c|k c|k|k c|kn ko|kd ks|k1 k2|k c|k|k b|k|k| | ]; try exact I; cbn [step].
    - (* OGNew *)
      unfold fresh_sig. destruct (aget g (sigs st)) eqn:Hf; cbn [andb]; [apply skip_ok; exact H|].
      destruct (negb (gk_track k) || fresh_track (trackable_of_sig g) st); [|apply skip_ok; exact H].
      cbn [out_ok]. apply (add_sig_G g k None st H Hf). intros i X. discriminate.
    - (* OGCopy *)
      destruct (live_sig go st) as [src|] eqn:Hl; [|apply skip_ok; exact H].
      unfold fresh_sig. destruct (aget gn (sigs st)) eqn:Hf; [apply skip_ok; exact H|].
      destruct (ensure_impl_G go src st H Hl) as (i & st1 & E & G & P & L & Ho & _). rewrite E.
      cbn [out_ok]. eapply Guar_trans; [exact G|].
      apply (add_sig_G gn (g_kind src) (Some i) st1 (proj1 G)).
      + rewrite Ho; [exact Hf|]. exact (fresh_sig_other st src go gn Hl Hf).
      + intros j X. inversion X; subst j. exact P.
    - (* OGMove *)
      destruct (live_sig go st) as [src|] eqn:Hl; [|apply skip_ok; exact H].
      unfold fresh_sig. destruct (aget gn (sigs st)) eqn:Hf; cbn [andb]; [apply skip_ok; exact H|].
      destruct (match gk_acc (g_kind src) with Some _ => false | None => true end); [|apply skip_ok; exact H].
      pose proof (fresh_sig_other _ _ _ _ Hl Hf) as Hne.
      set (sta := with_sigs (aset go (Some (mkSig (g_kind src) None)) (sigs st)) st).
      assert (Ga : Guar st sta) by (apply (upd_sig_G go src None st H Hl); intros i X; discriminate).
      assert (Gb : Guar sta (add_sig gn (g_kind src) (g_impl src) sta)).
      { apply (add_sig_G gn (g_kind src) (g_impl src) sta (proj1 Ga)).
        - cbn [sta sigs with_sigs]. rewrite aget_aset_other by exact Hne. exact Hf.
        - intros i X. cbn [sta impls with_sigs]. eapply live_sig_impl_present; eauto. }
      assert (Gab : Guar st (add_sig gn (g_kind src) (g_impl src) sta)) by (eapply Guar_trans; eauto).
      unfold add_sig in Gab. cbn [sta] in Gab.
      destruct (gk_track (g_kind src)).
      + match goal with |- out_ok _ (liftu (track_notify ?t ?s)) =>
          assert (Ws : WF s) by exact (proj1 Gab);
          assert (Gs : Guar st s) by exact Gab;
          destruct (track_notify_G t s Ws) as (st3 & E3 & G3 & _); rewrite E3
        end.
        cbn [liftu lift out_ok]. eapply Guar_trans; [exact Gs|exact G3].
      + exact Gab.
    - (* OGAssign *)
      destruct (live_sig gd st) as [dst|] eqn:Hld; [|apply skip_ok; exact H].
      destruct (live_sig gs st) as [src|] eqn:Hls; [|apply skip_ok; exact H].
      destruct (same_gkind (g_kind dst) (g_kind src)); [|apply skip_ok; exact H].
      destruct (match g_impl dst with Some a => match g_impl src with Some b => N.eqb a b | None => false end | None => false end);
        [apply Guar_refl; exact H|].
      destruct (ensure_impl_G gs src st H Hls) as (i & st1 & E & G & P & L & Ho & _). rewrite E.
      assert (Hld1 : exists dst1, live_sig gd st1 = Some dst1 /\ g_kind dst1 = g_kind dst).
      { destruct (N.eq_dec gd gs) as [->|Hne].
        - rewrite Hld in Hls. inversion Hls; subst src. eexists. split; [exact L|reflexivity].
        - exists dst. split; [|reflexivity]. unfold live_sig. rewrite (Ho gd Hne). exact Hld. }
      destruct Hld1 as (dst1 & Hld1 & Hk1).
      pose proof (upd_sig_G gd dst1 (Some i) st1 (proj1 G) Hld1) as G2. rewrite Hk1 in G2.
      assert (G2' : Guar st1 (with_sigs (aset gd (Some (mkSig (g_kind dst) (Some i))) (sigs st1)) st1)).
      { apply G2. intros j X. inversion X; subst j. exact P. }
      destruct (g_impl dst) as [old|].
      + destruct (release_check_G old _ (proj1 G2')) as (st3 & E3 & G3 & _). rewrite E3.
        cbn [liftu lift out_ok]. eapply Guar_trans; [exact G|]. eapply Guar_trans; eauto.
      + cbn [out_ok]. eapply Guar_trans; eauto.
    - (* OGMoveAssign *)
      destruct (live_sig gd st) as [dst|] eqn:Hld; [|apply skip_ok; exact H].
      destruct (live_sig gs st) as [src|] eqn:Hls; [|apply skip_ok; exact H].
      destruct (same_gkind (g_kind dst) (g_kind src) && _); [|apply skip_ok; exact H].
      destruct (match g_impl dst with
                | Some a => match g_impl src with Some b => N.eqb a b | None => false end
                | None => match g_impl src with Some _ => false | None => true end
                end) eqn:Hsame; [apply Guar_refl; exact H|].
      assert (Hne : gd <> gs).
      { intro X. subst gd. rewrite Hld in Hls. inversion Hls; subst src.
        destruct (g_impl dst); [rewrite N.eqb_refl in Hsame|]; discriminate. }
      set (sta := with_sigs (aset gs (Some (mkSig (g_kind src) None)) (sigs st)) st).
      assert (Ga : Guar st sta) by (apply (upd_sig_G gs src None st H Hls); intros i X; discriminate).
      assert (Hlda : live_sig gd sta = Some dst).
      { unfold sta. rewrite live_sig_aset. destruct (N.eqb_spec gd gs); [contradiction|exact Hld]. }
      assert (Gb : Guar sta (with_sigs (aset gd (Some (mkSig (g_kind dst) (g_impl src))) (sigs sta)) sta)).
      { apply (upd_sig_G gd dst (g_impl src) sta (proj1 Ga) Hlda).
        intros i X. cbn [sta impls with_sigs]. eapply live_sig_impl_present; eauto. }
      cbn [sta sigs with_sigs] in Gb.
      set (st1 := with_sigs (aset gd (Some (mkSig (g_kind dst) (g_impl src)))
                     (aset gs (Some (mkSig (g_kind src) None)) (sigs st))) st).
      assert (G1 : Guar st st1) by (eapply Guar_trans; [exact Ga|exact Gb]).
      assert (Hrel : exists st2, match g_impl dst with Some old => release_check old st1 | None => Ok st1 end = Ok st2 /\ Guar st st2).
      { destruct (g_impl dst) as [old|].
        - destruct (release_check_G old st1 (proj1 G1)) as (st2 & E2 & G2 & _). exists st2. split; [exact E2|eapply Guar_trans; eauto].
        - exists st1. split; [reflexivity|exact G1]. }
      destruct Hrel as (st2 & E2 & G2). fold st1. rewrite E2.
      destruct (gk_track (g_kind src) && _).
      + destruct (track_notify_G (trackable_of_sig gs) st2 (proj1 G2)) as (st3 & E3 & G3 & _). rewrite E3.
        cbn [liftu lift out_ok]. eapply Guar_trans; eauto.
      + exact G2.
    - (* OGShare *)
      destruct (live_sig g st) as [go|] eqn:Hl; [|apply skip_ok; exact H].
      destruct (negb (is_shared (sig_key g) st)); cbn [andb]; [|apply skip_ok; exact H].
      destruct (N.ltb_spec g 1000); [|apply skip_ok; exact H].
      cbn [out_ok]. apply Guar_with_shared; [apply Guar_refl; exact H|].
      apply Forall_aset; [exact (wf_shared _ H)|]. right. unfold sig_key. cbn [fst]. lia.
    - (* OGRelease *)
      destruct (live_sig g st) as [go|] eqn:Hl; [|apply skip_ok; exact H].
      unfold is_shared. destruct (aget (sig_key g) (shared st)) as [b|] eqn:Hb; cbn [andb]; [|apply skip_ok; exact H].
      destruct (negb (is_released (sig_key g) st)); [|apply skip_ok; exact H].
      cbn [out_ok]. apply Guar_with_shared; [apply Guar_refl; exact H|].
      apply Forall_aset; [exact (wf_shared _ H)|]. exact (shared_key_lt st _ b H Hb).
    - (* OGDel *)
      destruct (live_sig g st) as [go|] eqn:Hl; [|apply skip_ok; exact H].
      destruct (negb (is_shared (sig_key g) st)); [|apply skip_ok; exact H].
      apply liftu_G. apply sig_destroy_G; assumption.
    - (* OGEmit *)
      destruct (live_sig g st) as [go|] eqn:Hl; [|apply skip_ok; exact H].
      pose proof (emit_sig_ok g arg st H) as X.
      destruct (emit_sig prog rec g arg st) as [st1 v|st1|e]; cbn [out_ok] in *.
      + apply Guar_ev_r. exact X.
      + destruct catch; cbn [out_ok]; [apply Guar_ev_r|]; exact X.
      + exact X.
    - (* OGClear *)
      destruct (live_sig g st) as [go|] eqn:Hl; [|apply skip_ok; exact H].
      destruct (g_impl go) as [i|] eqn:Hi; [|apply Guar_refl; exact H].
      pose proof (live_sig_impl_present st g go i H Hl Hi) as P.
      destruct (aget i (impls st)) as [im|] eqn:Him; [|contradiction].
      apply liftu_Casc; [exact H|].
      destruct (impl_clear_ok i im st Hc Him) as (st' & E & W & C); [|eauto].
      exact (proj1 (proj2 (wf_flags _ H i im Him))).
    - (* OGBlock *)
      destruct (live_sig g st) as [go|] eqn:Hl; [|apply skip_ok; exact H].
      destruct (g_impl go) as [i|] eqn:Hi; [|apply Guar_refl; exact H].
      pose proof (live_sig_impl_present st g go i H Hl Hi) as P.
      destruct (aget i (impls st)) as [im|] eqn:Him; [|contradiction].
      unfold upd_impl. rewrite Him. cbn [liftu lift out_ok].
      destruct (block_all_ok i im b st Hc Him) as (W & C). apply Guar_of_Casc; assumption.
    - (* OGQuery *)
      destruct (live_sig g st) as [go|] eqn:Hl; [|apply skip_ok; exact H].
      destruct (g_impl go) as [i|] eqn:Hi; [|apply out_ok_done_ev; exact H].
      pose proof (live_sig_impl_present st g go i H Hl Hi) as P.
      destruct (aget i (impls st)) as [im|] eqn:Him; [|contradiction]. apply out_ok_done_ev. exact H.
    - (* OGMakeSlot *)
      destruct (live_sig g st) as [go|] eqn:Hl; [|apply skip_ok; exact H].
      unfold fresh_slot. destruct (aget s (slots st)) eqn:Hf; cbn [andb]; [apply skip_ok; exact H|].
      destruct (match gk_acc (g_kind go) with Some _ => false | None => true end); [|apply skip_ok; exact H].
      set (refs := if gk_track (g_kind go) then [trackable_of_sig g] else []).
      assert (Hlive : forall t, In t refs -> live_track t st <> None).
      { intros t Hin. unfold refs in Hin. destruct (gk_track (g_kind go)) eqn:Hk; [|destruct Hin].
        destruct Hin as [<-|[]]. apply (proj1 (wc_sig _ Hc) g). exists go. auto. }
      destruct (fresh_rep_ok true (mkFun 0 refs (Some g)) false st Hc (wf_noclear _ H) Hlive) as (st2 & E & W & G & S).
      cbn [f_refs] in E. rewrite E. cbn [out_ok].
      apply (new_slot_var_G st); [exact H|exact G|exact W|rewrite S; exact Hf].
  Qed.
  (* ---- connections ---- *)

  Lemma set_conn_ok w p st : WF st -> (forall i n, p = Some (i, n) -> has_rep i n st) ->
    exists st', watch_add p w (set_connptr w p st) = Ok st' /\ Guar st st'.
  Proof.
    intros H Hhas.
    assert (X : WFx [w] (set_connptr w p st)).
    { apply (WFx_weaken [w]); [apply incl_refl|]. apply set_connptr_x. apply WFx_nil. exact (wf_c _ H). }
    assert (Hp : get_connptr w (set_connptr w p st) = Some p).
    { rewrite get_set_connptr. destruct (wref_eqb_spec w w); [reflexivity|congruence]. }
    destruct (watch_add_ok w p _ X Hp) as (st' & E & W & C & _).
    { intros i n Ep. eapply has_rep_impls; [|apply Hhas; exact Ep]. exact (sh_impls _ _ (set_connptr_heavy w p st)). }
    exists st'. split; [exact E|]. apply Guar_of_Casc; [exact H|exact W|].
    eapply Casc_trans; [apply Casc_set_connptr|exact C].
  Qed.

  Lemma conn_target_some st w p : WF st -> get_connptr w st = Some p ->
    forall i n, p = Some (i, n) -> exists sb, get_sb (LNode i n) st = Some sb.
  Proof.
    intros H Hp i n E. destruct (live_conn_target w p st (wf_c _ H) Hp i n E) as (sb & r & A & _). eauto.
  Qed.

  Lemma conn_query_ok st w p : WF st -> get_connptr w st = Some p -> out_ok st (conn_query p st).
  Proof.
    intros H Hp. unfold conn_query, conn_target. destruct p as [[i n]|]; [|apply out_ok_done_ev; exact H].
    destruct (conn_target_some st w _ H Hp i n eq_refl) as (sb & E). rewrite E. apply out_ok_done_ev. exact H.
  Qed.

  Lemma conn_block_ok st w p b : WF st -> get_connptr w st = Some p -> out_ok st (conn_block p b st).
  Proof.
    intros H Hp. unfold conn_block, conn_target. destruct p as [[i n]|]; [|apply out_ok_done_ev; exact H].
    destruct (conn_target_some st w _ H Hp i n eq_refl) as (sb & E). rewrite E. cbn [out_ok].
    apply Guar_ev_r. apply Guar_of_Casc; [exact H|apply set_sb_blocked_ok; [exact (wf_c _ H)|exact E]|apply Casc_set_sb].
  Qed.

  Lemma conn_disconnect_G st w p : WF st -> get_connptr w st = Some p ->
    exists st', conn_disconnect p st = Ok st' /\ Guar st st'.
  Proof.
    intros H Hp. destruct (conn_disconnect_ok p st (wf_c _ H) (conn_target_some st w p H Hp)) as (st' & E & W & C).
    exists st'. split; [exact E|apply Guar_of_Casc; assumption].
  Qed.

  Lemma conn_set_G st w p : WF st -> (forall i n, p = Some (i, n) -> has_rep i n st) ->
    match conn_set w p st with
    | Ok st' => Guar st st' /\ (forall j m, has_rep j m st -> has_rep j m st') /\
                (forall w', w' <> w -> get_connptr w' st' = get_connptr w' st)
    | Err e => e = ErrUnsupported
    end.
  Proof.
    intros H Hhas. destruct (get_connptr w st) as [old|] eqn:Hold.
    - destruct (conn_set_ok w p old st (wf_c _ H) Hold Hhas) as (st' & E & W & C & R & _ & O).
      rewrite E. split; [apply Guar_of_Casc; assumption|]. split; assumption.
    - unfold conn_set. rewrite Hold. reflexivity.
  Qed.

  Lemma kill_conn_ok w st0 st1 (st' : state) : WF st0 -> WFx [w] st1 -> Casc st0 st1 ->
    same_heavy st1 st' -> tracks st' = tracks st1 ->
    (forall w', w' <> w -> get_connptr w' st' = get_connptr w' st1) ->
    (forall i n, get_connptr w st' <> Some (Some (i, n))) -> Guar st0 st'.
  Proof.
    intros H X C Hh Et Ho Hw. apply Guar_of_Casc; [exact H|eapply WFx_kill; eauto|].
    eapply Casc_trans; [exact C|]. apply Casc_heavy; [exact Hh|apply tlive_tracks_eq; exact Et].
  Qed.

  Lemma has_rep_Guar_live st w p : WF st -> get_connptr w st = Some p -> forall i n, p = Some (i, n) -> has_rep i n st.
  Proof. intros H. apply live_conn_target. exact (wf_c _ H). Qed.

  (* destruction of a connection object (OCDel, and the end-of-operation collection of a shared one) *)
  Lemma conn_destroy_full c p st : WF st -> get_connptr (WC c) st = Some p ->
    exists st1, watch_remove p (WC c) st = Ok st1 /\ Casc st st1 /\
      (forall w', get_connptr w' st1 = get_connptr w' st) /\
      Guar st (with_conns (aset c None (conns st1)) st1).
  Proof.
    intros H Hp. pose proof (wf_c _ H) as Hc.
    destruct (watch_remove_ok (WC c) p st Hc Hp) as (st1 & E1 & X1 & C1 & _ & P1). exists st1.
    split; [exact E1|]. split; [exact C1|]. split; [exact P1|].
    eapply (kill_conn_ok (WC c)); eauto; try reflexivity; [constructor; reflexivity| |].
    + intros w' Hne. destruct w' as [c'|k']; cbn [get_connptr conns sconns with_conns]; [|reflexivity].
      rewrite aget_aset_other; [reflexivity|congruence].
    + intros i n. cbn [get_connptr conns with_conns]. rewrite aget_aset_same. discriminate.
  Qed.

  Lemma step_conn_ok o st : WF st ->
    match o with
    | OCEmpty _ | OCCopy _ _ | OCAssign _ _ | OCDisc _ | OCBlock _ _ | OCShare _ | OCRelease _ | OCDel _ | OCQuery _
    | OKNew _ _ | OKEmpty _ | OKAssign _ _ | OKMove _ _ | OKMoveAssign _ _ | OKSwap _ _ | OKRelease _ _
    | OKDisc _ | OKBlock _ _ | OKDel _ | OKQuery _ => out_ok st (step prog rec o st)
    | _ => True
    end.
  Proof.
    intro H. pose proof (wf_c _ H) as Hc. destruct o as [t|t|td ts|td ts|t|t|t|s rk body refs|s rk|sn so|sn so|sd ss|sd ss|s arg catch|s b|s|s|s|g k|gn go|gn go|gd gs|gd gs|g|g|g|g s c front mv|g arg catch|g|g b|g|s g|c|cn co|cd cs|c|c b|c|c|c|c|k c|k|k c|kn ko|kd ks|k1 k2|k c|k|k b|k|k| | ]; try exact I; cbn [step].
    - (* OCEmpty *)
      destruct (fresh_conn c st); [|apply skip_ok; exact H].
      destruct (set_conn_ok (WC c) None st H) as (st' & E & G); [intros i n X; discriminate|].
      cbn [watch_add] in E. inversion E; subst st'. exact G.
    - (* OCCopy *)
      destruct (get_connptr (WC co) st) as [p|] eqn:Hp; [|apply skip_ok; exact H].
      destruct (fresh_conn cn st); [|apply skip_ok; exact H].
      apply liftu_G. apply set_conn_ok; [exact H|]. exact (has_rep_Guar_live st (WC co) p H Hp).
    - (* OCAssign *)
      destruct (get_connptr (WC cd) st) as [pd|] eqn:Hpd; [|apply skip_ok; exact H].
      destruct (get_connptr (WC cs) st) as [p|] eqn:Hp; [|apply skip_ok; exact H].
      pose proof (conn_set_G st (WC cd) p H (has_rep_Guar_live st (WC cs) p H Hp)) as X.
      destruct (conn_set (WC cd) p st); cbn [liftu lift out_ok]; [tauto|subst; exact safe_unsupported].
    - (* OCDisc *)
      destruct (get_connptr (WC c) st) as [p|] eqn:Hp; [|apply skip_ok; exact H].
      apply liftu_G. eapply conn_disconnect_G; eauto.
    - (* OCBlock *)
      destruct (get_connptr (WC c) st) as [p|] eqn:Hp; [|apply skip_ok; exact H]. eapply conn_block_ok; eauto.
    - (* OCShare *)
      destruct (get_connptr (WC c) st) as [p|] eqn:Hp; [|apply skip_ok; exact H].
      destruct (negb (is_shared (conn_key c) st)); cbn [andb]; [|apply skip_ok; exact H].
      destruct (N.ltb_spec c 1000); [|apply skip_ok; exact H].
      cbn [out_ok]. apply Guar_with_shared; [apply Guar_refl; exact H|].
      apply Forall_aset; [exact (wf_shared _ H)|]. right. right. unfold conn_key. cbn [fst]. lia.
    - (* OCRelease *)
      destruct (get_connptr (WC c) st) as [p|] eqn:Hp; [|apply skip_ok; exact H].
      unfold is_shared. destruct (aget (conn_key c) (shared st)) as [b|] eqn:Hb; cbn [andb]; [|apply skip_ok; exact H].
      destruct (negb (is_released (conn_key c) st)); [|apply skip_ok; exact H].
      cbn [out_ok]. apply Guar_with_shared; [apply Guar_refl; exact H|].
      apply Forall_aset; [exact (wf_shared _ H)|]. exact (shared_key_lt st (conn_key c) b H Hb).
    - (* OCDel *)
      destruct (get_connptr (WC c) st) as [p|] eqn:Hp; [|apply skip_ok; exact H].
      destruct (negb (is_shared (conn_key c) st)); [|apply skip_ok; exact H].
      destruct (conn_destroy_full c p st H Hp) as (st1 & E1 & _ & _ & G). rewrite E1. exact G.
    - (* OCQuery *)
      destruct (get_connptr (WC c) st) as [p|] eqn:Hp; [|apply skip_ok; exact H]. eapply conn_query_ok; eauto.
    - (* OKNew *)
      destruct (get_connptr (WC c) st) as [p|] eqn:Hp; [|apply skip_ok; exact H].
      destruct (fresh_sconn k st); [|apply skip_ok; exact H].
      apply liftu_G. apply set_conn_ok; [exact H|]. exact (has_rep_Guar_live st (WC c) p H Hp).
    - (* OKEmpty *)
      destruct (fresh_sconn k st); [|apply skip_ok; exact H].
      destruct (set_conn_ok (WK k) None st H) as (st' & E & G); [intros i n X; discriminate|].
      cbn [watch_add] in E. inversion E; subst st'. exact G.
    - (* OKAssign *)
      destruct (get_connptr (WK k) st) as [old|] eqn:Hold; [|apply skip_ok; exact H].
      destruct (get_connptr (WC c) st) as [pc|] eqn:Hpc; [|apply skip_ok; exact H].
      destruct (conn_disconnect_G st (WK k) old H Hold) as (st1 & E1 & G1). rewrite E1. cbn [rbind].
      destruct (get_connptr (WK k) st1) as [old1|] eqn:Hold1; [|exact safe_unsupported].
      destruct (get_connptr (WC c) st1) as [p|] eqn:Hp; [|exact safe_unsupported].
      pose proof (conn_set_G st1 (WK k) p (proj1 G1) (has_rep_Guar_live st1 (WC c) p (proj1 G1) Hp)) as X.
      destruct (conn_set (WK k) p st1); cbn [liftu lift out_ok]; [eapply Guar_trans; [exact G1|tauto]|subst; exact safe_unsupported].
    - (* OKMove *)
      destruct (get_connptr (WK ko) st) as [p|] eqn:Hp; [|apply skip_ok; exact H].
      destruct (fresh_sconn kn st); [|apply skip_ok; exact H].
      pose proof (conn_set_G st (WK ko) None H) as X.
      destruct (conn_set (WK ko) None st) as [st1|e]; cbn [rbind liftu lift out_ok].
      + destruct X as (G1 & R1 & _); [intros i n X; discriminate|].
        destruct (set_conn_ok (WK kn) p st1 (proj1 G1)) as (st' & E & G).
        { intros i n Ep. apply R1. exact (has_rep_Guar_live st (WK ko) p H Hp i n Ep). }
        rewrite E. cbn [out_ok]. eapply Guar_trans; eauto.
      + rewrite X; [exact safe_unsupported|intros i n Y; discriminate].
    - (* OKMoveAssign *)
      destruct (get_connptr (WK kd) st) as [old|] eqn:Hold; [|apply skip_ok; exact H].
      destruct (get_connptr (WK ks) st) as [ps|] eqn:Hps; [|apply skip_ok; exact H].
      destruct (N.eqb kd ks); [apply skip_ok; exact H|].
      destruct (conn_disconnect_G st (WK kd) old H Hold) as (st1 & E1 & G1). rewrite E1. cbn [rbind].
      destruct (get_connptr (WK ks) st1) as [p|] eqn:Hp; [|exact safe_unsupported].
      pose proof (conn_set_G st1 (WK ks) None (proj1 G1)) as X.
      destruct (conn_set (WK ks) None st1) as [st2|e]; cbn [rbind].
      + destruct X as (G2 & R2 & _); [intros i n X; discriminate|].
        pose proof (conn_set_G st2 (WK kd) p (proj1 G2)) as Y.
        destruct (conn_set (WK kd) p st2) as [st3|e]; cbn [liftu lift out_ok].
        * destruct Y as (G3 & _); [|eapply Guar_trans; [exact G1|eapply Guar_trans; eauto]].
          intros i n Ep. apply R2. exact (has_rep_Guar_live st1 (WK ks) p (proj1 G1) Hp i n Ep).
        * rewrite Y; [exact safe_unsupported|].
          intros i n Ep. apply R2. exact (has_rep_Guar_live st1 (WK ks) p (proj1 G1) Hp i n Ep).
      + cbn [liftu lift out_ok]. rewrite X; [exact safe_unsupported|intros i n Y; discriminate].
    - (* OKSwap *)
      destruct (get_connptr (WK k1) st) as [p1|] eqn:Hp1; [|apply skip_ok; exact H].
      destruct (get_connptr (WK k2) st) as [p2|] eqn:Hp2; [|apply skip_ok; exact H].
      destruct (N.eqb k1 k2); [apply skip_ok; exact H|].
      pose proof (conn_set_G st (WK k1) p2 H (has_rep_Guar_live st (WK k2) p2 H Hp2)) as X.
      destruct (conn_set (WK k1) p2 st) as [st1|e]; cbn [rbind].
      + destruct X as (G1 & R1 & _).
        pose proof (conn_set_G st1 (WK k2) p1 (proj1 G1)) as Y.
        destruct (conn_set (WK k2) p1 st1) as [st2|e]; cbn [liftu lift out_ok].
        * destruct Y as (G2 & _); [|eapply Guar_trans; eauto].
          intros i n Ep. apply R1. exact (has_rep_Guar_live st (WK k1) p1 H Hp1 i n Ep).
        * rewrite Y; [exact safe_unsupported|].
          intros i n Ep. apply R1. exact (has_rep_Guar_live st (WK k1) p1 H Hp1 i n Ep).
      + cbn [liftu lift out_ok]. subst e. exact safe_unsupported.
    - (* OKRelease *)
      destruct (get_connptr (WK k) st) as [p|] eqn:Hp; [|apply skip_ok; exact H].
      destruct (fresh_conn c st); [|apply skip_ok; exact H].
      pose proof (conn_set_G st (WK k) None H) as X.
      destruct (conn_set (WK k) None st) as [st1|e]; cbn [rbind liftu lift out_ok].
      + destruct X as (G1 & R1 & _); [intros i n X; discriminate|].
        destruct (set_conn_ok (WC c) p st1 (proj1 G1)) as (st' & E & G).
        { intros i n Ep. apply R1. exact (has_rep_Guar_live st (WK k) p H Hp i n Ep). }
        rewrite E. cbn [out_ok]. eapply Guar_trans; eauto.
      + rewrite X; [exact safe_unsupported|intros i n Y; discriminate].
    - (* OKDisc *)
      destruct (get_connptr (WK k) st) as [p|] eqn:Hp; [|apply skip_ok; exact H].
      apply liftu_G. eapply conn_disconnect_G; eauto.
    - (* OKBlock *)
      destruct (get_connptr (WK k) st) as [p|] eqn:Hp; [|apply skip_ok; exact H]. eapply conn_block_ok; eauto.
    - (* OKDel *)
      destruct (get_connptr (WK k) st) as [p|] eqn:Hp; [|apply skip_ok; exact H].
      destruct (conn_disconnect_G st (WK k) p H Hp) as (st1 & E1 & G1). rewrite E1. cbn [rbind].
      destruct (get_connptr (WK k) st1) as [p1|] eqn:Hp1; [|exact safe_unsupported].
      destruct (watch_remove_ok (WK k) p1 st1 (wf_c _ (proj1 G1)) Hp1) as (st2 & E2 & X2 & C2 & _ & P2).
      rewrite E2. cbn [rbind liftu lift out_ok]. eapply Guar_trans; [exact G1|].
      eapply (kill_conn_ok (WK k)); eauto; try reflexivity; [exact (proj1 G1)|constructor; reflexivity| |].
      + intros w' Hne. destruct w' as [c'|k']; cbn [get_connptr conns sconns with_sconns]; [reflexivity|].
        rewrite aget_aset_other; [reflexivity|congruence].
      + intros i n. cbn [get_connptr sconns with_sconns]. rewrite aget_aset_same. discriminate.
    - (* OKQuery *)
      destruct (get_connptr (WK k) st) as [p|] eqn:Hp; [|apply skip_ok; exact H]. eapply conn_query_ok; eauto.
  Qed.
  (* ---- connect ---- *)

  Lemma step_connect_ok g s c front mv st : WF st -> out_ok st (step prog rec (OGConnect g s c front mv) st).
  Proof.
    intro H. cbn [step].
    destruct (live_sig g st) as [go|] eqn:Hl; [|apply skip_ok; exact H].
    unfold live_slot. destruct (get_sb (LVar s) st) as [src|] eqn:Hsrc; [|apply skip_ok; exact H].
    destruct (rkind_eqb _ _); [|apply skip_ok; exact H].
    destruct (ensure_impl_G g go st H Hl) as (i & st1 & E & G1 & P & _ & _ & S1 & _). rewrite E.
    pose proof (proj1 G1) as W1.
    assert (Hsrc1 : get_sb (LVar s) st1 = Some src) by (rewrite get_sb_var, S1; exact Hsrc).
    destruct (aget i (impls st1)) as [im|] eqn:Hi1; [|contradiction].
    (* the slot base to insert, in a state where the source variable has been updated *)
    assert (Hmv : exists sb src' st2, (if mv then sb_move src st1
                      else '(sb, st2) <- sb_copy src st1 ;; Ok (sb, src, st2)) = Ok (sb, src', st2) /\
                    WFp sb (set_sb (LVar s) src' st2) /\ Grow st1 (set_sb (LVar s) src' st2)).
    { destruct mv.
      - destruct (sb_move_var_ok s src st1 (wf_c _ W1) (wf_noclear _ W1) Hsrc1) as (sb & src' & st2 & E2 & W2 & G2).
        exists sb, src', st2. auto.
      - destruct (sb_copy_ok (LVar s) src st1 (wf_c _ W1) (wf_noclear _ W1) Hsrc1) as (sb & st2 & E2 & W2 & G2 & S2).
        exists sb, src, st2. rewrite E2. cbn [rbind]. split; [reflexivity|].
        assert (Hsrc2 : get_sb (LVar s) st2 = Some src) by (rewrite get_sb_var, S2, <- get_sb_var; exact Hsrc1).
        rewrite (set_sb_var_same _ _ _ Hsrc2). auto. }
    destruct Hmv as (sb & src' & st2 & E2 & W3 & G3). rewrite E2.
    set (st3 := set_sb (LVar s) src' st2) in *.
    assert (Hi3 : aget i (impls st3) = Some im) by (rewrite (gr_impls _ _ G3); exact Hi1).
    destruct (impl_insert_ok i front sb st3 im W3 Hi3) as (r & st4 & E4 & W4 & C4 & Hn4 & _).
    rewrite E4.
    assert (G14 : Guar st1 st4).
    { apply Guar_of_Casc; [exact W1|exact W4|]. eapply Casc_trans; [apply Grow_Casc; exact G3|exact C4]. }
    assert (G4 : Guar st st4) by (eapply Guar_trans; eauto).
    assert (Hhas : forall i' n', Some (i, Real (next_nid st3)) = Some (i', n') -> has_rep i' n' st4).
    { intros i' n' X. inversion X; subst i' n'. eexists _, r. split; [exact Hn4|reflexivity]. }
    destruct c as [cv|]; [|exact G4].
    destruct (fresh_conn cv st4).
    - destruct (set_conn_ok (WC cv) (Some (i, Real (next_nid st3))) st4 (proj1 G4) Hhas) as (st5 & E5 & G5).
      rewrite E5. cbn [liftu lift out_ok]. eapply Guar_trans; eauto.
    - destruct (get_connptr (WC cv) st4) eqn:Hcv; [|exact G4].
      pose proof (conn_set_G st4 (WC cv) (Some (i, Real (next_nid st3))) (proj1 G4) Hhas) as X.
      destruct (conn_set (WC cv) (Some (i, Real (next_nid st3))) st4); cbn [liftu lift out_ok];
        [eapply Guar_trans; [exact G4|tauto]|subst; exact safe_unsupported].
  Qed.

  Theorem step_ok o st : WF st -> out_ok st (step prog rec o st).
  Proof.
    intro H.
    pose proof (step_track_ok o st H) as X1. pose proof (step_slot_ok o st H) as X2.
    pose proof (step_sig_ok o st H) as X3. pose proof (step_conn_ok o st H) as X4.
    destruct o; try exact X1; try exact X2; try exact X3; try exact X4.
    - apply step_connect_ok. exact H.
    - cbn [step]. apply out_ok_done_ev. exact H.
    - cbn [step out_ok]. apply Guar_refl. exact H.
  Qed.

  (* ---- collection of orphaned shared trackables ---- *)

  Lemma find_orphan_spec l st t : find_orphan prog l st = Some t ->
    exists rel, In (t, rel) l /\ is_live st (t, rel) = true.
  Proof.
    induction l as [|[t' rel] l IH]; cbn [find_orphan]; [discriminate|].
    destruct (rel && key_live t' st && N.eqb (owner_count prog t' st) 0) eqn:E.
    - intro X. inversion X; subst t'. exists rel. split; [left; reflexivity|].
      apply andb_true_iff in E. destruct E as [E _]. apply andb_true_iff in E. destruct E as [_ E].
      unfold is_live. cbn [fst]. exact E.
    - intro X. destruct (IH X) as (r & Hin & Hl). exists r. split; [right; exact Hin|exact Hl].
  Qed.

  (* liveness of keys only decreases when sigs, tracks and connection objects only die *)
  Lemma key_live_mono st st' k :
    (forall g, live_sig g st' <> None -> live_sig g st <> None) ->
    (forall t, live_track t st' <> None -> live_track t st <> None) ->
    (forall c, get_connptr (WC c) st' <> None -> get_connptr (WC c) st <> None) ->
    key_live k st' = true -> key_live k st = true.
  Proof.
    intros Hs Ht Hc. unfold key_live. destruct (N.leb 4000 k); [|destruct (N.leb 2000 k)].
    - specialize (Hc (k - 4000)). destruct (get_connptr (WC (k - 4000)) st'); [|discriminate].
      destruct (get_connptr (WC (k - 4000)) st); [reflexivity|]. intros _. exfalso. apply Hc; [discriminate|reflexivity].
    - specialize (Hs (k - 2000)). destruct (live_sig (k - 2000) st'); [|discriminate].
      destruct (live_sig (k - 2000) st); [reflexivity|]. intros _. exfalso. apply Hs; [discriminate|reflexivity].
    - specialize (Ht k). destruct (live_track k st'); [|discriminate].
      destruct (live_track k st); [reflexivity|]. intros _. exfalso. apply Ht; [discriminate|reflexivity].
  Qed.

  Lemma gc_ok : forall fuel st, WF st -> (lv st < fuel)%nat ->
    exists st', gc prog fuel st = Ok st' /\ Guar st st'.
  Proof.
    induction fuel as [|fuel IH]; intros st H Hlv; [lia|]. cbn [gc].
    destruct (find_orphan prog (shared st) st) as [t|] eqn:Hfo.
    2:{ exists st. split; [reflexivity|apply Guar_refl; exact H]. }
    destruct (find_orphan_spec _ _ _ Hfo) as (rel & Hin & Hlive).
    assert (Hk : shkey t).
    { pose proof (wf_shared _ H) as F. unfold shared_ok in F. rewrite Forall_forall in F. exact (F (t, rel) Hin). }
    assert (Hdec : forall st2, shared st2 = shared st -> is_live st2 (t, rel) = false ->
              (forall y, is_live st2 y = true -> is_live st y = true) -> (lv st2 < fuel)%nat).
    { intros st2 Hsh Hd Hm. unfold lv. rewrite Hsh.
      assert (X : (length (filter (is_live st2) (shared st)) < length (filter (is_live st) (shared st)))%nat); [|unfold lv in Hlv; lia].
      exact (filter_length_lt (is_live st) (is_live st2) (shared st) (t, rel) Hin Hlive Hd Hm). }
    destruct (N.leb_spec 4000 t) as [Hge4|Hlt4]; [|destruct (N.leb_spec 2000 t) as [Hge|Hlt]].
    - (* a connection object *)
      unfold is_live, key_live in Hlive. cbn [fst] in Hlive.
      destruct (N.leb_spec 4000 t) as [_|]; [|lia].
      destruct (get_connptr (WC (t - 4000)) st) as [p|] eqn:Hp; [|discriminate].
      destruct (conn_destroy_full (t - 4000) p st H Hp) as (st1 & E & C & P & G). rewrite E. cbn [rbind].
      set (st2 := with_conns (aset (t - 4000) None (conns st1)) st1) in *.
      destruct (IH st2 (proj1 G)) as (st' & E' & G').
      + apply Hdec; [exact (ca_shared _ _ C)| |].
        * unfold is_live, key_live. cbn [fst]. destruct (N.leb_spec 4000 t) as [_|]; [|lia].
          unfold st2. cbn [get_connptr conns with_conns]. rewrite aget_aset_same. reflexivity.
        * intros [k r]. unfold is_live. cbn [fst]. apply key_live_mono.
          -- intros g Hg. unfold live_sig in *. unfold st2 in Hg. cbn [sigs with_conns] in Hg.
             rewrite (ca_sigs _ _ C) in Hg. exact Hg.
          -- intros t' Ht'. apply (tlive_live st st1 t' (ca_tracks _ _ C)). exact Ht'.
          -- intros c Hc. rewrite <- P. unfold st2 in Hc. cbn [get_connptr conns with_conns] in Hc.
             destruct (N.eqb_spec c (t - 4000)) as [->|Hne]; [rewrite aget_aset_same in Hc; exfalso; apply Hc; reflexivity|].
             rewrite aget_aset_other in Hc by exact Hne. exact Hc.
      + exists st'. split; [exact E'|eapply Guar_trans; eauto].
    - (* a signal object *)
      unfold is_live, key_live in Hlive. cbn [fst] in Hlive.
      destruct (N.leb_spec 4000 t) as [|_]; [lia|]. destruct (N.leb_spec 2000 t) as [_|]; [|lia].
      destruct (live_sig (t - 2000) st) as [go|] eqn:Hl; [|discriminate].
      destruct (sig_destroy_full (t - 2000) go st H Hl) as (st1 & E & G & Hsh & Hsg & Htr & _). rewrite E. cbn [rbind].
      destruct (IH st1 (proj1 G)) as (st' & E' & G').
      + apply Hdec; [exact Hsh| |].
        * unfold is_live, key_live. cbn [fst]. destruct (N.leb_spec 4000 t) as [|_]; [lia|]. destruct (N.leb_spec 2000 t) as [_|]; [|lia].
          rewrite Hsg, N.eqb_refl. reflexivity.
        * intros [k r]. unfold is_live. cbn [fst]. apply key_live_mono; [|exact Htr|exact (conn_dom_sig_destroy _ _ _ _ E)].
          intros g Hg. rewrite Hsg in Hg. destruct (N.eqb g (t - 2000)); [exfalso; apply Hg; reflexivity|exact Hg].
      + exists st'. split; [exact E'|eapply Guar_trans; eauto].
    - (* a trackable *)
      assert (Ht : t < 1000) by (destruct Hk as [|[[]|[]]]; [assumption|lia|lia]).
      destruct (del_user_track_G t st H Ht) as (st1 & E & C & G). rewrite E. cbn [rbind].
      set (st2 := with_tracks (aset t None (tracks st1)) st1) in *.
      destruct (IH st2 (proj1 G)) as (st' & E' & G').
      + apply Hdec; [exact (ca_shared _ _ C)| |].
        * unfold is_live, key_live. cbn [fst]. destruct (N.leb_spec 4000 t) as [|_]; [lia|]. destruct (N.leb_spec 2000 t) as [|_]; [lia|].
          unfold st2. rewrite live_track_aset, N.eqb_refl. reflexivity.
        * intros [k r]. unfold is_live. cbn [fst]. apply key_live_mono.
          -- intros g Hg. unfold live_sig in *. unfold st2 in Hg. cbn [sigs with_tracks] in Hg.
             rewrite (ca_sigs _ _ C) in Hg. exact Hg.
          -- intros t' Ht'. unfold st2 in Ht'. rewrite live_track_aset in Ht'.
             destruct (N.eqb t' t); [exfalso; apply Ht'; reflexivity|].
             apply (tlive_live st st1 t' (ca_tracks _ _ C)). exact Ht'.
          -- intros c Hc. apply (conn_dom_track_notify _ _ _ E). exact Hc.
      + exists st'. split; [exact E'|eapply Guar_trans; eauto].
  Qed.

  Lemma gc_shared_ok st : WF st -> exists st', gc_shared prog st = Ok st' /\ Guar st st'.
  Proof.
    intro H. unfold gc_shared. apply gc_ok; [exact H|]. unfold lv.
    pose proof (filter_length_le (is_live st) (shared st)). lia.
  Qed.

  Lemma run_ops_ok ops : forall st, WF st -> out_ok st (run_ops prog rec ops st).
  Proof.
    induction ops as [|o ops IH]; intros st H; cbn [run_ops]; [apply Guar_refl; exact H|].
    pose proof (step_ok o st H) as X. destruct (step prog rec o st) as [st1 u|st1|e]; cbn [out_ok] in X.
    - destruct (gc_shared_ok st1 (proj1 X)) as (st2 & E2 & G2). rewrite E2.
      assert (G : Guar st st2) by (eapply Guar_trans; eauto).
      pose proof (IH st2 (proj1 G)) as Y. destruct (run_ops prog rec ops st2); cbn [out_ok] in *;
        try (eapply Guar_trans; eauto); exact Y.
    - exact X.
    - exact X.
  Qed.

  Lemma run_callee_ok c st : WF st -> out_ok st (run_callee prog rec c st).
  Proof.
    intro H. destruct c as [b arg|g arg]; cbn [run_callee].
    - destruct (aget b (p_scripts prog)) as [[ops rs]|]; [|apply Guar_refl; exact H].
      pose proof (run_ops_ok ops st H) as X. destruct (run_ops prog rec ops st); exact X.
    - apply emit_sig_ok. exact H.
  Qed.
End Safe.

(* ------------------------------------------------------------------ *)
(* Closing the knot                                                     *)

Lemma run_callee_fuel_ok prog fuel : forall c st, WF st -> out_ok st (run_callee_fuel prog fuel c st).
Proof.
  induction fuel as [|fuel IH]; intros c st H; cbn [run_callee_fuel].
  - exact safe_fuel.
  - apply run_callee_ok; [exact IH|exact H].
Qed.

Lemma phc_zero_no_ph l : phc (ids l) = O -> forall nd n, In nd l -> n_id nd <> Ph n.
Proof.
  unfold phc, ids. induction l as [|x l IH]; intros Hz nd n Hin; [destruct Hin|].
  cbn [map filter] in Hz. destruct Hin as [<-|Hin].
  - intro E. rewrite E in Hz. cbn [nid_is_ph length] in Hz. discriminate.
  - apply IH; [|exact Hin]. destruct (nid_is_ph (n_id x)); [cbn [length] in Hz; discriminate|exact Hz].
Qed.

Lemma no_ph_phc_zero l : (forall nd n, In nd l -> n_id nd <> Ph n) -> phc (ids l) = O.
Proof.
  unfold phc, ids. induction l as [|x l IH]; intro Hn; [reflexivity|].
  cbn [map filter]. destruct (n_id x) as [k|k] eqn:E; cbn [nid_is_ph].
  - apply IH. intros nd n Hin. apply Hn. right; exact Hin.
  - exfalso. apply (Hn x k); [left; reflexivity|exact E].
Qed.

Lemma Guar_quiescent st st' : quiescent st -> Guar st st' -> quiescent st'.
Proof.
  intros Q [W S] i im' Hi. destruct (sb_impls _ _ S i im' Hi) as [(im & H0 & (S1 & S2 & S3 & S4 & S5 & S6))|(_ & (A & B & C & D & E))].
  - destruct (Q i im H0) as (Q1 & Q2 & Q3 & Q4 & Q5).
    split; [congruence|]. split; [rewrite S5 by exact Q1; exact Q2|]. split; [congruence|]. split; [congruence|].
    apply phc_zero_no_ph. pose proof (no_ph_phc_zero _ Q5). lia.
  - split; [exact A|]. split; [exact C|]. split; [exact B|]. split; [exact D|]. apply phc_zero_no_ph. exact E.
Qed.

Theorem run_top_safe : forall p fuel ops st, WF_top st ->
  match run_top p fuel ops st with Ok st' => WF_top st' | Err e => safe_err e end.
Proof.
  intros p fuel ops. induction ops as [|o ops IH]; intros st [H Q]; cbn [run_top]; [split; assumption|].
  pose proof (step_ok p (run_callee_fuel p fuel) (run_callee_fuel_ok p fuel) o st H) as X.
  destruct (step p (run_callee_fuel p fuel) o st) as [st1 u|st1|e]; cbn [out_ok] in X.
  - destruct (gc_shared_ok p st1 (proj1 X)) as (st2 & E2 & G2). rewrite E2. cbn [rbind].
    assert (G : Guar st st2) by (eapply Guar_trans; eauto).
    apply IH. split; [exact (proj1 G)|eapply Guar_quiescent; eauto].
  - assert (G1 : Guar st (emit_ev EExn st1)) by (eapply Guar_sim_r; [apply sim_emit_ev|exact X]).
    destruct (gc_shared_ok p (emit_ev EExn st1) (proj1 G1)) as (st2 & E2 & G2). rewrite E2. cbn [rbind].
    assert (G : Guar st st2) by (eapply Guar_trans; eauto).
    apply IH. split; [exact (proj1 G)|eapply Guar_quiescent; eauto].
  - exact X.
Qed.

Theorem ll_safe : forall (fuel : nat) (p : program),
  match run_program fuel p with Ok _ => True | Err e => safe_err e end.
Proof.
  intros fuel p. unfold run_program.
  pose proof (run_top_safe p fuel (p_main p) st0 WF_top_st0) as X.
  destruct (run_top p fuel (p_main p) st0); [exact I|exact X].
Qed.

Print Assumptions ll_safe.
Print Assumptions run_top_safe.

(* [all_reps] enumerates exactly the reps reachable through [get_sb] *)
Lemma var_reps_sound st r : WF st -> In r (var_reps st) ->
  exists s sb, get_sb (LVar s) st = Some sb /\ sb_rep sb = Some r.
Proof.
  intros H Hin. apply in_var_reps_l in Hin. destruct Hin as (s & sb & Hi & Hr).
  exists s, sb. split; [|exact Hr]. rewrite get_sb_var.
  rewrite (in_aget_nodup _ _ _ (ws_keys_slots _ (wc_struct _ (wf_c _ H))) Hi). reflexivity.
Qed.

Lemma node_reps_sound st r : WF st -> In r (node_reps st) ->
  exists i n sb, get_sb (LNode i n) st = Some sb /\ sb_rep sb = Some r.
Proof.
  intros H Hin. pose proof (wc_struct _ (wf_c _ H)) as Hs.
  apply in_node_reps_l in Hin. destruct Hin as (i & im & Hi & Hn).
  apply in_nodes_reps in Hn. destruct Hn as (nd & Hnd & Hr).
  pose proof (in_aget_nodup _ _ _ (ws_keys_impls _ Hs) Hi) as Hg.
  exists i, (n_id nd), (n_sb nd). split; [|exact Hr]. rewrite get_sb_node, Hg.
  rewrite (find_node_in_nodup _ _ (proj1 (ws_nodes _ Hs i im Hg)) Hnd). reflexivity.
Qed.

Lemma rep_ids_injective st l l' sb sb' r r' : WF st ->
  get_sb l st = Some sb -> sb_rep sb = Some r -> get_sb l' st = Some sb' -> sb_rep sb' = Some r' ->
  r_id r = r_id r' -> l = l'.
Proof.
  intros H G1 R1 G2 R2 E. destruct (loc_eqb_spec l l') as [|Hne]; [assumption|exfalso].
  destruct (all_reps_set_sb l st sb (mkSB None false) G1) as (A & B & Ea & Ea').
  unfold sb_reps in Ea, Ea'. rewrite R1 in Ea. cbn [sb_rep optl app] in Ea, Ea'.
  assert (G2' : get_sb l' (set_sb l (mkSB None false) st) = Some sb') by (rewrite get_set_sb_other by congruence; exact G2).
  pose proof (get_sb_in_all_reps _ _ _ _ G2' R2) as Hin. rewrite Ea' in Hin.
  pose proof (ws_rids _ (wc_struct _ (wf_c _ H))) as Hnd. rewrite Ea, map_app in Hnd. cbn [map] in Hnd.
  apply NoDup_remove_2 in Hnd. apply Hnd. rewrite <- map_app, E. apply in_map. exact Hin.
Qed.

Print Assumptions wf_conn_target.
Print Assumptions rep_ids_injective.
