(* NestProofs12.v -- auxiliary lemmas for the operations *)
From Coq Require Import List NArith Bool Arith Lia Permutation.
Import ListNotations.
Require Import Util NestModel NestSpec NestProofs1 NestProofs2 NestProofs3 NestProofs4 NestProofs5 NestProofs6 NestProofs7 NestProofs8 NestProofs9 NestProofs10 NestProofs11.
Local Open Scope N_scope.

Lemma ginv_emit : forall T P B st e, GInv T P B st -> GInv T P B (emit e st).
Proof. intros T P B st e HG. constructor; try (destruct HG; assumption). Qed.

Lemma direct_refs_zero : forall t u, ~ In (ITrack t) (items_of u) -> direct_refs t u = O.
Proof.
  intros t u H. rewrite direct_refs_eq. induction (items_of u) as [|it tl IH]; [reflexivity|].
  cbn [filter]. destruct it as [t'|s|v]; cbn [is_track]; try (apply IH; intros Hin; apply H; right; exact Hin).
  destruct (N.eqb t t') eqn:E.
  - apply N.eqb_eq in E. subst t'. exfalso. apply H. left. reflexivity.
  - apply IH. intros Hin. apply H. right. exact Hin.
Qed.

Lemma direct_refs_pos_in : forall t u, direct_refs t u <> O -> In (ITrack t) (items_of u).
Proof.
  intros t u H. rewrite direct_refs_eq in H. induction (items_of u) as [|it tl IH]; [exfalso; apply H; reflexivity|].
  cbn [filter] in H. destruct it as [t'|s|v]; cbn [is_track] in H; try (right; apply IH; exact H).
  destruct (N.eqb t t') eqn:E; [apply N.eqb_eq in E; subst; left; reflexivity | right; apply IH; exact H].
Qed.

Lemma fresh_tr_live : forall t st, fresh_tr t st = true -> live_tr t st = None.
Proof. intros t st H. unfold fresh_tr in H. unfold live_tr. destruct (aget t (tracks st)); [discriminate | reflexivity]. Qed.

Lemma ginv_new_track : forall st t, GInv None [] [] st -> live_tr t st = None ->
  GInv None [] [] (with_tracks (aset t (Some (mkTr [] false)) (tracks st)) st).
Proof.
  intros st t HG Hfresh.
  set (st' := with_tracks (aset t (Some (mkTr [] false)) (tracks st)) st).
  assert (Hl : forall t', live_tr t' st' = if N.eqb t' t then Some (mkTr [] false) else live_tr t' st) by (intros; apply live_tr_set).
  constructor; try (destruct HG; assumption).
  - intros u t' Hu Ht'. rewrite Hl. destruct (N.eqb t' t); [discriminate | exact (gi_track_live _ _ _ _ HG u t' Hu Ht')].
  - intros i t' [].
  - intros t' x Hx Hc. rewrite Hl in Hx. destruct (N.eqb t' t); [injection Hx as <-; discriminate | exact (gi_clearing _ _ _ _ HG t' x Hx Hc)].
  - intros t' x Hx Hc. rewrite Hl in Hx. destruct (N.eqb t' t); [injection Hx as <-; intros e [] | exact (gi_armed _ _ _ _ HG t' x Hx Hc)].
  - intros t' x i Hx. rewrite Hl in Hx. destruct (N.eqb t' t) eqn:E; [|exact (gi_regs _ _ _ _ HG t' x i Hx)].
    injection Hx as <-. apply N.eqb_eq in E. subst t'. cbn [t_regs bcount filter length]. rewrite acount_nil, Nat.add_0_r.
    change (all_reps st') with (all_reps st). unfold drefs. destruct (lk i (all_reps st)) as [r|] eqn:Er; [|reflexivity]. symmetry. apply direct_refs_zero.
    intros Hin. destruct (lk_some _ _ _ Er) as [Hr _]. exact (gi_track_live _ _ _ _ HG r t Hr Hin Hfresh).
Qed.

Lemma ginv_kill_track : forall st t, GInv (Some t) [] [] st ->
  (forall u, In u (all_reps st) -> ~ In (ITrack t) (items_of u)) ->
  GInv None [] [] (with_tracks (aset t None (tracks st)) st).
Proof.
  intros st t HG Hno.
  set (st' := with_tracks (aset t None (tracks st)) st).
  assert (Hl : forall t', live_tr t' st' = if N.eqb t' t then None else live_tr t' st) by (intros; apply live_tr_set).
  constructor; try (destruct HG; assumption).
  - intros u t' Hu Ht'. rewrite Hl. destruct (N.eqb t' t) eqn:E; [|exact (gi_track_live _ _ _ _ HG u t' Hu Ht')].
    apply N.eqb_eq in E. subst t'. exfalso. exact (Hno u Hu Ht').
  - intros i t' [].
  - intros t' x Hx Hc. rewrite Hl in Hx. destruct (N.eqb t' t) eqn:E; [discriminate|].
    pose proof (gi_clearing _ _ _ _ HG t' x Hx Hc) as H. injection H as ->. rewrite N.eqb_refl in E. discriminate.
  - intros t' x Hx Hc. rewrite Hl in Hx. destruct (N.eqb t' t); [discriminate | exact (gi_armed _ _ _ _ HG t' x Hx Hc)].
  - intros t' x i Hx. rewrite Hl in Hx. destruct (N.eqb t' t); [discriminate | exact (gi_regs _ _ _ _ HG t' x i Hx)].
Qed.

Lemma ginv_start_clearing : forall st t x, GInv None [] [] st -> live_tr t st = Some x ->
  GInv (Some t) [] [] (with_tracks (aset t (Some (mkTr (t_regs x) true)) (tracks st)) st).
Proof.
  intros st t x HG Hx.
  set (st' := with_tracks (aset t (Some (mkTr (t_regs x) true)) (tracks st)) st).
  assert (Hl : forall t', live_tr t' st' = if N.eqb t' t then Some (mkTr (t_regs x) true) else live_tr t' st) by (intros; apply live_tr_set).
  constructor; try (destruct HG; assumption).
  - intros u t' Hu Ht'. rewrite Hl. destruct (N.eqb t' t); [discriminate | exact (gi_track_live _ _ _ _ HG u t' Hu Ht')].
  - intros i t' [].
  - intros t' y Hy Hc. rewrite Hl in Hy. destruct (N.eqb t' t) eqn:E; [apply N.eqb_eq in E; subst; reflexivity|].
    pose proof (gi_clearing _ _ _ _ HG t' y Hy Hc). discriminate.
  - intros t' y Hy Hc. rewrite Hl in Hy. destruct (N.eqb t' t); [injection Hy as <-; discriminate | exact (gi_armed _ _ _ _ HG t' y Hy Hc)].
  - intros t' y i Hy. rewrite Hl in Hy. destruct (N.eqb t' t) eqn:E; [|exact (gi_regs _ _ _ _ HG t' y i Hy)].
    injection Hy as <-. apply N.eqb_eq in E. subst t'. cbn [t_regs]. exact (gi_regs _ _ _ _ HG t x i Hx).
Qed.

Lemma cur_reps_nil_live : forall s st u, cur_reps s st = [] -> live_var s st <> Some (Some u).
Proof.
  intros s st u H Hl. rewrite (cur_reps_live s st u Hl) in H. rewrite reps_of_eq in H. discriminate.
Qed.

Lemma ginv_set_null : forall T P B st s, GInv T P B st -> cur_reps s st = [] -> GInv T P B (set_var s (Some None) st).
Proof.
  intros T P B st s HG Hcur.
  destruct (all_reps_set_var s st) as (L1 & L2 & EU & EU'). rewrite Hcur in EU. specialize (EU' (Some None)). cbn [vreps] in EU'.
  assert (E : all_reps (set_var s (Some None) st) = all_reps st) by congruence.
  set (st' := set_var s (Some None) st) in *.
  assert (Hl : forall s', live_var s' st' = if N.eqb s' s then Some None else live_var s' st) by (intros; apply live_var_set_var).
  assert (Hkeep : forall s', live_var s' st <> None -> live_var s' st' <> None).
  { intros s' H. rewrite Hl. destruct (N.eqb s' s); [discriminate | exact H]. }
  assert (Hwit : forall s' u, live_var s' st = Some (Some u) -> live_var s' st' = Some (Some u)).
  { intros s' u H. rewrite Hl. destruct (N.eqb s' s) eqn:E1; [|exact H]. apply N.eqb_eq in E1. subst s'.
    exfalso. exact (cur_reps_nil_live s st u Hcur H). }
  constructor; rewrite ?E; try (destruct HG; assumption).
  - intros u s' Hu Hs'. apply Hkeep. exact (gi_ref_live _ _ _ _ HG u s' Hu Hs').
  - intros i s' Hi. apply Hkeep. exact (gi_bref_live _ _ _ _ HG i s' Hi).
  - intros u p Hu Hp. destruct (gi_parent _ _ _ _ HG u p Hu Hp) as [(q & Hq & Hw)|(s' & Hs' & Hw)].
    + left. exists q. split; [exact Hq|]. destruct Hw as [Hw|(s' & Hs' & Hw)]; [left; exact Hw|].
      right. exists s'. split; [exact Hs' | exact (Hwit s' u Hw)].
    + right. exists s'. split; [exact Hs' | exact (Hwit s' u Hw)].
Qed.

Lemma cl_ok_of_ginv : forall T P B st r, GInv T P B st -> In r (all_reps st) -> cl_ok st r.
Proof.
  intros T P B st r HG Hr x Hx. pose proof (all_reps_sub_closed st r Hr x Hx) as HxU. split; [|split].
  - intros Hv Hfn. rewrite (gi_fnvalid _ _ _ _ HG x HxU Hfn) in Hv. discriminate.
  - intros t Ht. exact (gi_track_live _ _ _ _ HG x t HxU Ht).
  - intros s Hs. exact (gi_ref_live _ _ _ _ HG x s HxU Hs).
Qed.

Lemma var_inj : forall st a b r1 r2, NoDup (ids (all_reps st)) ->
  live_var a st = Some (Some r1) -> live_var b st = Some (Some r2) -> r_id r1 = r_id r2 -> a = b.
Proof.
  intros st a b r1 r2 Hnd Ha Hb E. destruct (N.eq_dec a b) as [Hab|Hab]; [exact Hab|]. exfalso.
  destruct (all_reps_set_var a st) as (L1 & L2 & EU & EU'). rewrite (cur_reps_live a st r1 Ha) in EU.
  specialize (EU' (Some None)). cbn [vreps app] in EU'.
  assert (Hb' : live_var b (set_var a (Some None) st) = Some (Some r2)).
  { rewrite live_var_set_var. assert (Hne : N.eqb b a = false) by (apply N.eqb_neq; congruence). rewrite Hne. exact Hb. }
  pose proof (live_var_in _ _ _ Hb') as Hin. rewrite EU' in Hin. rewrite EU in Hnd.
  exact (ids_mid_disj L1 (reps_of r1) L2 r2 r1 Hnd Hin (reps_of_self r1) (eq_sym E)).
Qed.

Lemma aset_twice : forall (A : Type) k (v v' : A) l, aset k v (aset k v' l) = aset k v l.
Proof.
  intros A k v v' l. induction l as [|[k0 w] tl IH]; cbn [aset].
  - rewrite N.eqb_refl. reflexivity.
  - destruct (N.eqb k k0) eqn:E; cbn [aset]; rewrite E; [reflexivity | rewrite IH; reflexivity].
Qed.

Lemma set_var_twice : forall s v v' st, set_var s v (set_var s v' st) = set_var s v st.
Proof. intros. unfold set_var, with_vars. cbn [vars tracks next_id ntrace]. rewrite aset_twice. reflexivity. Qed.

(* ---- a tree that may be put into a variable ---- *)
Definition WfNew (st : nstate) (c : rep) : Prop :=
  NoDup (ids (reps_of c)) /\
  (forall x, In x (reps_of c) -> 0 < r_id x /\ r_id x < next_id st /\ ~ In (r_id x) (ids (all_reps st))) /\
  (forall q k, In q (reps_of c) -> In k (kids (items_of q)) -> r_parent k = Some (r_id q)) /\
  (forall x, In x (reps_of c) -> r_fn x = None -> r_valid x = false) /\
  (forall q k, In q (reps_of c) -> In k (kids (items_of q)) -> r_fn k <> None).

Lemma wfnew_frame : forall st st' c, WfNew st c -> incl (ids (all_reps st')) (ids (all_reps st)) -> next_id st <= next_id st' -> WfNew st' c.
Proof.
  intros st st' c (H1 & H2 & H3 & H4 & H5) Hi Hn. split; [exact H1|]. split; [|repeat split; assumption].
  intros x Hx. destruct (H2 x Hx) as (A & B & C). split; [exact A|]. split; [lia|]. intros Hin. apply C. apply Hi. exact Hin.
Qed.

Lemma wfnew_set_parent : forall st c p, WfNew st c -> WfNew st (set_parent p c).
Proof.
  intros st c p (H1 & H2 & H3 & H4 & H5).
  assert (Hx : forall x, In x (reps_of (set_parent p c)) -> exists y, In y (reps_of c) /\ r_id x = r_id y /\ items_of x = items_of y /\ r_valid x = r_valid y /\ r_fn x = r_fn y).
  { intros x Hx. rewrite reps_of_spk in Hx. destruct Hx as [<-|Hx].
    - exists c. split; [apply reps_of_self|]. repeat split; reflexivity.
    - exists x. split; [rewrite reps_of_eq; right; exact Hx|]. repeat split; reflexivity. }
  split; [|split; [|split; [|split]]].
  - rewrite reps_of_spk. rewrite reps_of_eq in H1. exact H1.
  - intros x Hin. destruct (Hx x Hin) as (y & Hy & E & _). rewrite E. exact (H2 y Hy).
  - intros q k Hq Hk. destruct (Hx q Hq) as (y & Hy & E & Eit & _). rewrite Eit in Hk. rewrite E. exact (H3 y k Hy Hk).
  - intros x Hin Hfn. destruct (Hx x Hin) as (y & Hy & _ & _ & Ev & Ef). rewrite Ev. apply (H4 y Hy). congruence.
  - intros q k Hq Hk. destruct (Hx q Hq) as (y & Hy & _ & Eit & _). rewrite Eit in Hk. exact (H5 y k Hy Hk).
Qed.

Lemma wfnew_of_NewF : forall T P B st0 st lo hi c, GInv T P B st0 -> NewF lo hi [c] ->
  next_id st0 <= lo -> hi <= next_id st -> incl (ids (all_reps st)) (ids (all_reps st0)) -> WfNew st c.
Proof.
  intros T P B st0 st lo hi c HG (N1 & N2 & N3 & N4) Hlo Hhi Hincl.
  rewrite RL_cons in *. cbn [RL flat_map] in *. rewrite app_nil_r in *.
  pose proof (gi_next _ _ _ _ HG) as Hpos.
  split; [exact N1|]. split; [|split; [exact N3|split]].
  - intros x Hx. destruct (N2 x Hx) as [A B']. split; [lia|]. split; [lia|].
    intros Hin. apply Hincl in Hin. unfold ids in Hin. apply in_map_iff in Hin. destruct Hin as (y & Ey & Hy).
    destruct (gi_idpos _ _ _ _ HG y Hy). lia.
  - intros x Hx Hfn. destruct (N4 x Hx) as [_ Hf]. contradiction.
  - intros q k Hq Hk. apply (N4 k). apply (reps_of_trans c q Hq). apply (reps_of_kid q k Hk). apply reps_of_self.
Qed.

Lemma wfnew_of_removed : forall T B st s r v, GInv T [] B st -> live_var s st = Some (Some r) ->
  (v = None \/ v = Some None) -> WfNew (set_var s v st) r.
Proof.
  intros T B st s r v HG Hs Hv.
  destruct (all_reps_set_var s st) as (L1 & L2 & EU & EU'). rewrite (cur_reps_live s st r Hs) in EU. specialize (EU' v).
  assert (Ev : vreps v = []) by (destruct Hv as [->| ->]; reflexivity). rewrite Ev in EU'. cbn [app] in EU'.
  pose proof (gi_nodup _ _ _ _ HG) as Hnd. pose proof (live_var_in _ _ _ Hs) as Hr.
  assert (Hsub : forall x, In x (reps_of r) -> In x (all_reps st)) by (intros x Hx; exact (all_reps_sub_closed st r Hr x Hx)).
  split; [eapply NoDup_sub_st; eassumption|]. split; [|split; [|split]].
  - intros x Hx. destruct (gi_idpos _ _ _ _ HG x (Hsub x Hx)) as [A B']. split; [exact A|]. split; [exact B'|].
    rewrite EU'. intros Hin. unfold ids in Hin. apply in_map_iff in Hin. destruct Hin as (y & Ey & Hy).
    rewrite EU in Hnd. exact (ids_mid_disj L1 (reps_of r) L2 y x Hnd Hy Hx Ey).
  - intros q k Hq Hk. destruct (gi_vcp _ _ _ _ HG q k (Hsub q Hq) Hk) as [H|[_ []]]. exact H.
  - intros x Hx. exact (gi_fnvalid _ _ _ _ HG x (Hsub x Hx)).
  - intros q k Hq Hk Hfn. exact (gi_kidfn _ _ _ _ HG q k (Hsub q Hq) Hk Hfn).
Qed.

Lemma ginv_insert' : forall T B st d c,
  GInv T [] (bindings (reps_of c) ++ B) st -> cur_reps d st = [] -> WfNew st c ->
  (forall p, r_parent c = Some p ->
      (exists q, lk p (all_reps st) = Some q /\ In (IRef d) (items_of q)) \/ In (p, IRef d) (bindings (reps_of c) ++ B)) ->
  GInv T [] B (set_var d (Some (Some c)) st).
Proof.
  intros T B st d c HG Hcur (H1 & H2 & H3 & H4 & H5) Hpar.
  apply ginv_insert; try assumption. intros u. apply cur_reps_nil_live. exact Hcur.
Qed.
