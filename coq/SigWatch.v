From Coq Require Import List NArith Bool Lia Arith Permutation. Import ListNotations. Require Import Util SigCore SigLemmas SigInv SigSafe SigSpec SigQuiesce SigConn. Local Open Scope N_scope.

(* SigWatch.v -- watch lists are exact on reachable states (SigSpec.v, last section).

   WF only has "a non-null handle is registered at its target" (wf_conn_target).  The converse,
   "a handle registered at an element points at it, and at most once", is the invariant W below.  It is
   robust: it holds at every intermediate state inside the library primitives (unregistering comes
   before re-pointing, and a rep taken out of its list has its watchers nulled before anything else
   looks at them), so it is threaded through the primitives without exemption sets.  The only
   structural facts it needs are that impl keys and node ids are unique (ST), which are threaded
   alongside (they also follow from WF wherever WF is known).
   Part 1: the invariant and its frames; part 2: primitives; part 3: slot variables;
   part 4-5: the interpreter; part 6: the statements. *)

(* ------------------------------------------------------------------ *)
(* Part 1: the invariant                                                *)

Definition sbw (sb : slotbase) : list wref := match sb_rep sb with Some r => r_watch r | None => [] end.
Definition watl (l : list node) (n : nid) : list wref :=
  match find_node n l with Some nd => sbw (n_sb nd) | None => [] end.
(* the watch list of element n of impl i ([] when there is none) *)
Definition wat (st : state) (i : N) (n : nid) : list wref :=
  match aget i (impls st) with Some im => watl (i_nodes im) n | None => [] end.

Definition W (st : state) : Prop :=
  forall i n, NoDup (wat st i n) /\ forall w, In w (wat st i n) -> get_connptr w st = Some (Some (i, n)).
Definition ST (st : state) : Prop :=
  NoDup (akeys (impls st)) /\ forall i im, aget i (impls st) = Some im -> NoDup (ids (i_nodes im)).
Definition WN (st : state) : Prop := W st /\ ST st.

Definition unreg (w : wref) (st : state) : Prop := forall i n, ~ In w (wat st i n).

Lemma wat_get_sb st i n :
  wat st i n = match get_sb (LNode i n) st with Some sb => sbw sb | None => [] end.
Proof.
  unfold wat, watl. rewrite get_sb_node. destruct (aget i (impls st)) as [im|]; [|reflexivity].
  destruct (find_node n (i_nodes im)); reflexivity.
Qed.

Lemma wat_impls st st' i n : impls st' = impls st -> wat st' i n = wat st i n.
Proof. unfold wat. intros ->. reflexivity. Qed.

Lemma unreg_impls st st' w : impls st' = impls st -> unreg w st -> unreg w st'.
Proof. intros E H i n. rewrite (wat_impls _ _ _ _ E). apply H. Qed.

Lemma ST_of_WFc st : WFc st -> ST st.
Proof.
  intros Hc. pose proof (wc_struct _ Hc) as Hs. split; [exact (ws_keys_impls _ Hs)|].
  intros i im Hi. exact (proj1 (ws_nodes _ Hs i im Hi)).
Qed.

Lemma ST_of_WF st : WF st -> ST st.
Proof. intro H. apply ST_of_WFc. exact (wf_c _ H). Qed.

Lemma W_unreg_at st w i n : W st -> get_connptr w st = Some (Some (i, n)) -> ~ In w (wat st i n) -> unreg w st.
Proof.
  intros HW Hp Hn j m Hin. pose proof (proj2 (HW j m) w Hin) as Z. rewrite Hp in Z. inversion Z; subst. contradiction.
Qed.

Lemma W_unreg_null st w : W st -> (forall i n, get_connptr w st <> Some (Some (i, n))) -> unreg w st.
Proof. intros HW Hp j m Hin. exact (Hp j m (proj2 (HW j m) w Hin)). Qed.

Definition wle (st st' : state) : Prop := forall i n, wat st' i n = [] \/ wat st' i n = wat st i n.

Lemma W_upd st st' : W st -> wle st st' ->
  (forall w, get_connptr w st' = get_connptr w st \/ unreg w st') -> W st'.
Proof.
  intros HW Hle Hp i n. destruct (Hle i n) as [E|E]; rewrite E.
  - split; [constructor|intros w []].
  - destruct (HW i n) as (A & B). split; [exact A|]. intros w Hin. destruct (Hp w) as [P|P].
    + rewrite P. auto.
    + exfalso. apply (P i n). rewrite E. exact Hin.
Qed.

(* states that agree on impls and on the connection tables *)
Definition keep (st st' : state) : Prop :=
  impls st' = impls st /\ conns st' = conns st /\ sconns st' = sconns st.

Lemma keep_refl st : keep st st.
Proof. repeat split. Qed.

Lemma keep_trans a b c : keep a b -> keep b c -> keep a c.
Proof. intros (A1 & A2 & A3) (B1 & B2 & B3). repeat split; congruence. Qed.

Lemma WN_ptr st st' : WN st -> impls st' = impls st ->
  (forall w, get_connptr w st' = get_connptr w st \/ unreg w st) -> WN st'.
Proof.
  intros (HW & HS) Ei Hp. split.
  - apply (W_upd st); [exact HW| |].
    + intros i n. right. apply wat_impls. exact Ei.
    + intro w. destruct (Hp w) as [P|P]; [left; exact P|right; eapply unreg_impls; eauto].
  - unfold ST. rewrite Ei. exact HS.
Qed.

Lemma WN_keep st st' : keep st st' -> WN st -> WN st'.
Proof.
  intros (A & B & C) H. apply (WN_ptr st); [exact H|exact A|]. intro w. left. apply get_connptr_eq; assumption.
Qed.

Lemma unreg_keep st st' w : keep st st' -> unreg w st -> unreg w st'.
Proof. intros (A & _). apply unreg_impls. exact A. Qed.

(* lists of one impl *)
Definition wlel (l l' : list node) : Prop := forall n, watl l' n = [] \/ watl l' n = watl l n.
Definition nle (l l' : list node) : Prop := NoDup (ids l) -> NoDup (ids l') /\ wlel l l'.

Lemma wat_set_impl i im' st j n :
  wat (set_impl i im' st) j n = if N.eqb j i then watl (i_nodes im') n else wat st j n.
Proof. unfold wat. rewrite aget_set_impl. destruct (N.eqb j i); reflexivity. Qed.

Lemma get_connptr_set_impl i im' st w : get_connptr w (set_impl i im' st) = get_connptr w st.
Proof. apply get_connptr_eq; reflexivity. Qed.

Lemma W_set_impl i im im' st : W st -> aget i (impls st) = Some im -> wlel (i_nodes im) (i_nodes im') ->
  W (set_impl i im' st).
Proof.
  intros HW Hi Hl. apply (W_upd st); [exact HW| |intro w; left; apply get_connptr_set_impl].
  intros j n. rewrite wat_set_impl. destruct (N.eqb_spec j i) as [->|Hne]; [|right; reflexivity].
  unfold wat. rewrite Hi. apply Hl.
Qed.

Lemma ST_set_impl i im' st : ST st -> NoDup (ids (i_nodes im')) -> ST (set_impl i im' st).
Proof.
  intros (K & Hn) Hnd. split.
  - unfold set_impl. cbn [impls with_impls]. apply nodup_keys_aset. exact K.
  - intros j imj. rewrite aget_set_impl. destruct (N.eqb_spec j i) as [->|Hne]; [|apply Hn].
    intro E. inversion E; subst. exact Hnd.
Qed.

Lemma WN_set_impl i im im' st : WN st -> aget i (impls st) = Some im -> nle (i_nodes im) (i_nodes im') ->
  WN (set_impl i im' st).
Proof.
  intros (HW & HS) Hi Hl. destruct (Hl (proj2 HS i im Hi)) as (A & B).
  split; [eapply W_set_impl; eauto|apply ST_set_impl; assumption].
Qed.

Lemma WN_new_impl i im' st : WN st -> aget i (impls st) = None -> i_nodes im' = [] -> WN (set_impl i im' st).
Proof.
  intros (HW & HS) Hi Hn. split; [|apply ST_set_impl; [exact HS|rewrite Hn; constructor]].
  apply (W_upd st); [exact HW| |intro w; left; apply get_connptr_set_impl].
  intros j n. rewrite wat_set_impl. destruct (N.eqb_spec j i) as [->|Hne]; [|right; reflexivity].
  left. unfold watl. rewrite Hn. reflexivity.
Qed.

Lemma WN_adel i st : WN st -> WN (with_impls (adel i (impls st)) st).
Proof.
  intros (HW & (K & Hn)). split; [|split].
  - apply (W_upd st); [exact HW| |intro w; left; apply get_connptr_eq; reflexivity].
    intros j n. unfold wat. cbn [impls with_impls]. destruct (N.eq_dec j i) as [->|Hne].
    + rewrite aget_adel_same by exact K. left. reflexivity.
    + rewrite aget_adel_other by exact Hne. right. reflexivity.
  - cbn [impls with_impls]. apply nodup_keys_adel. exact K.
  - cbn [impls with_impls]. intros j imj. destruct (N.eq_dec j i) as [->|Hne].
    + rewrite aget_adel_same by exact K. discriminate.
    + rewrite aget_adel_other by exact Hne. apply Hn.
Qed.

Lemma nle_refl l : nle l l.
Proof. intro H. split; [exact H|]. intro n. right. reflexivity. Qed.

Lemma nle_same_ids l l' : ids l' = ids l -> wlel l l' -> nle l l'.
Proof. intros E H Hnd. split; [rewrite E; exact Hnd|exact H]. Qed.

Lemma nle_nil l : nle l [].
Proof. intros _. split; [constructor|]. intro n. left. reflexivity. Qed.

Lemma NoDup_ids_del n l : NoDup (ids l) -> NoDup (ids (del_node n l)).
Proof.
  unfold ids. induction l as [|x l IH]; cbn [del_node map]; intro H; [constructor|].
  inversion H as [|? ? H1 H2]; subst. destruct (nid_eqb (n_id x) n); [exact H2|].
  cbn [map]. constructor; [|apply IH; exact H2].
  intro Hin. apply H1. clear -Hin. induction l as [|y l IH]; cbn [del_node map] in *; [contradiction|].
  destruct (nid_eqb (n_id y) n); [right; exact Hin|]. cbn [map In] in Hin. destruct Hin as [E|Hin]; [left; exact E|right; auto].
Qed.

Lemma nle_del_node n l : nle l (del_node n l).
Proof.
  intro Hnd. split; [apply NoDup_ids_del; exact Hnd|]. intro m. unfold watl.
  destruct (nid_eq_dec m n) as [->|Hne].
  - left. rewrite find_node_del_same by exact Hnd. reflexivity.
  - right. rewrite find_node_del_other by exact Hne. reflexivity.
Qed.

Lemma nle_set_node n sb' l :
  (forall nd, find_node n l = Some nd -> sbw sb' = [] \/ sbw sb' = sbw (n_sb nd)) -> nle l (set_node n sb' l).
Proof.
  intro H. apply nle_same_ids; [apply ids_set_node|]. intro m. unfold watl. rewrite find_node_set_node.
  destruct (nid_eqb_spec m n) as [->|Hne]; [|right; reflexivity].
  destruct (find_node n l) as [nd|]; [|left; reflexivity]. cbn [n_sb]. exact (H nd eq_refl).
Qed.

Lemma nle_map_blocked b l : nle l (map (fun x => mkNode (n_id x) (mkSB (sb_rep (n_sb x)) b)) l).
Proof.
  apply nle_same_ids; [apply ids_map_blocked|]. intro m. right. unfold watl. rewrite find_node_map_blocked.
  destruct (find_node m l); reflexivity.
Qed.

(* set_sb *)
Lemma wat_set_sb l sb sb' st j m : get_sb l st = Some sb ->
  wat (set_sb l sb' st) j m = if loc_eqb (LNode j m) l then sbw sb' else wat st j m.
Proof.
  intro G. rewrite !wat_get_sb. destruct (loc_eqb_spec (LNode j m) l) as [<-|Hne].
  - rewrite (get_set_sb_same _ _ _ _ G). reflexivity.
  - rewrite get_set_sb_other by exact Hne. reflexivity.
Qed.

Lemma ST_set_sb l sb' st : ST st -> ST (set_sb l sb' st).
Proof.
  intro HS. destruct l as [s|i n]; [exact HS|]. unfold set_sb. destruct (aget i (impls st)) as [im|] eqn:Hi; [|exact HS].
  apply ST_set_impl; [exact HS|]. cbn [i_nodes with_nodes]. rewrite ids_set_node. exact (proj2 HS i im Hi).
Qed.

Lemma WN_set_sb l sb sb' st : WN st -> get_sb l st = Some sb -> (sbw sb' = [] \/ sbw sb' = sbw sb) ->
  WN (set_sb l sb' st).
Proof.
  intros (HW & HS) G Hw. split; [|apply ST_set_sb; exact HS].
  apply (W_upd st); [exact HW| |intro w; left; apply get_connptr_set_sb].
  intros j m. rewrite (wat_set_sb _ _ _ _ _ _ G). destruct (loc_eqb_spec (LNode j m) l) as [<-|Hne]; [|right; reflexivity].
  rewrite (wat_get_sb st j m), G. exact Hw.
Qed.

Lemma keep_set_sb_var s sb st : keep st (set_sb (LVar s) sb st).
Proof. repeat split. Qed.

Lemma unreg_set_sb l sb sb' st w : unreg w st -> get_sb l st = Some sb -> ~ In w (sbw sb') -> unreg w (set_sb l sb' st).
Proof.
  intros H G Hn j m. rewrite (wat_set_sb _ _ _ _ _ _ G). destruct (loc_eqb (LNode j m) l); [exact Hn|apply H].
Qed.

(* pointers *)
Lemma null_watchers_w ws st : WN st -> (forall w, In w ws -> unreg w st) -> WN (null_watchers ws st).
Proof.
  intros H Hu. apply (WN_ptr st); [exact H|exact (proj1 (proj2 (proj2 (null_watchers_fields ws st))))|].
  intro w. rewrite get_connptr_null_watchers. destruct (existsb (wref_eqb w) ws) eqn:E; [|left; reflexivity].
  right. apply Hu. apply existsb_wref. exact E.
Qed.

Lemma set_connptr_w w p st : WN st -> unreg w st -> WN (set_connptr w p st).
Proof.
  intros H Hu. apply (WN_ptr st); [exact H|exact (sh_impls _ _ (set_connptr_heavy w p st))|].
  intro w'. rewrite get_set_connptr. destruct (wref_eqb_spec w' w) as [->|Hne]; [right; exact Hu|left; reflexivity].
Qed.
