From Coq Require Import List NArith Bool Lia Arith Permutation. Import ListNotations. Require Import Util SigCore SigLemmas SigInv SigSafe SigSpec SigQuiesce SigConn. Local Open Scope N_scope.

(* SigWatch.v -- watch lists are exact on reachable states (SigSpec.v, last section).

   WF only has "a non-null handle is registered at its target" (wf_conn_target).  The converse,
   "a handle registered at an element points at it, and at most once", is the invariant W below.  It is
   robust: it holds at every intermediate state inside the library primitives (unregistering comes
   before re-pointing, and a rep taken out of its list has its watchers nulled before anything else
   looks at them), so it is threaded through the primitives without exemption sets.  The only
   structural facts it needs are that impl keys and node ids are unique (ST), which are threaded
   alongside (they also follow from WF wherever WF is known).
   Part 1: the invariant and its frames; part 2: primitives; part 3: slot variables;
   part 4-5: the interpreter; part 6: the statements. *)

(* ------------------------------------------------------------------ *)
(* Part 1: the invariant                                                *)

Definition sbw (sb : slotbase) : list wref := match sb_rep sb with Some r => r_watch r | None => [] end.
Definition watl (l : list node) (n : nid) : list wref :=
  match find_node n l with Some nd => sbw (n_sb nd) | None => [] end.
(* the watch list of element n of impl i ([] when there is none) *)
Definition wat (st : state) (i : N) (n : nid) : list wref :=
  match aget i (impls st) with Some im => watl (i_nodes im) n | None => [] end.

Definition W (st : state) : Prop :=
  forall i n, NoDup (wat st i n) /\ forall w, In w (wat st i n) -> get_connptr w st = Some (Some (i, n)).
Definition ST (st : state) : Prop :=
  NoDup (akeys (impls st)) /\ forall i im, aget i (impls st) = Some im -> NoDup (ids (i_nodes im)).
Definition WN (st : state) : Prop := W st /\ ST st.

Definition unreg (w : wref) (st : state) : Prop := forall i n, ~ In w (wat st i n).

Lemma wat_get_sb st i n :
  wat st i n = match get_sb (LNode i n) st with Some sb => sbw sb | None => [] end.
Proof.
  unfold wat, watl. rewrite get_sb_node. destruct (aget i (impls st)) as [im|]; [|reflexivity].
  destruct (find_node n (i_nodes im)); reflexivity.
Qed.

Lemma wat_impls st st' i n : impls st' = impls st -> wat st' i n = wat st i n.
Proof. unfold wat. intros ->. reflexivity. Qed.

Lemma unreg_impls st st' w : impls st' = impls st -> unreg w st -> unreg w st'.
Proof. intros E H i n. rewrite (wat_impls _ _ _ _ E). apply H. Qed.

Lemma ST_of_WFc st : WFc st -> ST st.
Proof.
  intros Hc. pose proof (wc_struct _ Hc) as Hs. split; [exact (ws_keys_impls _ Hs)|].
  intros i im Hi. exact (proj1 (ws_nodes _ Hs i im Hi)).
Qed.

Lemma ST_of_WF st : WF st -> ST st.
Proof. intro H. apply ST_of_WFc. exact (wf_c _ H). Qed.

Lemma W_unreg_at st w i n : W st -> get_connptr w st = Some (Some (i, n)) -> ~ In w (wat st i n) -> unreg w st.
Proof.
  intros HW Hp Hn j m Hin. pose proof (proj2 (HW j m) w Hin) as Z. rewrite Hp in Z. inversion Z; subst. contradiction.
Qed.

Lemma W_unreg_null st w : W st -> (forall i n, get_connptr w st <> Some (Some (i, n))) -> unreg w st.
Proof. intros HW Hp j m Hin. exact (Hp j m (proj2 (HW j m) w Hin)). Qed.

Definition wle (st st' : state) : Prop := forall i n, wat st' i n = [] \/ wat st' i n = wat st i n.

Lemma W_upd st st' : W st -> wle st st' ->
  (forall w, get_connptr w st' = get_connptr w st \/ unreg w st') -> W st'.
Proof.
  intros HW Hle Hp i n. destruct (Hle i n) as [E|E]; rewrite E.
  - split; [constructor|intros w []].
  - destruct (HW i n) as (A & B). split; [exact A|]. intros w Hin. destruct (Hp w) as [P|P].
    + rewrite P. auto.
    + exfalso. apply (P i n). rewrite E. exact Hin.
Qed.

(* states that agree on impls and on the connection tables *)
Definition keep (st st' : state) : Prop :=
  impls st' = impls st /\ conns st' = conns st /\ sconns st' = sconns st.

Lemma keep_refl st : keep st st.
Proof. repeat split. Qed.

Lemma keep_trans a b c : keep a b -> keep b c -> keep a c.
Proof. intros (A1 & A2 & A3) (B1 & B2 & B3). repeat split; congruence. Qed.

Lemma W_ptr st st' : W st -> impls st' = impls st ->
  (forall w, get_connptr w st' = get_connptr w st \/ unreg w st) -> W st'.
Proof.
  intros HW Ei Hp. apply (W_upd st); [exact HW| |].
  - intros i n. right. apply wat_impls. exact Ei.
  - intro w. destruct (Hp w) as [P|P]; [left; exact P|right; eapply unreg_impls; eauto].
Qed.

Lemma WN_ptr st st' : WN st -> impls st' = impls st ->
  (forall w, get_connptr w st' = get_connptr w st \/ unreg w st) -> WN st'.
Proof.
  intros (HW & HS) Ei Hp. split; [eapply W_ptr; eauto|]. unfold ST. rewrite Ei. exact HS.
Qed.

Lemma W_keep st st' : keep st st' -> W st -> W st'.
Proof.
  intros (A & B & C) H. apply (W_ptr st); [exact H|exact A|]. intro w. left. apply get_connptr_eq; assumption.
Qed.

Lemma WN_keep st st' : keep st st' -> WN st -> WN st'.
Proof.
  intros K (HW & HS). split; [eapply W_keep; eauto|]. unfold ST. rewrite (proj1 K). exact HS.
Qed.

Lemma unreg_keep st st' w : keep st st' -> unreg w st -> unreg w st'.
Proof. intros (A & _). apply unreg_impls. exact A. Qed.

(* lists of one impl *)
Definition wlel (l l' : list node) : Prop := forall n, watl l' n = [] \/ watl l' n = watl l n.
Definition nle (l l' : list node) : Prop := NoDup (ids l) -> NoDup (ids l') /\ wlel l l'.

Lemma wat_set_impl i im' st j n :
  wat (set_impl i im' st) j n = if N.eqb j i then watl (i_nodes im') n else wat st j n.
Proof. unfold wat. rewrite aget_set_impl. destruct (N.eqb j i); reflexivity. Qed.

Lemma get_connptr_set_impl i im' st w : get_connptr w (set_impl i im' st) = get_connptr w st.
Proof. apply get_connptr_eq; reflexivity. Qed.

Lemma W_set_impl i im im' st : W st -> aget i (impls st) = Some im -> wlel (i_nodes im) (i_nodes im') ->
  W (set_impl i im' st).
Proof.
  intros HW Hi Hl. apply (W_upd st); [exact HW| |intro w; left; apply get_connptr_set_impl].
  intros j n. rewrite wat_set_impl. destruct (N.eqb_spec j i) as [->|Hne]; [|right; reflexivity].
  unfold wat. rewrite Hi. apply Hl.
Qed.

Lemma ST_set_impl i im' st : ST st -> NoDup (ids (i_nodes im')) -> ST (set_impl i im' st).
Proof.
  intros (K & Hn) Hnd. split.
  - unfold set_impl. cbn [impls with_impls]. apply nodup_keys_aset. exact K.
  - intros j imj. rewrite aget_set_impl. destruct (N.eqb_spec j i) as [->|Hne]; [|apply Hn].
    intro E. inversion E; subst. exact Hnd.
Qed.

Lemma WN_set_impl i im im' st : WN st -> aget i (impls st) = Some im -> nle (i_nodes im) (i_nodes im') ->
  WN (set_impl i im' st).
Proof.
  intros (HW & HS) Hi Hl. destruct (Hl (proj2 HS i im Hi)) as (A & B).
  split; [eapply W_set_impl; eauto|apply ST_set_impl; assumption].
Qed.

Lemma WN_new_impl i im' st : WN st -> aget i (impls st) = None -> i_nodes im' = [] -> WN (set_impl i im' st).
Proof.
  intros (HW & HS) Hi Hn. split; [|apply ST_set_impl; [exact HS|rewrite Hn; constructor]].
  apply (W_upd st); [exact HW| |intro w; left; apply get_connptr_set_impl].
  intros j n. rewrite wat_set_impl. destruct (N.eqb_spec j i) as [->|Hne]; [|right; reflexivity].
  left. unfold watl. rewrite Hn. reflexivity.
Qed.

Lemma WN_adel i st : WN st -> WN (with_impls (adel i (impls st)) st).
Proof.
  intros (HW & (K & Hn)). split; [|split].
  - apply (W_upd st); [exact HW| |intro w; left; apply get_connptr_eq; reflexivity].
    intros j n. unfold wat. cbn [impls with_impls]. destruct (N.eq_dec j i) as [->|Hne].
    + rewrite aget_adel_same by exact K. left. reflexivity.
    + rewrite aget_adel_other by exact Hne. right. reflexivity.
  - cbn [impls with_impls]. apply nodup_keys_adel. exact K.
  - cbn [impls with_impls]. intros j imj. destruct (N.eq_dec j i) as [->|Hne].
    + rewrite aget_adel_same by exact K. discriminate.
    + rewrite aget_adel_other by exact Hne. apply Hn.
Qed.

Lemma nle_refl l : nle l l.
Proof. intro H. split; [exact H|]. intro n. right. reflexivity. Qed.

Lemma nle_same_ids l l' : ids l' = ids l -> wlel l l' -> nle l l'.
Proof. intros E H Hnd. split; [rewrite E; exact Hnd|exact H]. Qed.

Lemma nle_nil l : nle l [].
Proof. intros _. split; [constructor|]. intro n. left. reflexivity. Qed.

Lemma NoDup_ids_del n l : NoDup (ids l) -> NoDup (ids (del_node n l)).
Proof.
  unfold ids. induction l as [|x l IH]; cbn [del_node map]; intro H; [constructor|].
  inversion H as [|? ? H1 H2]; subst. destruct (nid_eqb (n_id x) n); [exact H2|].
  cbn [map]. constructor; [|apply IH; exact H2].
  intro Hin. apply H1. clear -Hin. induction l as [|y l IH]; cbn [del_node map] in *; [contradiction|].
  destruct (nid_eqb (n_id y) n); [right; exact Hin|]. cbn [map In] in Hin. destruct Hin as [E|Hin]; [left; exact E|right; auto].
Qed.

Lemma nle_del_node n l : nle l (del_node n l).
Proof.
  intro Hnd. split; [apply NoDup_ids_del; exact Hnd|]. intro m. unfold watl.
  destruct (nid_eq_dec m n) as [->|Hne].
  - left. rewrite find_node_del_same by exact Hnd. reflexivity.
  - right. rewrite find_node_del_other by exact Hne. reflexivity.
Qed.

Lemma nle_set_node n sb' l :
  (forall nd, find_node n l = Some nd -> sbw sb' = [] \/ sbw sb' = sbw (n_sb nd)) -> nle l (set_node n sb' l).
Proof.
  intro H. apply nle_same_ids; [apply ids_set_node|]. intro m. unfold watl. rewrite find_node_set_node.
  destruct (nid_eqb_spec m n) as [->|Hne]; [|right; reflexivity].
  destruct (find_node n l) as [nd|]; [|left; reflexivity]. cbn [n_sb]. exact (H nd eq_refl).
Qed.

Lemma nle_map_blocked b l : nle l (map (fun x => mkNode (n_id x) (mkSB (sb_rep (n_sb x)) b)) l).
Proof.
  apply nle_same_ids; [apply ids_map_blocked|]. intro m. right. unfold watl. rewrite find_node_map_blocked.
  destruct (find_node m l); reflexivity.
Qed.

(* set_sb *)
Lemma wat_set_sb l sb sb' st j m : get_sb l st = Some sb ->
  wat (set_sb l sb' st) j m = if loc_eqb (LNode j m) l then sbw sb' else wat st j m.
Proof.
  intro G. rewrite !wat_get_sb. destruct (loc_eqb_spec (LNode j m) l) as [<-|Hne].
  - rewrite (get_set_sb_same _ _ _ _ G). reflexivity.
  - rewrite get_set_sb_other by exact Hne. reflexivity.
Qed.

Lemma ST_set_sb l sb' st : ST st -> ST (set_sb l sb' st).
Proof.
  intro HS. destruct l as [s|i n]; [exact HS|]. unfold set_sb. destruct (aget i (impls st)) as [im|] eqn:Hi; [|exact HS].
  apply ST_set_impl; [exact HS|]. cbn [i_nodes with_nodes]. rewrite ids_set_node. exact (proj2 HS i im Hi).
Qed.

Lemma WN_set_sb l sb sb' st : WN st -> get_sb l st = Some sb -> (sbw sb' = [] \/ sbw sb' = sbw sb) ->
  WN (set_sb l sb' st).
Proof.
  intros (HW & HS) G Hw. split; [|apply ST_set_sb; exact HS].
  apply (W_upd st); [exact HW| |intro w; left; apply get_connptr_set_sb].
  intros j m. rewrite (wat_set_sb _ _ _ _ _ _ G). destruct (loc_eqb_spec (LNode j m) l) as [<-|Hne]; [|right; reflexivity].
  rewrite (wat_get_sb st j m), G. exact Hw.
Qed.

Lemma keep_set_sb_var s sb st : keep st (set_sb (LVar s) sb st).
Proof. repeat split. Qed.

Lemma unreg_set_sb l sb sb' st w : unreg w st -> get_sb l st = Some sb -> ~ In w (sbw sb') -> unreg w (set_sb l sb' st).
Proof.
  intros H G Hn j m. rewrite (wat_set_sb _ _ _ _ _ _ G). destruct (loc_eqb (LNode j m) l); [exact Hn|apply H].
Qed.

(* pointers *)
Lemma null_watchers_W ws st : W st -> (forall w, In w ws -> unreg w st) -> W (null_watchers ws st).
Proof.
  intros H Hu. apply (W_ptr st); [exact H|exact (proj1 (proj2 (proj2 (null_watchers_fields ws st))))|].
  intro w. rewrite get_connptr_null_watchers. destruct (existsb (wref_eqb w) ws) eqn:E; [|left; reflexivity].
  right. apply Hu. apply existsb_wref. exact E.
Qed.

Lemma null_watchers_impls ws st : impls (null_watchers ws st) = impls st.
Proof. exact (proj1 (proj2 (proj2 (null_watchers_fields ws st)))). Qed.

Lemma null_watchers_w ws st : WN st -> (forall w, In w ws -> unreg w st) -> WN (null_watchers ws st).
Proof.
  intros (HW & HS) Hu. split; [apply null_watchers_W; assumption|]. unfold ST. rewrite null_watchers_impls. exact HS.
Qed.

Lemma set_connptr_impls w p st : impls (set_connptr w p st) = impls st.
Proof. exact (sh_impls _ _ (set_connptr_heavy w p st)). Qed.

Lemma set_connptr_W w p st : W st -> unreg w st -> W (set_connptr w p st).
Proof.
  intros H Hu. apply (W_ptr st); [exact H|apply set_connptr_impls|].
  intro w'. rewrite get_set_connptr. destruct (wref_eqb_spec w' w) as [->|Hne]; [right; exact Hu|left; reflexivity].
Qed.

(* ------------------------------------------------------------------ *)
(* Part 2: the primitives that cascade                                  *)

Lemma track_add_keep t rid st st' : track_add t rid st = Ok st' -> keep st st'.
Proof.
  unfold track_add. destruct (live_track t st) as [tr|]; [|discriminate].
  destruct (t_clearing tr); intro H; inversion H; repeat split.
Qed.

Lemma track_remove_keep t rid st st' : track_remove t rid st = Ok st' -> keep st st'.
Proof.
  unfold track_remove. destruct (live_track t st) as [tr|]; [|discriminate].
  destruct (t_clearing tr); intro H; inversion H; repeat split.
Qed.

Lemma bind_all_keep rid refs : forall st st', bind_all rid refs st = Ok st' -> keep st st'.
Proof.
  induction refs as [|t refs IH]; intros st st'; cbn [bind_all]; [intro H; inversion H; apply keep_refl|].
  destruct (track_add t rid st) as [st1|] eqn:E; cbn [rbind]; [|discriminate].
  intro H. eapply keep_trans; [eapply track_add_keep; eauto|eauto].
Qed.

Lemma unbind_all_keep rid refs : forall st st', unbind_all rid refs st = Ok st' -> keep st st'.
Proof.
  induction refs as [|t refs IH]; intros st st'; cbn [unbind_all]; [intro H; inversion H; apply keep_refl|].
  destruct (track_remove t rid st) as [st1|] eqn:E; cbn [rbind]; [|discriminate].
  intro H. eapply keep_trans; [eapply track_remove_keep; eauto|eauto].
Qed.

Lemma keep_set_track t tr st : keep st (set_track t tr st).
Proof. repeat split. Qed.

(* `delete rep` of a rep taken out of its owner: its watchers must not be registered elsewhere *)
Lemma rep_delete_w r st st' : WN st -> (forall w, In w (r_watch r) -> unreg w st) ->
  rep_delete r st = Ok st' -> WN st' /\ impls st' = impls st.
Proof.
  intros H Hu. unfold rep_delete. set (st0 := if r_attached r then _ else _).
  assert (K0 : keep st st0) by (unfold st0; destruct (r_attached r); repeat split).
  destruct (match r_fn r with Some f => unbind_all (r_id r) (f_refs f) st0 | None => Ok st0 end) as [st1|] eqn:E1; cbn [rbind]; [|discriminate].
  assert (K1 : keep st st1).
  { eapply keep_trans; [exact K0|]. destruct (r_fn r); [eapply unbind_all_keep; eauto|inversion E1; apply keep_refl]. }
  intro E. inversion E; subst st'. split.
  - apply null_watchers_w; [eapply WN_keep; eauto|]. intros w Hin. eapply unreg_keep; eauto.
  - rewrite null_watchers_impls. exact (proj1 K1).
Qed.

Lemma sb_delete_w sb st st' : WN st -> (forall w, In w (sbw sb) -> unreg w st) ->
  sb_delete sb st = Ok st' -> WN st' /\ impls st' = impls st.
Proof.
  unfold sb_delete, sbw. destruct (sb_rep sb) as [r|]; [apply rep_delete_w|]. intros H _ E. inversion E; subst. auto.
Qed.

Lemma erase_node_w i n st st' : WN st -> erase_node i n st = Ok st' -> WN st'.
Proof.
  intros H. unfold erase_node. destruct (aget i (impls st)) as [im|] eqn:Hi; [|discriminate].
  destruct (find_node n (i_nodes im)) as [nd|] eqn:Hf; [|discriminate].
  set (st1 := set_impl i (with_nodes (del_node n (i_nodes im)) im) st).
  assert (H1 : WN st1) by (unfold st1; eapply WN_set_impl; [exact H|exact Hi|apply nle_del_node]).
  intro E. refine (proj1 (sb_delete_w _ _ _ H1 _ E)).
  intros w Hin. apply (W_unreg_at st1 w i n (proj1 H1)).
  - unfold st1. rewrite get_connptr_set_impl. apply (proj2 (proj1 H i n)). unfold wat, watl. rewrite Hi, Hf. exact Hin.
  - unfold st1. rewrite wat_set_impl, N.eqb_refl. cbn [i_nodes with_nodes]. unfold watl.
    rewrite find_node_del_same by exact (proj2 (proj2 H) i im Hi). intros [].
Qed.

Lemma parent_cleanup_w i n st st' : WN st -> parent_cleanup i n st = Ok st' -> WN st'.
Proof.
  intro H. unfold parent_cleanup. destruct (aget i (impls st)) as [im|] eqn:Hi; [|intro E; inversion E; subst; exact H].
  destruct (i_dying im); [intro E; inversion E; subst; exact H|].
  destruct (N.eqb (i_exec im) 0); [apply erase_node_w; exact H|].
  intro E. inversion E; subst. eapply WN_set_impl; [exact H|exact Hi|apply nle_refl].
Qed.

Lemma WN_set_rep l sb r r' b' st : WN st -> get_sb l st = Some sb -> sb_rep sb = Some r -> r_watch r' = r_watch r ->
  WN (set_sb l (mkSB (Some r') b') st).
Proof.
  intros H G R Ew. apply (WN_set_sb l sb); [exact H|exact G|]. right. unfold sbw. cbn [sb_rep]. rewrite R. exact Ew.
Qed.

Lemma rep_disconnect_w l st st' : WN st -> rep_disconnect l st = Ok st' -> WN st'.
Proof.
  intros H. unfold rep_disconnect. destruct (get_rep l st) as [r|] eqn:Hg; [|intro E; inversion E; subst; exact H].
  destruct (get_rep_inv _ _ _ Hg) as (sb & Hsb & Hrep). unfold set_rep. rewrite Hsb.
  destruct (r_attached r).
  - destruct l as [s|i n]; [discriminate|]. apply parent_cleanup_w.
    eapply WN_set_rep; [exact H|exact Hsb|exact Hrep|reflexivity].
  - intro E. inversion E; subst. eapply WN_set_rep; [exact H|exact Hsb|exact Hrep|reflexivity].
Qed.

Lemma rep_destroy_w l st st' : WN st -> rep_destroy l st = Ok st' -> WN st'.
Proof.
  intros H. unfold rep_destroy. destruct (get_rep l st) as [r|] eqn:Hg; [|intro E; inversion E; subst; exact H].
  destruct (get_rep_inv _ _ _ Hg) as (sb & Hsb & Hrep). unfold set_rep. rewrite Hsb.
  set (st1 := set_sb l _ st).
  assert (H1 : WN st1) by (unfold st1; eapply WN_set_rep; [exact H|exact Hsb|exact Hrep|reflexivity]).
  destruct (r_fn r) as [f|].
  - intro E. eapply WN_keep; [eapply unbind_all_keep; exact E|exact H1].
  - intro E. inversion E; subst. exact H1.
Qed.

Lemma rep_invalidated_w rid st st' : WN st -> rep_invalidated rid st = Ok st' -> WN st'.
Proof.
  intros H. unfold rep_invalidated. destruct (find_rep rid st) as [l|]; [|discriminate].
  destruct (rep_disconnect l st) as [st1|] eqn:E1; cbn [rbind]; [|discriminate].
  pose proof (rep_disconnect_w l st st1 H E1) as H1.
  destruct (find_rep rid st1) as [l'|]; [apply rep_destroy_w; exact H1|intro E; inversion E; subst; exact H1].
Qed.

Lemma track_round_w fuel : forall k t st st', WN st -> track_round fuel k t st = Ok st' -> WN st'.
Proof.
  induction fuel as [|fuel IH]; intros k t st st' H; cbn [track_round]; [intro E; inversion E; subst; exact H|].
  destruct (live_track t st) as [tr|]; [|discriminate].
  destruct (t_list tr) as [l|]; [|intro E; inversion E; subst; exact H].
  destruct (nth_error l k) as [[rid f]|]; [|intro E; inversion E; subst; exact H].
  destruct f.
  - destruct (rep_invalidated rid st) as [st1|] eqn:E1; cbn [rbind]; [|discriminate].
    apply IH. eapply rep_invalidated_w; eauto.
  - apply IH. exact H.
Qed.

Lemma track_notify_w t st st' : WN st -> track_notify t st = Ok st' -> WN st'.
Proof.
  intros H. unfold track_notify. destruct (live_track t st) as [tr|]; [|intro E; inversion E; subst; exact H].
  destruct (t_list tr) as [l|]; [|intro E; inversion E; subst; exact H].
  destruct (track_round (length l) 0 t (set_track t (mkTr (Some l) true) st)) as [st2|] eqn:E2; cbn [rbind]; [|discriminate].
  intro E. inversion E; subst. eapply WN_keep; [apply keep_set_track|].
  eapply track_round_w; [|exact E2]. eapply WN_keep; [apply keep_set_track|exact H].
Qed.

Lemma disconnect_nodes_w i ns : forall st st', WN st -> disconnect_nodes i ns st = Ok st' -> WN st'.
Proof.
  induction ns as [|n ns IH]; intros st st' H; cbn [disconnect_nodes]; [intro E; inversion E; subst; exact H|].
  destruct (rep_disconnect (LNode i n) st) as [st1|] eqn:E1; cbn [rbind]; [|discriminate].
  apply IH. eapply rep_disconnect_w; eauto.
Qed.

Lemma delete_sbs_w l : forall st st', WN st -> (forall nd w, In nd l -> In w (sbw (n_sb nd)) -> unreg w st) ->
  delete_sbs l st = Ok st' -> WN st' /\ impls st' = impls st.
Proof.
  induction l as [|x l IH]; intros st st' H Hu; cbn [delete_sbs]; [intro E; inversion E; subst; auto|].
  destruct (sb_delete (n_sb x) st) as [st1|] eqn:E1; cbn [rbind]; [|discriminate].
  destruct (sb_delete_w _ _ _ H (fun w Hw => Hu x w (or_introl eq_refl) Hw) E1) as (H1 & Ei1).
  intro E. destruct (IH st1 st' H1) as (H2 & Ei2); [|exact E|split; [exact H2|congruence]].
  intros nd w Hin Hw. eapply unreg_impls; [exact Ei1|]. apply (Hu nd w); [right; exact Hin|exact Hw].
Qed.

(* empty the list of impl i and delete all its slot bases *)
Lemma clear_nodes_w i im im' st st' : WN st -> aget i (impls st) = Some im -> i_nodes im' = [] ->
  delete_sbs (i_nodes im) (set_impl i im' st) = Ok st' -> WN st'.
Proof.
  intros H Hi Hn E.
  assert (H1 : WN (set_impl i im' st)) by (eapply WN_set_impl; [exact H|exact Hi|rewrite Hn; apply nle_nil]).
  refine (proj1 (delete_sbs_w _ _ _ H1 _ E)).
  intros nd w Hin Hw. apply (W_unreg_at _ w i (n_id nd) (proj1 H1)).
  - rewrite get_connptr_set_impl. apply (proj2 (proj1 H i (n_id nd))). unfold wat, watl. rewrite Hi.
    rewrite (find_node_in_nodup _ _ (proj2 (proj2 H) i im Hi) Hin). exact Hw.
  - rewrite wat_set_impl, N.eqb_refl. unfold watl. rewrite Hn. intros [].
Qed.

Lemma upd_impl_w i f st st' : WN st -> (forall im, i_nodes (f im) = i_nodes im) -> upd_impl i f st = Ok st' -> WN st'.
Proof.
  intros H Hf. unfold upd_impl. destruct (aget i (impls st)) as [im|] eqn:Hi; [|discriminate].
  intro E. inversion E; subst. eapply WN_set_impl; [exact H|exact Hi|rewrite Hf; apply nle_refl].
Qed.

Lemma upd_impl_opt_w i f st st' : WN st -> (forall im, i_nodes (f im) = i_nodes im) -> upd_impl_opt i f st = Ok st' -> WN st'.
Proof.
  intros H Hf. unfold upd_impl_opt. destruct (aget i (impls st)) as [im|] eqn:Hi; [|intro E; inversion E; subst; exact H].
  intro E. inversion E; subst. eapply WN_set_impl; [exact H|exact Hi|rewrite Hf; apply nle_refl].
Qed.

Lemma destroy_impl_w i st st' : WN st -> destroy_impl i st = Ok st' -> WN st'.
Proof.
  intros H. unfold destroy_impl.
  destruct (upd_impl i _ st) as [st1|] eqn:E1; cbn [rbind]; [|discriminate].
  assert (H1 : WN st1) by (eapply upd_impl_w; [exact H| |exact E1]; intro; reflexivity).
  destruct (aget i (impls st1)) as [im|]; [|discriminate].
  destruct (disconnect_nodes i (map n_id (i_nodes im)) st1) as [st2|] eqn:E2; cbn [rbind]; [|discriminate].
  pose proof (disconnect_nodes_w _ _ _ _ H1 E2) as H2.
  destruct (aget i (impls st2)) as [im2|] eqn:Hi2; [|discriminate]. cbv zeta.
  destruct (delete_sbs (i_nodes im2) (set_impl i (with_nodes [] im2) st2)) as [st4|] eqn:E4; cbn [rbind]; [|discriminate].
  pose proof (clear_nodes_w i im2 (with_nodes [] im2) st2 st4 H2 Hi2 eq_refl E4) as H4.
  intro E. inversion E; subst. apply WN_adel. exact H4.
Qed.

Lemma release_check_w i st st' : WN st -> release_check i st = Ok st' -> WN st'.
Proof.
  intro H. unfold release_check. destruct (aget i (impls st)) as [im|]; [|intro E; inversion E; subst; exact H].
  destruct (N.eqb (refcount i st) 0 && negb (i_dying im)); [apply destroy_impl_w; exact H|intro E; inversion E; subst; exact H].
Qed.

Lemma sweep_nodes_w i ns : forall st st', WN st -> sweep_nodes i ns st = Ok st' -> WN st'.
Proof.
  induction ns as [|n ns IH]; intros st st' H; cbn [sweep_nodes]; [intro E; inversion E; subst; exact H|].
  destruct (get_sb (LNode i n) st) as [sb|]; [|discriminate].
  destruct (sb_empty sb); [|apply IH; exact H].
  destruct (rep_disconnect (LNode i n) st) as [st0|] eqn:E0; cbn [rbind]; [|discriminate].
  destruct (erase_node i n st0) as [st1|] eqn:E1; cbn [rbind]; [|discriminate].
  apply IH. eapply erase_node_w; [|exact E1]. eapply rep_disconnect_w; eauto.
Qed.

Lemma sweep_pass_w i st st' : WN st -> sweep_pass i st = Ok st' -> WN st'.
Proof.
  intro H. unfold sweep_pass.
  destruct (upd_impl i _ st) as [st1|] eqn:E1; cbn [rbind]; [|discriminate].
  assert (H1 : WN st1) by (eapply upd_impl_w; [exact H| |exact E1]; intro; reflexivity).
  destruct (aget i (impls st1)) as [im|]; [|discriminate].
  destruct (sweep_nodes i (map n_id (i_nodes im)) st1) as [st2|] eqn:E2; cbn [rbind]; [|discriminate].
  intro E. eapply upd_impl_w; [eapply sweep_nodes_w; eauto| |exact E]. intro; reflexivity.
Qed.

Lemma sweep_w i st st' : WN st -> sweep i st = Ok st' -> WN st'.
Proof.
  intros H. unfold sweep.
  destruct (sweep_pass i st) as [st1|] eqn:E1; cbn [rbind]; [|discriminate].
  pose proof (sweep_pass_w _ _ _ H E1) as H1.
  assert (Hmid : forall st2, match aget i (impls st1) with
         | Some im =>
             if N.eqb (i_exec im) 0 && i_deferred im
             then st2 <- sweep_pass i st1;;
                  st3 <- upd_impl i (fun im0 => with_holders (i_holders im0 - 1) im0) st2;;
                  release_check i st3
             else Ok st1
         | None => Err ErrUAF
         end = Ok st2 -> WN st2).
  { intros st2. destruct (aget i (impls st1)) as [im1|]; [|discriminate].
    destruct (N.eqb (i_exec im1) 0 && i_deferred im1); [|intro E; inversion E; subst; auto].
    destruct (sweep_pass i st1) as [sta|] eqn:Ea; cbn [rbind]; [|discriminate].
    pose proof (sweep_pass_w _ _ _ H1 Ea) as Ha.
    destruct (upd_impl i (fun im0 => with_holders (i_holders im0 - 1) im0) sta) as [stb|] eqn:Eb; cbn [rbind]; [|discriminate].
    apply release_check_w. eapply upd_impl_w; [exact Ha| |exact Eb]. intro; reflexivity. }
  destruct (match aget i (impls st1) with Some _ => _ | None => _ end) as [st2|]; cbn [rbind]; [|discriminate].
  pose proof (Hmid st2 eq_refl) as H2.
  destruct (upd_impl_opt i (fun im0 => with_holders (i_holders im0 - 1) im0) st2) as [st3|] eqn:E3; cbn [rbind]; [|discriminate].
  apply release_check_w. eapply upd_impl_opt_w; [exact H2| |exact E3]. intro; reflexivity.
Qed.

Lemma unreference_exec_w i st st' : WN st -> unreference_exec i st = Ok st' -> WN st'.
Proof.
  intros H. unfold unreference_exec.
  destruct (upd_impl i (fun im => with_exec (i_exec im - 1) im) st) as [st1|] eqn:E1; cbn [rbind]; [|discriminate].
  assert (H1 : WN st1) by (eapply upd_impl_w; [exact H| |exact E1]; intro; reflexivity).
  destruct (aget i (impls st1)) as [im|]; [|discriminate].
  destruct (N.eqb (i_exec im) 0 && i_deferred im); [apply sweep_w; exact H1|intro E; inversion E; subst; exact H1].
Qed.

Lemma impl_clear_w i st st' : WN st -> impl_clear i st = Ok st' -> WN st'.
Proof.
  intros H. unfold impl_clear. destruct (aget i (impls st)) as [im|] eqn:Hi; [|discriminate]. cbv zeta.
  set (st1 := set_impl i (with_exec (i_exec im + 1) im) st).
  assert (H1 : WN st1) by (unfold st1; eapply WN_set_impl; [exact H|exact Hi|apply nle_refl]).
  destruct (disconnect_nodes i (map n_id (i_nodes im)) st1) as [st2|] eqn:E2; cbn [rbind]; [|discriminate].
  pose proof (disconnect_nodes_w _ _ _ _ H1 E2) as H2.
  destruct (negb (N.eqb (i_exec im) 0)).
  - cbn [rbind]. apply unreference_exec_w. exact H2.
  - destruct (aget i (impls st2)) as [im2|] eqn:Hi2; [|discriminate].
    set (imc := with_nodes [] (with_deferred (i_deferred im) im2)).
    destruct (delete_sbs (i_nodes im2) (set_impl i imc st2)) as [st3|] eqn:E3; cbn [rbind]; [|discriminate].
    apply unreference_exec_w. exact (clear_nodes_w i im2 imc st2 st3 H2 Hi2 eq_refl E3).
Qed.

Lemma frame_leave_w i ph st st' : WN st -> frame_leave i ph st = Ok st' -> WN st'.
Proof.
  intros H. unfold frame_leave.
  destruct (erase_node i ph st) as [st1|] eqn:E1; cbn [rbind]; [|discriminate].
  pose proof (erase_node_w _ _ _ _ H E1) as H1.
  destruct (unreference_exec i st1) as [st2|] eqn:E2; cbn [rbind]; [|discriminate].
  pose proof (unreference_exec_w _ _ _ H1 E2) as H2.
  destruct (upd_impl i (fun im => with_holders (i_holders im - 1) im) st2) as [st3|] eqn:E3; cbn [rbind]; [|discriminate].
  apply release_check_w. eapply upd_impl_w; [exact H2| |exact E3]. intro; reflexivity.
Qed.

Lemma conn_disconnect_w p st st' : WN st -> conn_disconnect p st = Ok st' -> WN st'.
Proof.
  intros H. unfold conn_disconnect. destruct (conn_target p st) as [t|]; cbn [rbind]; [|discriminate].
  destruct t as [[l sb]|]; [apply rep_disconnect_w; exact H|intro E; inversion E; subst; exact H].
Qed.

Lemma block_all_w i b st st' : WN st ->
  upd_impl i (fun im => with_nodes (map (fun x => mkNode (n_id x) (mkSB (sb_rep (n_sb x)) b)) (i_nodes im)) im) st = Ok st' -> WN st'.
Proof.
  intros H. unfold upd_impl. destruct (aget i (impls st)) as [im|] eqn:Hi; [|discriminate].
  intro E. inversion E; subst. eapply WN_set_impl; [exact H|exact Hi|]. cbn [i_nodes with_nodes]. apply nle_map_blocked.
Qed.

Lemma WN_set_impl_empty i im' st : WN st -> i_nodes im' = [] -> WN (set_impl i im' st).
Proof.
  intros H Hn. destruct (aget i (impls st)) as [im|] eqn:Hi.
  - eapply WN_set_impl; [exact H|exact Hi|rewrite Hn; apply nle_nil].
  - apply WN_new_impl; assumption.
Qed.

Lemma ensure_impl_w g go st i st1 : WN st -> ensure_impl g go st = (i, st1) -> WN st1.
Proof.
  intros H. unfold ensure_impl. destruct (g_impl go) as [i0|]; [intro E; inversion E; subst; exact H|].
  intro E. inversion E; subst i st1. clear E.
  apply (WN_keep (set_impl (next_iid st) (mkImpl [] 0 false 0 false) (with_next_iid (next_iid st + 1) st))); [repeat split|].
  apply WN_set_impl_empty; [|reflexivity]. apply (WN_keep st); [repeat split|exact H].
Qed.

(* ------------------------------------------------------------------ *)
(* Part 2b: registrations (these need W only)                           *)

Lemma NoDup_remove_first {A} (p : A -> bool) l : NoDup l -> NoDup (remove_first p l).
Proof.
  induction l as [|x l IH]; cbn [remove_first]; intro H; [constructor|].
  inversion H as [|? ? H1 H2]; subst. destruct (p x); [exact H2|]. constructor; [|apply IH; exact H2].
  intro Hin. apply H1. clear -Hin. induction l as [|y l IH]; cbn [remove_first] in *; [contradiction|].
  destruct (p y); [right; exact Hin|]. destruct Hin as [E|Hin]; [left; exact E|right; auto].
Qed.

Lemma In_remove_first {A} (p : A -> bool) x l : In x (remove_first p l) -> In x l.
Proof.
  induction l as [|y l IH]; cbn [remove_first]; [tauto|].
  destruct (p y); [intro H; right; exact H|]. intros [E|H]; [left; exact E|right; auto].
Qed.

Lemma remove_first_not_in w l : NoDup l -> ~ In w (remove_first (wref_eqb w) l).
Proof.
  induction l as [|y l IH]; cbn [remove_first]; intro H; [tauto|].
  inversion H as [|? ? H1 H2]; subst. destruct (wref_eqb_spec w y) as [->|Hne]; [exact H1|].
  intros [E|Hin]; [congruence|exact (IH H2 Hin)].
Qed.

Lemma wref_eqb_refl w : wref_eqb w w = true.
Proof. destruct (wref_eqb_spec w w); [reflexivity|congruence]. Qed.

(* replacing the watch list of an element by a duplicate-free sub-list *)
Lemma W_set_sb_sub i n sb sb' st : W st -> get_sb (LNode i n) st = Some sb ->
  NoDup (sbw sb') -> incl (sbw sb') (sbw sb) -> W (set_sb (LNode i n) sb' st).
Proof.
  intros HW G Hnd Hin j m. rewrite (wat_set_sb _ _ _ _ _ _ G).
  destruct (loc_eqb_spec (LNode j m) (LNode i n)) as [Heq|Hne].
  - inversion Heq; subst j m. split; [exact Hnd|]. intros x Hx. rewrite get_connptr_set_sb.
    apply (proj2 (HW i n)). rewrite wat_get_sb, G. apply Hin. exact Hx.
  - destruct (HW j m) as (A & B). split; [exact A|]. intros x Hx. rewrite get_connptr_set_sb. apply B. exact Hx.
Qed.

Lemma watch_add_ptr p w st st' : watch_add p w st = Ok st' -> forall w', get_connptr w' st' = get_connptr w' st.
Proof.
  unfold watch_add. destruct p as [[i n]|]; [|intro E; inversion E; reflexivity].
  destruct (get_sb (LNode i n) st) as [sb|]; [|discriminate].
  destruct (sb_rep sb); intro E; okinv E; intro w'; [apply get_connptr_set_sb|reflexivity].
Qed.

Lemma watch_add_w p w st st' : W st -> get_connptr w st = Some p -> unreg w st -> watch_add p w st = Ok st' -> W st'.
Proof.
  intros H Hp Hu. unfold watch_add. destruct p as [[i n]|]; [|intro E; inversion E; subst; exact H].
  destruct (get_sb (LNode i n) st) as [sb|] eqn:G; [|discriminate].
  destruct (sb_rep sb) as [r|] eqn:R; intro E; okinv E; [|exact H].
  assert (Hw : wat st i n = r_watch r) by (rewrite wat_get_sb, G; unfold sbw; rewrite R; reflexivity).
  intros j m. rewrite (wat_set_sb _ _ _ _ _ _ G).
  destruct (loc_eqb_spec (LNode j m) (LNode i n)) as [Heq|Hne].
  - inversion Heq; subst j m. unfold sbw. cbn [sb_rep r_watch r_with_watch].
    destruct (H i n) as (A & B). rewrite Hw in A, B. split.
    + apply NoDup_app_iff. split; [exact A|]. split; [constructor; [intros []|constructor]|].
      intros x Hx [<-|[]]. apply (Hu i n). rewrite Hw. exact Hx.
    + intros x Hx. rewrite get_connptr_set_sb. apply in_app_or in Hx. destruct Hx as [Hx|[<-|[]]]; [apply B; exact Hx|exact Hp].
  - destruct (H j m) as (A & B). split; [exact A|]. intros x Hx. rewrite get_connptr_set_sb. apply B. exact Hx.
Qed.

Lemma watch_remove_w p w st st' : W st -> get_connptr w st = Some p -> watch_remove p w st = Ok st' ->
  W st' /\ unreg w st' /\ (forall w', get_connptr w' st' = get_connptr w' st).
Proof.
  intros H Hp. unfold watch_remove. destruct p as [[i n]|].
  2:{ intro E. inversion E; subst. split; [exact H|]. split; [|reflexivity].
      apply W_unreg_null; [exact H|]. intros i n. rewrite Hp. discriminate. }
  destruct (get_sb (LNode i n) st) as [sb|] eqn:G; [|discriminate].
  destruct (sb_rep sb) as [r|] eqn:R; intro E; okinv E.
  2:{ split; [exact H|]. split; [|reflexivity]. apply (W_unreg_at st w i n H Hp).
      rewrite wat_get_sb, G. unfold sbw. rewrite R. intros []. }
  assert (Hw : wat st i n = r_watch r) by (rewrite wat_get_sb, G; unfold sbw; rewrite R; reflexivity).
  assert (Hnd : NoDup (r_watch r)) by (rewrite <- Hw; exact (proj1 (H i n))).
  set (sb' := mkSB (Some (r_with_watch (remove_first (wref_eqb w) (r_watch r)) r)) (sb_blocked sb)).
  assert (H' : W (set_sb (LNode i n) sb' st)).
  { apply (W_set_sb_sub i n sb); [exact H|exact G| |].
    - unfold sb', sbw. cbn [sb_rep r_watch r_with_watch]. apply NoDup_remove_first. exact Hnd.
    - unfold sb', sbw. cbn [sb_rep r_watch r_with_watch]. rewrite R. intros x Hx. eapply In_remove_first; eauto. }
  split; [exact H'|]. split; [|intro w'; apply get_connptr_set_sb].
  apply (W_unreg_at _ w i n H'); [rewrite get_connptr_set_sb; exact Hp|].
  rewrite (wat_set_sb _ _ _ _ _ _ G). destruct (loc_eqb_spec (LNode i n) (LNode i n)) as [_|Hne]; [|congruence].
  unfold sb', sbw. cbn [sb_rep r_watch r_with_watch]. apply remove_first_not_in. exact Hnd.
Qed.

Lemma conn_set_w w p st st' : W st -> conn_set w p st = Ok st' ->
  W st' /\ forall w', w' <> w -> get_connptr w' st' = get_connptr w' st.
Proof.
  intros H. unfold conn_set. destruct (get_connptr w st) as [old|] eqn:Hold; [|discriminate].
  destruct (watch_remove old w st) as [st1|] eqn:E1; cbn [rbind]; [|discriminate].
  destruct (watch_remove_w _ _ _ _ H Hold E1) as (H1 & U1 & P1).
  destruct (watch_add p w (set_connptr w p st1)) as [st2|] eqn:E2; cbn [rbind]; [|discriminate].
  intro E. inversion E; subst st'. split.
  - eapply watch_add_w; [apply set_connptr_W; eassumption| | |exact E2].
    + rewrite get_set_connptr, wref_eqb_refl. reflexivity.
    + eapply unreg_impls; [apply set_connptr_impls|exact U1].
  - intros w' Hne. rewrite (watch_add_ptr _ _ _ _ E2), get_set_connptr.
    destruct (wref_eqb_spec w' w); [contradiction|apply P1].
Qed.

(* a fresh handle *)
Lemma set_conn_w w p st st' : W st -> (forall i n, get_connptr w st <> Some (Some (i, n))) ->
  watch_add p w (set_connptr w p st) = Ok st' -> W st'.
Proof.
  intros H Hf. assert (U : unreg w st) by (apply W_unreg_null; assumption).
  apply watch_add_w; [apply set_connptr_W; assumption| |eapply unreg_impls; [apply set_connptr_impls|exact U]].
  rewrite get_set_connptr, wref_eqb_refl. reflexivity.
Qed.

Lemma watl_app_new l nd n : sbw (n_sb nd) = [] -> watl (l ++ [nd]) n = [] \/ watl (l ++ [nd]) n = watl l n.
Proof.
  intro Hn. unfold watl. rewrite find_node_app. destruct (find_node n l); [right; reflexivity|].
  cbn [find_node]. destruct (nid_eqb (n_id nd) n); [left; exact Hn|left; reflexivity].
Qed.

Lemma watl_cons_new l nd n : sbw (n_sb nd) = [] -> watl (nd :: l) n = [] \/ watl (nd :: l) n = watl l n.
Proof.
  intro Hn. unfold watl. cbn [find_node]. destruct (nid_eqb (n_id nd) n); [left; exact Hn|right; reflexivity].
Qed.

Lemma frame_enter_w i st first ph k st1 : W st -> frame_enter i st = Ok (first, ph, k, st1) -> W st1.
Proof.
  intros HW. unfold frame_enter. destruct (aget i (impls st)) as [im|] eqn:Hi; [|discriminate].
  intro E. inversion E; subst.
  apply (W_upd st); [exact HW| |intro w; left; apply get_connptr_eq; reflexivity].
  intros j n. rewrite wat_set_impl. destruct (N.eqb_spec j i) as [->|Hne]; [|right; reflexivity].
  cbn [i_nodes with_nodes]. unfold wat. rewrite Hi. apply watl_app_new. reflexivity.
Qed.

Lemma impl_insert_w i front sb st n st' : W st -> sbw sb = [] -> impl_insert i front sb st = Ok (n, st') -> W st'.
Proof.
  intros HW Hsb. unfold impl_insert. destruct (aget i (impls st)) as [im|] eqn:Hi; [|discriminate].
  assert (Hgen : forall r st2, impls st2 = impls st -> conns st2 = conns st -> sconns st2 = sconns st -> r_watch r = [] ->
     W (set_impl i (with_nodes (if front then mkNode (Real (next_nid st)) (mkSB (Some r) (sb_blocked sb)) :: i_nodes im
                               else i_nodes im ++ [mkNode (Real (next_nid st)) (mkSB (Some r) (sb_blocked sb))]) im) st2)).
  { intros r st2 Ei Ec Es Hr. apply (W_upd st); [exact HW| |intro w; left; rewrite get_connptr_set_impl; apply get_connptr_eq; assumption].
    intros j m. rewrite wat_set_impl. destruct (N.eqb_spec j i) as [->|Hne]; [|right; apply wat_impls; exact Ei].
    cbn [i_nodes with_nodes]. unfold wat. rewrite Hi.
    destruct front; [apply watl_cons_new|apply watl_app_new]; unfold sbw; cbn [n_sb sb_rep]; exact Hr. }
  destruct (sb_rep sb) as [r|] eqn:R; intro E; inversion E; subst; apply Hgen; try reflexivity.
  unfold sbw in Hsb. rewrite R in Hsb. exact Hsb.
Qed.

(* ------------------------------------------------------------------ *)
(* Part 3: slot variables do not touch lists or handles                 *)

Lemma rep_delete_keep r st st' : r_watch r = [] -> rep_delete r st = Ok st' -> keep st st'.
Proof.
  intros Hw. unfold rep_delete. rewrite Hw. set (st0 := if r_attached r then _ else _).
  assert (K0 : keep st st0) by (unfold st0; destruct (r_attached r); repeat split).
  destruct (r_fn r) as [f|].
  - destruct (unbind_all (r_id r) (f_refs f) st0) as [st1|] eqn:E; cbn [rbind null_watchers]; [|discriminate].
    intro H. inversion H; subst. eapply keep_trans; [exact K0|eapply unbind_all_keep; eauto].
  - cbn [rbind null_watchers]. intro H. inversion H; subst. exact K0.
Qed.

Lemma rep_clone_keep r st r' st' : rep_clone r st = Ok (r', st') -> keep st st' /\ r_watch r' = [].
Proof.
  unfold rep_clone. destruct (r_fn r) as [f|].
  - destruct (bind_all (next_rid st) (f_refs f) (with_next_rid (next_rid st + 1) st)) as [st2|] eqn:E; cbn [rbind]; [|discriminate].
    intro H. inversion H; subst. split; [|reflexivity]. eapply keep_trans; [|eapply bind_all_keep; eauto]. repeat split.
  - cbn [rbind]. intro H. inversion H; subst. split; [|reflexivity]. repeat split.
Qed.

Lemma sb_copy_keep src st sb st' : sb_copy src st = Ok (sb, st') -> keep st st' /\ sbw sb = [].
Proof.
  unfold sb_copy. destruct (sb_rep src) as [r|] eqn:R.
  2:{ intro H. inversion H; subst. split; [apply keep_refl|reflexivity]. }
  destruct (r_valid r); [|intro H; inversion H; split; [apply keep_refl|reflexivity]].
  destruct (rep_clone r st) as [[r' st1]|] eqn:E; cbn [rbind]; [|discriminate].
  intro H. inversion H; subst. destruct (rep_clone_keep _ _ _ _ E) as (K & Hw). split; [exact K|exact Hw].
Qed.

Lemma sb_move_keep src st sb src' st' : sbw src = [] -> sb_move src st = Ok (sb, src', st') -> keep st st' /\ sbw sb = [].
Proof.
  intro Hs. unfold sb_move. unfold sbw in Hs. destruct (sb_rep src) as [r|] eqn:R.
  2:{ intro H. inversion H; subst. split; [apply keep_refl|reflexivity]. }
  destruct (r_attached r).
  - destruct (r_valid r); [|intro H; inversion H; split; [apply keep_refl|reflexivity]].
    destruct (rep_clone r st) as [[r' st1]|] eqn:E; cbn [rbind]; [|discriminate].
    intro H. inversion H; subst. destruct (rep_clone_keep _ _ _ _ E) as (K & Hw). split; [exact K|exact Hw].
  - rewrite Hs. cbn [null_watchers]. intro H. inversion H; subst. split; [apply keep_refl|reflexivity].
Qed.

Lemma var_sbw st s sb : WFc st -> get_sb (LVar s) st = Some sb -> sbw sb = [].
Proof.
  intros Hc G. unfold sbw. destruct (sb_rep sb) as [r|] eqn:R; [|reflexivity].
  exact (proj2 (var_rep_detached _ _ _ _ (wc_struct _ Hc) G R)).
Qed.

Lemma delete_rep_with_check_keep d st st' : WFc st -> delete_rep_with_check (LVar d) st = Ok st' -> keep st st'.
Proof.
  intros Hc. unfold delete_rep_with_check. destruct (get_sb (LVar d) st) as [sb|] eqn:Hd; [|discriminate].
  destruct (sb_rep sb) as [r|] eqn:Hrep; [|intro H; inversion H; apply keep_refl].
  destruct (var_rep_detached _ _ _ _ (wc_struct _ Hc) Hd Hrep) as (Hatt & Hwat).
  unfold rep_disconnect, get_rep, set_rep. rewrite Hd, Hrep, Hatt. cbn [rbind].
  set (r0 := r_with_valid false r). set (st1 := set_sb (LVar d) (mkSB (Some r0) (sb_blocked sb)) st).
  assert (Hc1 : WFc st1).
  { unfold st1. eapply set_sb_benign_ok; eauto; try reflexivity; [discriminate|split; assumption|apply incl_refl]. }
  assert (Hd1 : get_sb (LVar d) st1 = Some (mkSB (Some r0) (sb_blocked sb))) by (unfold st1; eapply get_set_sb_same; eauto).
  destruct (find_rep (r_id r) st1) as [l'|] eqn:Hf; [|intro H; inversion H; subst; apply keep_set_sb_var].
  destruct (find_rep_var st1 (r_id r) l' r0 Hf) as (s' & ->); [exact (get_sb_in_reps _ _ _ _ Hd1 eq_refl)|reflexivity|].
  destruct (get_sb (LVar s') st1) as [sb1|] eqn:G1; [|intro H; inversion H; subst; apply keep_set_sb_var].
  destruct (sb_rep sb1) as [r1|] eqn:G2; [|intro H; inversion H; subst; apply keep_set_sb_var].
  destruct (var_rep_detached _ _ _ _ (wc_struct _ Hc1) G1 G2) as (_ & Hwat1).
  intro H. eapply keep_trans; [apply keep_set_sb_var|]. eapply keep_trans; [apply keep_set_sb_var|].
  eapply rep_delete_keep; eauto.
Qed.

Lemma sb_assign_keep d s st st' : WFc st -> sb_assign d s st = Ok st' -> keep st st'.
Proof.
  intros Hc. unfold sb_assign.
  destruct (get_sb (LVar d) st) as [dst|] eqn:Hd; [|discriminate].
  destruct (get_sb (LVar s) st) as [src|] eqn:Hs; [|discriminate].
  destruct (same_rep src dst); [intro H; inversion H; apply keep_set_sb_var|].
  destruct (sb_empty src); [apply delete_rep_with_check_keep; exact Hc|].
  destruct (sb_rep src) as [r|]; [|intro H; inversion H; apply keep_refl].
  destruct (rep_clone r st) as [[r' st1]|] eqn:E1; cbn [rbind]; [|discriminate].
  pose proof (proj1 (rep_clone_keep _ _ _ _ E1)) as L1.
  destruct (sb_rep dst) as [old|] eqn:Ho.
  - destruct (rep_delete (r_with_attached false old) st1) as [st2|] eqn:E2; cbn [rbind]; [|discriminate].
    intro H. inversion H; subst. eapply keep_trans; [exact L1|]. eapply keep_trans; [|apply keep_set_sb_var].
    eapply rep_delete_keep; [|exact E2]. exact (proj2 (var_rep_detached _ _ _ _ (wc_struct _ Hc) Hd Ho)).
  - cbn [rbind]. intro H. inversion H; subst. eapply keep_trans; [exact L1|apply keep_set_sb_var].
Qed.

Lemma sb_move_assign_keep d s st st' : WFc st -> sb_move_assign d s st = Ok st' -> keep st st'.
Proof.
  intros Hc. unfold sb_move_assign.
  destruct (get_sb (LVar d) st) as [dst|] eqn:Hd; [|discriminate].
  destruct (get_sb (LVar s) st) as [src|] eqn:Hs; [|discriminate].
  destruct (same_rep src dst); [intro H; inversion H; apply keep_set_sb_var|].
  destruct (sb_empty src); [apply delete_rep_with_check_keep; exact Hc|].
  destruct (sb_rep src) as [r|] eqn:Hr; [|intro H; inversion H; apply keep_refl].
  pose proof (proj2 (var_rep_detached _ _ _ _ (wc_struct _ Hc) Hs Hr)) as Hwr.
  assert (Hfirst : forall x, (if r_attached r
            then '(r', st1) <- rep_clone r st;; Ok (r', src, st1)
            else Ok (r_with_watch [] r, sb_none, null_watchers (r_watch r) st)) = Ok x ->
            keep st (snd x)).
  { intros [[a b] c]. destruct (r_attached r).
    - destruct (rep_clone r st) as [[r' st1]|] eqn:E1; cbn [rbind]; [|discriminate].
      intro H. inversion H; subst. cbn [snd]. exact (proj1 (rep_clone_keep _ _ _ _ E1)).
    - rewrite Hwr. cbn [null_watchers]. intro H. inversion H; subst. cbn [snd]. apply keep_refl. }
  destruct (if r_attached r then _ else _) as [[[newrep src'] st1]|]; cbn [rbind]; [|discriminate].
  pose proof (Hfirst _ eq_refl) as L1. cbn [snd] in L1.
  destruct (sb_rep dst) as [old|] eqn:Ho.
  - destruct (rep_delete (r_with_attached false old) (set_sb (LVar s) src' st1)) as [st2|] eqn:E2; cbn [rbind]; [|discriminate].
    intro H. injection H as <-. eapply keep_trans; [exact L1|]. eapply keep_trans; [apply keep_set_sb_var|].
    eapply keep_trans; [|apply keep_set_sb_var]. eapply rep_delete_keep; [|exact E2].
    exact (proj2 (var_rep_detached _ _ _ _ (wc_struct _ Hc) Hd Ho)).
  - cbn [rbind]. intro H. injection H as <-. eapply keep_trans; [exact L1|].
    eapply keep_trans; [apply (keep_set_sb_var s src' st1)|apply keep_set_sb_var].
Qed.

Lemma del_slot_keep s sb st st' : WFc st -> get_sb (LVar s) st = Some sb ->
  sb_delete sb (with_slots (aset s None (slots st)) st) = Ok st' -> keep st st'.
Proof.
  intros Hc Hg. unfold sb_delete. destruct (sb_rep sb) as [r|] eqn:Hr.
  - destruct (var_rep_detached _ _ _ _ (wc_struct _ Hc) Hg Hr) as (_ & Hw).
    intro H. eapply keep_trans; [|eapply rep_delete_keep; eauto]. repeat split.
  - intro H. inversion H; subst. repeat split.
Qed.

(* ------------------------------------------------------------------ *)
(* Part 4: the interpreter preserves W                                  *)

Definition out_w {A} (o : outcome A) : Prop :=
  match o with Done st' _ => W st' | Thrown st' => W st' | Fail _ => True end.
Definition out_ww {A} (o : outcome A) : Prop :=
  match o with Done st' _ => WF st' /\ W st' | Thrown st' => WF st' /\ W st' | Fail _ => True end.

Lemma out_ww_of {A} st (o : outcome A) : out_ok st o -> out_w o -> out_ww o.
Proof. destruct o; cbn; intros [Hwf _] Hy; auto. Qed.

Lemma keep_emit_ev e st : keep st (emit_ev e st).
Proof. repeat split. Qed.

Lemma W_ev e st : W st -> W (emit_ev e st).
Proof. apply W_keep. apply keep_emit_ev. Qed.

Lemma WN_of st : WF st -> W st -> WN st.
Proof. intros H Hw. split; [exact Hw|apply ST_of_WF; exact H]. Qed.

Lemma liftu_w r : (forall st', r = Ok st' -> W st') -> out_w (liftu r).
Proof. intro H. destruct r; cbn; auto. Qed.

Section Interp.
  Variable prog : program.
  Variable rec : callee -> state -> outcome N.
  Hypothesis rec_ok : forall c st, WF st -> out_ok st (rec c st).
  Hypothesis rec_w : forall c st, WF st -> W st -> out_w (rec c st).

  Lemma invoke_functor_w f arg st : WF st -> W st -> out_w (invoke_functor rec f arg st).
  Proof.
    intros H Hy. unfold invoke_functor. destruct (f_fwd f) as [g|]; [apply rec_w; assumption|].
    pose proof (rec_w (CScript (f_body f) arg) _ (WF_ev st (EEnter (f_body f) arg) H) (W_ev _ _ Hy)) as Z.
    destruct (rec (CScript (f_body f) arg) (emit_ev (EEnter (f_body f) arg) st)); cbn [out_w] in *; try apply W_ev; exact Z.
  Qed.

  Lemma invoke_at_w l arg st : WF st -> W st -> out_w (invoke_at rec l arg st).
  Proof.
    intros H Hy. unfold invoke_at. destruct (get_rep l st) as [r|]; [|exact I].
    destruct (r_fn r); [apply invoke_functor_w; assumption|exact I].
  Qed.

  Lemma invoke_at_ww l arg st sb : WF st -> W st -> get_sb l st = Some sb -> sb_empty sb = false ->
    out_ww (invoke_at rec l arg st).
  Proof.
    intros H Hy G E. eapply out_ww_of; [eapply (invoke_at_ok rec rec_ok); eauto|apply invoke_at_w; assumption].
  Qed.

  Lemma with_frame_w {A} i (body : nid -> nid -> nat -> state -> outcome A) st :
    WF st -> W st ->
    (forall first ph n st1, WF st1 -> W st1 -> out_ww (body first ph n st1)) ->
    out_w (with_frame i body st).
  Proof.
    intros H Hy Hbody. unfold with_frame.
    destruct (frame_enter i st) as [[[[first ph] n] st1]|] eqn:E; [|exact I].
    destruct (aget i (impls st)) as [im|] eqn:Hi; [|unfold frame_enter in E; rewrite Hi in E; discriminate].
    destruct (frame_enter_ok i im st H Hi) as (first' & ph' & st1' & im1 & E' & W1 & Fr & _).
    rewrite E in E'. inversion E'; subst first' ph' st1' n. clear E'.
    pose proof (frame_enter_w _ _ _ _ _ _ Hy E) as Hy1.
    specialize (Hbody first ph (length (i_nodes im1)) st1 W1 Hy1).
    assert (Hleave : forall st2, WF st2 -> W st2 -> forall st3, frame_leave i ph st2 = Ok st3 -> W st3).
    { intros st2 W2 Y2 st3 E3. exact (proj1 (frame_leave_w i ph st2 st3 (WN_of _ W2 Y2) E3)). }
    destruct (body first ph (length (i_nodes im1)) st1) as [st2 v|st2|e]; cbn [out_ww] in Hbody; [| |exact I].
    - destruct Hbody as (W2 & Y2). destruct (frame_leave i ph st2) as [st3|] eqn:E3; cbn [lift out_w]; [|exact I].
      exact (Hleave st2 W2 Y2 st3 E3).
    - destruct Hbody as (W2 & Y2). destruct (frame_leave i ph st2) as [st3|] eqn:E3; cbn [out_w]; [|exact I].
      exact (Hleave st2 W2 Y2 st3 E3).
  Qed.

  Lemma emit_loop_ww i ph arg : forall fuel cur last st, WF st -> W st ->
    out_ww (emit_loop rec fuel i cur ph arg last st).
  Proof.
    induction fuel as [|fuel IH]; intros cur last st H Hy; cbn [emit_loop].
    - destruct (nid_eqb cur ph); cbn [out_ww]; auto.
    - destruct (nid_eqb cur ph); [cbn [out_ww]; auto|].
      destruct (get_sb (LNode i cur) st) as [sb|] eqn:Hsb; [|exact I].
      assert (Hcont : forall st1 last1, WF st1 -> W st1 ->
                out_ww (match node_next i cur st1 with
                        | Err e => Fail e
                        | Ok None => Fail ErrDangling
                        | Ok (Some nx) => emit_loop rec fuel i nx ph arg last1 st1
                        end)).
      { intros st1 last1 W1 Y1. destruct (node_next i cur st1) as [[nx|]|]; try exact I. apply IH; assumption. }
      destruct (sb_empty sb || sb_blocked sb) eqn:Hskip; [apply Hcont; assumption|].
      apply orb_false_elim in Hskip. destruct Hskip as [Hemp _].
      pose proof (invoke_at_ww (LNode i cur) arg st sb H Hy Hsb Hemp) as Z.
      destruct (invoke_at rec (LNode i cur) arg st) as [st1 v|st1|e]; cbn [out_ww] in Z; [|exact Z|exact I].
      apply Hcont; tauto.
  Qed.

  Lemma cur_deref_ww i arg c st : WF st -> W st -> out_ww (cur_deref rec i arg c st).
  Proof.
    intros H Hy. unfold cur_deref. destruct (get_sb (LNode i (c_pos c)) st) as [sb|] eqn:Hsb; [|exact I].
    destruct (negb (sb_empty sb) && negb (sb_blocked sb) && negb (c_invoked c)) eqn:Hc; [|cbn [out_ww]; auto].
    apply andb_true_iff in Hc. destruct Hc as [Hc _]. apply andb_true_iff in Hc. destruct Hc as [Hc _].
    apply negb_true_iff in Hc.
    pose proof (invoke_at_ww (LNode i (c_pos c)) arg st sb H Hy Hsb Hc) as Z.
    destruct (invoke_at rec (LNode i (c_pos c)) arg st); exact Z.
  Qed.

  Lemma acc_walk_ww i arg lastpos z : forall fuel c a st, WF st -> W st ->
    out_ww (acc_walk rec fuel i arg lastpos z c a st).
  Proof.
    induction fuel as [|fuel IH]; intros c a st H Hy; cbn [acc_walk].
    - destruct (nid_eqb (c_pos c) lastpos); cbn [out_ww]; auto.
    - destruct (nid_eqb (c_pos c) lastpos); [cbn [out_ww]; auto|].
      pose proof (cur_deref_ww i arg c st H Hy) as Z.
      destruct (cur_deref rec i arg c st) as [st1 c1|st1|e]; cbn [out_ww] in Z; [|exact Z|exact I].
      destruct (cur_inc i c1 st1) as [c2|]; [|exact I].
      destruct (match z with Some zz => N.ltb zz (c_buf c1) | None => false end); [exact Z|].
      apply IH; tauto.
  Qed.

  Lemma acc_walk_rev_ww i arg firstpos : forall fuel c a st, WF st -> W st ->
    out_ww (acc_walk_rev rec fuel i arg firstpos c a st).
  Proof.
    induction fuel as [|fuel IH]; intros c a st H Hy; cbn [acc_walk_rev].
    - destruct (nid_eqb (c_pos c) firstpos); cbn [out_ww]; auto.
    - destruct (nid_eqb (c_pos c) firstpos); [cbn [out_ww]; auto|].
      destruct (cur_dec i c st) as [c1|]; [|exact I].
      pose proof (cur_deref_ww i arg c1 st H Hy) as Z.
      destruct (cur_deref rec i arg c1 st) as [st1 c2|st1|e]; cbn [out_ww] in Z; [|exact Z|exact I].
      apply IH; tauto.
  Qed.

  Lemma acc_run_ww n i arg fc lc : forall ops cs a st, WF st -> W st ->
    out_ww (acc_run rec n i arg fc lc ops cs a st).
  Proof.
    induction ops as [|o ops IH]; intros cs a st H Hy; cbn [acc_run]; [cbn [out_ww]; auto|].
    destruct o as [k j|k|k|k|k|k|k z].
    - destruct (writable k); apply IH; assumption.
    - destruct (writable k && _); [|apply IH; assumption].
      destruct (cur_inc i _ st); [apply IH; assumption|exact I].
    - destruct (writable k && _); [|apply IH; assumption].
      destruct (cur_dec i _ st); [apply IH; assumption|exact I].
    - destruct (writable k && _); [|apply IH; assumption].
      match goal with |- out_ww (match cur_deref rec i arg ?c st with _ => _ end) =>
        pose proof (cur_deref_ww i arg c st H Hy) as Z; destruct (cur_deref rec i arg c st) as [st1 c1|st1|e] end;
        cbn [out_ww] in Z; [|exact Z|exact I].
      apply IH; tauto.
    - destruct (writable k); [|apply IH; assumption].
      match goal with |- out_ww (match acc_walk rec n i arg ?lp ?z ?c a st with _ => _ end) =>
        pose proof (acc_walk_ww i arg lp z n c a st H Hy) as Z; destruct (acc_walk rec n i arg lp z c a st) as [st1 [c1 a1]|st1|e] end;
        cbn [out_ww] in Z; [|exact Z|exact I].
      apply IH; tauto.
    - destruct (writable k); [|apply IH; assumption].
      match goal with |- out_ww (match acc_walk_rev rec n i arg ?fp ?c a st with _ => _ end) =>
        pose proof (acc_walk_rev_ww i arg fp n c a st H Hy) as Z; destruct (acc_walk_rev rec n i arg fp c a st) as [st1 [c1 a1]|st1|e] end;
        cbn [out_ww] in Z; [|exact Z|exact I].
      apply IH; tauto.
    - destruct (writable k); [|apply IH; assumption].
      match goal with |- out_ww (match acc_walk rec n i arg ?lp ?z ?c a st with _ => _ end) =>
        pose proof (acc_walk_ww i arg lp z n c a st H Hy) as Z; destruct (acc_walk rec n i arg lp z c a st) as [st1 [c1 a1]|st1|e] end;
        cbn [out_ww] in Z; [|exact Z|exact I].
      apply IH; tauto.
  Qed.

  Lemma emit_sig_w g arg st : WF st -> W st -> out_w (emit_sig prog rec g arg st).
  Proof.
    intros H Hy. unfold emit_sig. destruct (live_sig g st) as [go|]; [|exact I].
    destruct (gk_acc (g_kind go)) as [acc|].
    - destruct (g_impl go) as [i|].
      + apply with_frame_w; [exact H|exact Hy|]. intros first ph k st1 W1 Y1. apply acc_run_ww; assumption.
      + destruct (acc_run_noimpl rec arg (match aget acc (p_accs prog) with Some l => l | None => [] end) [] 0 st) as (a' & E).
        { intros k c Z. discriminate. }
        rewrite E. exact Hy.
    - destruct (g_impl go) as [i|]; [|exact Hy].
      destruct (aget i (impls st)) as [im|]; [|exact I].
      destruct (i_nodes im); [exact Hy|].
      apply with_frame_w; [exact H|exact Hy|]. intros first ph k st1 W1 Y1. apply emit_loop_ww; assumption.
  Qed.
End Interp.

(* ------------------------------------------------------------------ *)
(* Part 5: the operations                                               *)

Lemma keep_new_slot_var s rk sb st : keep st (new_slot_var s rk sb st).
Proof. repeat split. Qed.

Lemma fresh_conn_ptr c st : fresh_conn c st = true -> get_connptr (WC c) st = None.
Proof. unfold fresh_conn, get_connptr. destruct (aget c (conns st)); [discriminate|reflexivity]. Qed.

Lemma fresh_sconn_ptr k st : fresh_sconn k st = true -> get_connptr (WK k) st = None.
Proof. unfold fresh_sconn, get_connptr. destruct (aget k (sconns st)); [discriminate|reflexivity]. Qed.

Lemma none_not_some (w : wref) st : get_connptr w st = None -> forall i n, get_connptr w st <> Some (Some (i, n)).
Proof. intros -> i n. discriminate. Qed.

Lemma W_del_conn c st : W st -> unreg (WC c) st -> W (with_conns (aset c None (conns st)) st).
Proof.
  intros H Hu. apply (W_ptr st); [exact H|reflexivity|]. intro w. destruct w as [c'|k'].
  - destruct (N.eq_dec c' c) as [->|Hne]; [right; exact Hu|left].
    cbn [get_connptr conns with_conns]. rewrite aget_aset_other by exact Hne. reflexivity.
  - left. reflexivity.
Qed.

(* destruction of a connection object (OCDel, and the collection of a shared one) *)
Lemma conn_destroy_w c p st st1 : W st -> get_connptr (WC c) st = Some p -> watch_remove p (WC c) st = Ok st1 ->
  W (with_conns (aset c None (conns st1)) st1).
Proof. intros Hy Hp E1. destruct (watch_remove_w _ _ _ _ Hy Hp E1) as (H1 & U1 & _). apply W_del_conn; assumption. Qed.

Lemma watch_remove_ST p w st st' : ST st -> watch_remove p w st = Ok st' -> ST st'.
Proof.
  intro HS. unfold watch_remove. destruct p as [[i n]|]; [|intro E; injection E as <-; exact HS].
  destruct (get_sb (LNode i n) st) as [sb|]; [|discriminate].
  destruct (sb_rep sb) as [r|]; intro E; injection E as <-; [exact (ST_set_sb (LNode i n) _ st HS)|exact HS].
Qed.

Lemma conn_destroy_wn c p st st1 : WN st -> get_connptr (WC c) st = Some p -> watch_remove p (WC c) st = Ok st1 ->
  WN (with_conns (aset c None (conns st1)) st1).
Proof.
  intros (Hy & HS) Hp E1. split; [eapply conn_destroy_w; eauto|].
  unfold ST. cbn [impls with_conns]. exact (watch_remove_ST _ _ _ _ HS E1).
Qed.

Lemma W_del_sconn k st : W st -> unreg (WK k) st -> W (with_sconns (aset k None (sconns st)) st).
Proof.
  intros H Hu. apply (W_ptr st); [exact H|reflexivity|]. intro w. destruct w as [c'|k'].
  - left. reflexivity.
  - destruct (N.eq_dec k' k) as [->|Hne]; [right; exact Hu|left].
    cbn [get_connptr sconns with_sconns]. rewrite aget_aset_other by exact Hne. reflexivity.
Qed.

Section WStep.
  Variable prog : program.
  Variable rec : callee -> state -> outcome N.
  Hypothesis rec_ok : forall c st, WF st -> out_ok st (rec c st).
  Hypothesis rec_w : forall c st, WF st -> W st -> out_w (rec c st).

  Lemma skip_w st : W st -> out_w (skip st).
  Proof. intro Hy. unfold skip. cbn [out_w]. apply W_ev. exact Hy. Qed.

  Lemma conn_query_w p st : W st -> out_w (conn_query p st).
  Proof.
    intro Hy. unfold conn_query. destruct (conn_target p st) as [[[l sb]|]|]; cbn [out_w]; try apply W_ev; auto.
  Qed.

  Lemma conn_block_w p b st : WN st -> out_w (conn_block p b st).
  Proof.
    intro Hn. unfold conn_block. destruct (conn_target p st) as [[[l sb]|]|] eqn:E; cbn [out_w];
      [apply W_ev|apply W_ev; exact (proj1 Hn)|exact I].
    apply (proj1 (WN_set_sb l sb (mkSB (sb_rep sb) b) st Hn (conn_target_inv _ _ _ _ E) (or_intror eq_refl))).
  Qed.

  Lemma step_track_w o st : WF st -> W st ->
    match o with
    | OTNew _ | OTDel _ | OTAssign _ _ | OTMoveAssign _ _ | OTNotify _ | OTNewShared _ | OTRelease _ =>
        out_w (step prog rec o st)
    | _ => True
    end.
  Proof.
    intros H Hy. pose proof (WN_of _ H Hy) as Hn.
    destruct o as [t|t|td ts|td ts|t|t|t|s rk body refs|s rk|sn so|sn so|sd ss|sd ss|s arg catch|s b|s|s|s|g k|gn go|gn go|gd gs|gd gs|g|g|g|g s c front mv|g arg catch|g|g b|g|s g|c|cn co|cd cs|c|c b|c|c|c|c|k c|k|k c|kn ko|kd ks|k1 k2|k c|k|k b|k|k| | ]; try exact I; cbn [step].
    - destruct (fresh_track t st && N.ltb t 1000); [|apply skip_w; exact Hy].
      cbn [out_w]. eapply W_keep; [|exact Hy]. repeat split.
    - destruct (live_track t st); [|apply skip_w; exact Hy].
      destruct (N.ltb t 1000 && negb (is_shared t st)); [|apply skip_w; exact Hy].
      apply liftu_w. intros st' E. destruct (track_notify t st) as [st1|] eqn:E1; cbn [rbind] in E; [|discriminate].
      inversion E; subst st'. eapply W_keep; [|exact (proj1 (track_notify_w _ _ _ Hn E1))]. repeat split.
    - destruct (prog_track td st); [|apply skip_w; exact Hy].
      destruct (prog_track ts st); [|apply skip_w; exact Hy].
      destruct (N.eqb td ts); [exact Hy|]. apply liftu_w. intros st' E. exact (proj1 (track_notify_w _ _ _ Hn E)).
    - destruct (prog_track td st); [|apply skip_w; exact Hy].
      destruct (prog_track ts st); [|apply skip_w; exact Hy].
      destruct (N.eqb td ts); [exact Hy|]. apply liftu_w. intros st' E.
      destruct (track_notify td st) as [st1|] eqn:E1; cbn [rbind] in E; [|discriminate].
      exact (proj1 (track_notify_w _ _ _ (track_notify_w _ _ _ Hn E1) E)).
    - destruct (prog_track t st); [|apply skip_w; exact Hy].
      apply liftu_w. intros st' E. exact (proj1 (track_notify_w _ _ _ Hn E)).
    - destruct (fresh_track t st && N.ltb t 1000); [|apply skip_w; exact Hy].
      cbn [out_w]. eapply W_keep; [|exact Hy]. repeat split.
    - destruct (live_track t st); [|apply skip_w; exact Hy].
      destruct (is_shared t st && negb (is_released t st)); [|apply skip_w; exact Hy].
      cbn [out_w]. eapply W_keep; [|exact Hy]. repeat split.
  Qed.

  Lemma step_slot_w o st : WF st -> W st ->
    match o with
    | OSNew _ _ _ _ | OSEmpty _ _ | OSCopy _ _ | OSMove _ _ | OSAssign _ _ | OSMoveAssign _ _
    | OSCall _ _ _ | OSBlock _ _ | OSDisc _ | OSDel _ | OSQuery _ => out_w (step prog rec o st)
    | _ => True
    end.
  Proof.
    intros H Hy. pose proof (wf_c _ H) as Hc. pose proof (WN_of _ H Hy) as Hn.
    destruct o as [t|t|td ts|td ts|t|t|t|s rk body refs|s rk|sn so|sn so|sd ss|sd ss|s arg catch|s b|s|s|s|g k|gn go|gn go|gd gs|gd gs|g|g|g|g s c front mv|g arg catch|g|g b|g|s g|c|cn co|cd cs|c|c b|c|c|c|c|k c|k|k c|kn ko|kd ks|k1 k2|k c|k|k b|k|k| | ]; try exact I; cbn [step].
    - (* OSNew *)
      destruct (fresh_slot s st && _ && _); [|apply skip_w; exact Hy].
      destruct (bind_all (next_rid st) refs (with_next_rid (next_rid st + 1) st)) as [st2|] eqn:E; [|exact I].
      cbn [out_w]. eapply W_keep; [|exact Hy]. eapply keep_trans; [|apply keep_new_slot_var].
      eapply keep_trans; [|eapply bind_all_keep; eauto]. repeat split.
    - (* OSEmpty *)
      destruct (fresh_slot s st); [|apply skip_w; exact Hy]. cbn [out_w]. eapply W_keep; [apply keep_new_slot_var|exact Hy].
    - (* OSCopy *)
      destruct (live_slot so st) as [src|]; [|apply skip_w; exact Hy].
      destruct (fresh_slot sn st); [|apply skip_w; exact Hy].
      destruct (sb_copy src st) as [[sb st1]|] eqn:E; [|exact I].
      cbn [out_w]. eapply W_keep; [|exact Hy]. eapply keep_trans; [exact (proj1 (sb_copy_keep _ _ _ _ E))|apply keep_new_slot_var].
    - (* OSMove *)
      unfold live_slot. destruct (get_sb (LVar so) st) as [src|] eqn:Hsrc; [|apply skip_w; exact Hy].
      destruct (fresh_slot sn st); [|apply skip_w; exact Hy].
      destruct (sb_move src st) as [[[sb src'] st1]|] eqn:E; [|exact I].
      cbn [out_w]. eapply W_keep; [|exact Hy].
      eapply keep_trans; [exact (proj1 (sb_move_keep _ _ _ _ _ (var_sbw _ _ _ Hc Hsrc) E))|].
      eapply keep_trans; [apply (keep_set_sb_var so src' st1)|apply keep_new_slot_var].
    - (* OSAssign *)
      destruct (live_slot sd st); [|apply skip_w; exact Hy].
      destruct (live_slot ss st); [|apply skip_w; exact Hy].
      destruct (rkind_eqb _ _); [|apply skip_w; exact Hy].
      apply liftu_w. intros st' E. eapply W_keep; [eapply sb_assign_keep; eauto|exact Hy].
    - (* OSMoveAssign *)
      destruct (live_slot sd st); [|apply skip_w; exact Hy].
      destruct (live_slot ss st); [|apply skip_w; exact Hy].
      destruct (rkind_eqb _ _); [|apply skip_w; exact Hy].
      apply liftu_w. intros st' E. eapply W_keep; [eapply sb_move_assign_keep; eauto|exact Hy].
    - (* OSCall *)
      destruct (live_slot s st) as [sb|]; [|apply skip_w; exact Hy].
      destruct (negb (sb_empty sb) && negb (sb_blocked sb)); [|cbn [out_w]; apply W_ev; exact Hy].
      pose proof (invoke_at_w rec rec_w (LVar s) arg st H Hy) as Z.
      destruct (invoke_at rec (LVar s) arg st) as [st1 v|st1|e]; cbn [out_w] in *; [apply W_ev; exact Z| |exact I].
      destruct catch; cbn [out_w]; [apply W_ev|]; exact Z.
    - (* OSBlock *)
      destruct (live_slot s st) as [sb|]; [|apply skip_w; exact Hy].
      cbn [out_w]. apply W_ev. eapply W_keep; [apply keep_set_sb_var|exact Hy].
    - (* OSDisc *)
      destruct (live_slot s st); [|apply skip_w; exact Hy].
      apply liftu_w. intros st' E. exact (proj1 (rep_disconnect_w _ _ _ Hn E)).
    - (* OSDel *)
      unfold live_slot. destruct (get_sb (LVar s) st) as [sb|] eqn:Hsb; [|apply skip_w; exact Hy].
      apply liftu_w. intros st' E. eapply W_keep; [eapply del_slot_keep; eauto|exact Hy].
    - (* OSQuery *)
      destruct (live_slot s st); [|apply skip_w; exact Hy]. cbn [out_w]. apply W_ev. exact Hy.
  Qed.

  Lemma sig_destroy_w g go st st' : WN st -> sig_destroy g go st = Ok st' -> WN st'.
  Proof.
    intros Hn. unfold sig_destroy.
    assert (Hmid : forall st1, (if gk_track (g_kind go)
                      then st1 <- track_notify (trackable_of_sig g) st ;;
                           Ok (with_tracks (aset (trackable_of_sig g) None (tracks st1)) st1)
                      else Ok st) = Ok st1 -> WN st1).
    { intros st1. destruct (gk_track (g_kind go)); [|intro E; inversion E; subst; exact Hn].
      destruct (track_notify (trackable_of_sig g) st) as [sta|] eqn:Ea; cbn [rbind]; [|discriminate].
      intro E. inversion E; subst. eapply WN_keep; [|exact (track_notify_w _ _ _ Hn Ea)]. repeat split. }
    destruct (if gk_track (g_kind go) then _ else _) as [st1|]; cbn [rbind]; [|discriminate].
    pose proof (Hmid st1 eq_refl) as H1.
    assert (H2 : WN (with_sigs (aset g None (sigs st1)) st1)) by (eapply WN_keep; [|exact H1]; repeat split).
    destruct (g_impl go) as [i|]; [apply release_check_w; exact H2|intro E; inversion E; subst; exact H2].
  Qed.

  Lemma step_sig_w o st : WF st -> W st ->
    match o with
    | OGNew _ _ | OGCopy _ _ | OGMove _ _ | OGAssign _ _ | OGMoveAssign _ _ | OGShare _ | OGRelease _ | OGDel _
    | OGEmit _ _ _ | OGClear _ | OGBlock _ _ | OGQuery _ | OGMakeSlot _ _ => out_w (step prog rec o st)
    | _ => True
    end.
  Proof.
    intros H Hy. pose proof (WN_of _ H Hy) as Hn.
    destruct o as [t|t|td ts|td ts|t|t|t|s rk body refs|s rk|sn so|sn so|sd ss|sd ss|s arg catch|s b|s|s|s|g k|gn go|gn go|gd gs|gd gs|g|g|g|g s c front mv|g arg catch|g|g b|g|s g|c|cn co|cd cs|c|c b|c|c|c|c|k c|k|k c|kn ko|kd ks|k1 k2|k c|k|k b|k|k| | ]; try exact I; cbn [step].
    - (* OGNew *)
      destruct (fresh_sig g st && _); [|apply skip_w; exact Hy].
      cbn [out_w]. destruct (gk_track k); (eapply W_keep; [|exact Hy]; repeat split).
    - (* OGCopy *)
      destruct (live_sig go st) as [src|]; [|apply skip_w; exact Hy].
      destruct (fresh_sig gn st); [|apply skip_w; exact Hy].
      destruct (ensure_impl go src st) as [i st1] eqn:E.
      pose proof (ensure_impl_w _ _ _ _ _ Hn E) as H1. cbn [out_w].
      destruct (gk_track (g_kind src)); (eapply W_keep; [|exact (proj1 H1)]; repeat split).
    - (* OGMove *)
      destruct (live_sig go st) as [src|]; [|apply skip_w; exact Hy].
      destruct (fresh_sig gn st && _); [|apply skip_w; exact Hy].
      destruct (gk_track (g_kind src)).
      + apply liftu_w. intros st' E. refine (proj1 (track_notify_w _ _ _ _ E)).
        eapply WN_keep; [|exact Hn]. repeat split.
      + cbn [out_w]. eapply W_keep; [|exact Hy]. repeat split.
    - (* OGAssign *)
      destruct (live_sig gd st) as [dst|]; [|apply skip_w; exact Hy].
      destruct (live_sig gs st) as [src|]; [|apply skip_w; exact Hy].
      destruct (same_gkind (g_kind dst) (g_kind src)); [|apply skip_w; exact Hy].
      destruct (match g_impl dst with Some a => match g_impl src with Some b => N.eqb a b | None => false end | None => false end);
        [exact Hy|].
      destruct (ensure_impl gs src st) as [i st1] eqn:E.
      pose proof (ensure_impl_w _ _ _ _ _ Hn E) as H1.
      assert (H2 : WN (with_sigs (aset gd (Some (mkSig (g_kind dst) (Some i))) (sigs st1)) st1))
        by (eapply WN_keep; [|exact H1]; repeat split).
      destruct (g_impl dst) as [old|].
      + apply liftu_w. intros st' E'. exact (proj1 (release_check_w _ _ _ H2 E')).
      + exact (proj1 H2).
    - (* OGMoveAssign *)
      destruct (live_sig gd st) as [dst|]; [|apply skip_w; exact Hy].
      destruct (live_sig gs st) as [src|]; [|apply skip_w; exact Hy].
      destruct (same_gkind (g_kind dst) (g_kind src) && _); [|apply skip_w; exact Hy].
      destruct (match g_impl dst with
                | Some a => match g_impl src with Some b => N.eqb a b | None => false end
                | None => match g_impl src with Some _ => false | None => true end
                end); [exact Hy|].
      set (st1 := with_sigs (aset gd (Some (mkSig (g_kind dst) (g_impl src)))
                     (aset gs (Some (mkSig (g_kind src) None)) (sigs st))) st).
      assert (H1 : WN st1) by (eapply WN_keep; [|exact Hn]; repeat split).
      assert (Hrel : forall st2, match g_impl dst with Some old => release_check old st1 | None => Ok st1 end = Ok st2 -> WN st2).
      { intros st2. destruct (g_impl dst) as [old|]; [apply release_check_w; exact H1|intro E; inversion E; subst; exact H1]. }
      destruct (match g_impl dst with Some old => release_check old st1 | None => Ok st1 end) as [st2|]; [|exact I].
      pose proof (Hrel st2 eq_refl) as H2.
      destruct (gk_track (g_kind src) && _).
      + apply liftu_w. intros st' E. exact (proj1 (track_notify_w _ _ _ H2 E)).
      + exact (proj1 H2).
    - (* OGShare *)
      destruct (live_sig g st) as [go|]; [|apply skip_w; exact Hy].
      destruct (negb (is_shared (sig_key g) st) && N.ltb g 1000); [|apply skip_w; exact Hy].
      cbn [out_w]. eapply W_keep; [|exact Hy]. repeat split.
    - (* OGRelease *)
      destruct (live_sig g st) as [go|]; [|apply skip_w; exact Hy].
      destruct (is_shared (sig_key g) st && negb (is_released (sig_key g) st)); [|apply skip_w; exact Hy].
      cbn [out_w]. eapply W_keep; [|exact Hy]. repeat split.
    - (* OGDel *)
      destruct (live_sig g st) as [go|]; [|apply skip_w; exact Hy].
      destruct (negb (is_shared (sig_key g) st)); [|apply skip_w; exact Hy].
      apply liftu_w. intros st' E. exact (proj1 (sig_destroy_w _ _ _ _ Hn E)).
    - (* OGEmit *)
      destruct (live_sig g st) as [go|]; [|apply skip_w; exact Hy].
      pose proof (emit_sig_w prog rec rec_ok rec_w g arg st H Hy) as Z.
      destruct (emit_sig prog rec g arg st) as [st1 v|st1|e]; cbn [out_w] in *; [apply W_ev; exact Z| |exact I].
      destruct catch; cbn [out_w]; [apply W_ev|]; exact Z.
    - (* OGClear *)
      destruct (live_sig g st) as [go|]; [|apply skip_w; exact Hy].
      destruct (g_impl go) as [i|]; [|exact Hy].
      apply liftu_w. intros st' E. exact (proj1 (impl_clear_w _ _ _ Hn E)).
    - (* OGBlock *)
      destruct (live_sig g st) as [go|]; [|apply skip_w; exact Hy].
      destruct (g_impl go) as [i|]; [|exact Hy].
      apply liftu_w. intros st' E. exact (proj1 (block_all_w _ _ _ _ Hn E)).
    - (* OGQuery *)
      destruct (live_sig g st) as [go|]; [|apply skip_w; exact Hy].
      destruct (g_impl go) as [i|]; [|cbn [out_w]; apply W_ev; exact Hy].
      destruct (aget i (impls st)); [cbn [out_w]; apply W_ev; exact Hy|exact I].
    - (* OGMakeSlot *)
      destruct (live_sig g st) as [go|]; [|apply skip_w; exact Hy].
      destruct (fresh_slot s st && _); [|apply skip_w; exact Hy].
      destruct (bind_all _ _ _) as [st2|] eqn:E; [|exact I].
      cbn [out_w]. eapply W_keep; [|exact Hy]. eapply keep_trans; [|apply keep_new_slot_var].
      eapply keep_trans; [|eapply bind_all_keep; eauto]. repeat split.
  Qed.

  Lemma step_conn_w o st : WF st -> W st ->
    match o with
    | OCEmpty _ | OCCopy _ _ | OCAssign _ _ | OCDisc _ | OCBlock _ _ | OCShare _ | OCRelease _ | OCDel _ | OCQuery _
    | OKNew _ _ | OKEmpty _ | OKAssign _ _ | OKMove _ _ | OKMoveAssign _ _ | OKSwap _ _ | OKRelease _ _
    | OKDisc _ | OKBlock _ _ | OKDel _ | OKQuery _ => out_w (step prog rec o st)
    | _ => True
    end.
  Proof.
    intros H Hy. pose proof (WN_of _ H Hy) as Hn.
    destruct o as [t|t|td ts|td ts|t|t|t|s rk body refs|s rk|sn so|sn so|sd ss|sd ss|s arg catch|s b|s|s|s|g k|gn go|gn go|gd gs|gd gs|g|g|g|g s c front mv|g arg catch|g|g b|g|s g|c|cn co|cd cs|c|c b|c|c|c|c|k c|k|k c|kn ko|kd ks|k1 k2|k c|k|k b|k|k| | ]; try exact I; cbn [step].
    - (* OCEmpty *)
      destruct (fresh_conn c st) eqn:Hf; [|apply skip_w; exact Hy]. cbn [out_w].
      apply set_connptr_W; [exact Hy|]. apply W_unreg_null; [exact Hy|]. apply none_not_some. apply fresh_conn_ptr. exact Hf.
    - (* OCCopy *)
      destruct (get_connptr (WC co) st) as [p|]; [|apply skip_w; exact Hy].
      destruct (fresh_conn cn st) eqn:Hf; [|apply skip_w; exact Hy].
      apply liftu_w. intros st' E. eapply set_conn_w; [exact Hy| |exact E]. apply none_not_some. apply fresh_conn_ptr. exact Hf.
    - (* OCAssign *)
      destruct (get_connptr (WC cd) st) as [pd|]; [|apply skip_w; exact Hy].
      destruct (get_connptr (WC cs) st) as [p|]; [|apply skip_w; exact Hy].
      apply liftu_w. intros st' E. exact (proj1 (conn_set_w _ _ _ _ Hy E)).
    - (* OCDisc *)
      destruct (get_connptr (WC c) st) as [p|]; [|apply skip_w; exact Hy].
      apply liftu_w. intros st' E. exact (proj1 (conn_disconnect_w _ _ _ Hn E)).
    - (* OCBlock *)
      destruct (get_connptr (WC c) st) as [p|]; [|apply skip_w; exact Hy]. apply conn_block_w. exact Hn.
    - (* OCShare *)
      destruct (get_connptr (WC c) st) as [p|]; [|apply skip_w; exact Hy].
      destruct (negb (is_shared (conn_key c) st) && N.ltb c 1000); [|apply skip_w; exact Hy].
      cbn [out_w]. eapply W_keep; [|exact Hy]. repeat split.
    - (* OCRelease *)
      destruct (get_connptr (WC c) st) as [p|]; [|apply skip_w; exact Hy].
      destruct (is_shared (conn_key c) st && negb (is_released (conn_key c) st)); [|apply skip_w; exact Hy].
      cbn [out_w]. eapply W_keep; [|exact Hy]. repeat split.
    - (* OCDel *)
      destruct (get_connptr (WC c) st) as [p|] eqn:Hp; [|apply skip_w; exact Hy].
      destruct (negb (is_shared (conn_key c) st)); [|apply skip_w; exact Hy].
      apply liftu_w. intros st' E. destruct (watch_remove p (WC c) st) as [st1|] eqn:E1; cbn [rbind] in E; [|discriminate].
      inversion E; subst st'. eapply conn_destroy_w; eauto.
    - (* OCQuery *)
      destruct (get_connptr (WC c) st) as [p|]; [|apply skip_w; exact Hy]. apply conn_query_w. exact Hy.
    - (* OKNew *)
      destruct (get_connptr (WC c) st) as [p|]; [|apply skip_w; exact Hy].
      destruct (fresh_sconn k st) eqn:Hf; [|apply skip_w; exact Hy].
      apply liftu_w. intros st' E. eapply set_conn_w; [exact Hy| |exact E]. apply none_not_some. apply fresh_sconn_ptr. exact Hf.
    - (* OKEmpty *)
      destruct (fresh_sconn k st) eqn:Hf; [|apply skip_w; exact Hy]. cbn [out_w].
      apply set_connptr_W; [exact Hy|]. apply W_unreg_null; [exact Hy|]. apply none_not_some. apply fresh_sconn_ptr. exact Hf.
    - (* OKAssign *)
      destruct (get_connptr (WK k) st) as [old|]; [|apply skip_w; exact Hy].
      destruct (get_connptr (WC c) st) as [pc|]; [|apply skip_w; exact Hy].
      apply liftu_w. intros st' E. destruct (conn_disconnect old st) as [st1|] eqn:E1; cbn [rbind] in E; [|discriminate].
      pose proof (conn_disconnect_w _ _ _ Hn E1) as H1.
      destruct (get_connptr (WK k) st1); [|discriminate]. destruct (get_connptr (WC c) st1); [|discriminate].
      exact (proj1 (conn_set_w _ _ _ _ (proj1 H1) E)).
    - (* OKMove *)
      destruct (get_connptr (WK ko) st) as [p|] eqn:Hp; [|apply skip_w; exact Hy].
      destruct (fresh_sconn kn st) eqn:Hf; [|apply skip_w; exact Hy].
      apply liftu_w. intros st' E. destruct (conn_set (WK ko) None st) as [st1|] eqn:E1; cbn [rbind] in E; [|discriminate].
      destruct (conn_set_w _ _ _ _ Hy E1) as (H1 & P1).
      pose proof (fresh_sconn_ptr _ _ Hf) as Hfn.
      eapply set_conn_w; [exact H1| |exact E]. apply none_not_some. rewrite P1; [exact Hfn|].
      intro Z. inversion Z; subst. rewrite Hp in Hfn. discriminate.
    - (* OKMoveAssign *)
      destruct (get_connptr (WK kd) st) as [old|]; [|apply skip_w; exact Hy].
      destruct (get_connptr (WK ks) st) as [ps|]; [|apply skip_w; exact Hy].
      destruct (N.eqb kd ks); [apply skip_w; exact Hy|].
      apply liftu_w. intros st' E. destruct (conn_disconnect old st) as [st1|] eqn:E1; cbn [rbind] in E; [|discriminate].
      pose proof (conn_disconnect_w _ _ _ Hn E1) as H1.
      destruct (get_connptr (WK ks) st1) as [p|]; [|discriminate].
      destruct (conn_set (WK ks) None st1) as [st2|] eqn:E2; cbn [rbind] in E; [|discriminate].
      exact (proj1 (conn_set_w _ _ _ _ (proj1 (conn_set_w _ _ _ _ (proj1 H1) E2)) E)).
    - (* OKSwap *)
      destruct (get_connptr (WK k1) st) as [p1|]; [|apply skip_w; exact Hy].
      destruct (get_connptr (WK k2) st) as [p2|]; [|apply skip_w; exact Hy].
      destruct (N.eqb k1 k2); [apply skip_w; exact Hy|].
      apply liftu_w. intros st' E. destruct (conn_set (WK k1) p2 st) as [st1|] eqn:E1; cbn [rbind] in E; [|discriminate].
      exact (proj1 (conn_set_w _ _ _ _ (proj1 (conn_set_w _ _ _ _ Hy E1)) E)).
    - (* OKRelease *)
      destruct (get_connptr (WK k) st) as [p|]; [|apply skip_w; exact Hy].
      destruct (fresh_conn c st) eqn:Hf; [|apply skip_w; exact Hy].
      apply liftu_w. intros st' E. destruct (conn_set (WK k) None st) as [st1|] eqn:E1; cbn [rbind] in E; [|discriminate].
      destruct (conn_set_w _ _ _ _ Hy E1) as (H1 & P1).
      eapply set_conn_w; [exact H1| |exact E]. apply none_not_some. rewrite P1; [apply fresh_conn_ptr; exact Hf|discriminate].
    - (* OKDisc *)
      destruct (get_connptr (WK k) st) as [p|]; [|apply skip_w; exact Hy].
      apply liftu_w. intros st' E. exact (proj1 (conn_disconnect_w _ _ _ Hn E)).
    - (* OKBlock *)
      destruct (get_connptr (WK k) st) as [p|]; [|apply skip_w; exact Hy]. apply conn_block_w. exact Hn.
    - (* OKDel *)
      destruct (get_connptr (WK k) st) as [p|]; [|apply skip_w; exact Hy].
      apply liftu_w. intros st' E. destruct (conn_disconnect p st) as [st1|] eqn:E1; cbn [rbind] in E; [|discriminate].
      pose proof (conn_disconnect_w _ _ _ Hn E1) as H1.
      destruct (get_connptr (WK k) st1) as [p1|] eqn:Hp1; [|discriminate].
      destruct (watch_remove p1 (WK k) st1) as [st2|] eqn:E2; cbn [rbind] in E; [|discriminate].
      inversion E; subst st'. destruct (watch_remove_w _ _ _ _ (proj1 H1) Hp1 E2) as (H2 & U2 & _).
      apply W_del_sconn; assumption.
    - (* OKQuery *)
      destruct (get_connptr (WK k) st) as [p|]; [|apply skip_w; exact Hy]. apply conn_query_w. exact Hy.
  Qed.

  Lemma step_connect_w g s c front mv st : WF st -> W st -> out_w (step prog rec (OGConnect g s c front mv) st).
  Proof.
    intros H Hy. pose proof (WN_of _ H Hy) as Hn. cbn [step].
    destruct (live_sig g st) as [go|] eqn:Hl; [|apply skip_w; exact Hy].
    unfold live_slot. destruct (get_sb (LVar s) st) as [src|] eqn:Hsrc; [|apply skip_w; exact Hy].
    destruct (rkind_eqb _ _); [|apply skip_w; exact Hy].
    destruct (ensure_impl g go st) as [i st1] eqn:E.
    pose proof (ensure_impl_w _ _ _ _ _ Hn E) as H1.
    pose proof (var_sbw _ _ _ (wf_c _ H) Hsrc) as Hsw.
    destruct (if mv then sb_move src st1 else '(sb, st2) <- sb_copy src st1 ;; Ok (sb, src, st2)) as [[[sb src'] st2]|] eqn:E2; [|exact I].
    assert (L2 : keep st1 st2 /\ sbw sb = []).
    { destruct mv; [eapply sb_move_keep; eauto|].
      destruct (sb_copy src st1) as [[sb0 st20]|] eqn:E3; cbn [rbind] in E2; [|discriminate].
      inversion E2; subst. eapply sb_copy_keep; eauto. }
    destruct L2 as (L2 & Hsb).
    assert (Y3 : W (set_sb (LVar s) src' st2)).
    { eapply W_keep; [apply keep_set_sb_var|]. eapply W_keep; [exact L2|exact (proj1 H1)]. }
    destruct (impl_insert i front sb (set_sb (LVar s) src' st2)) as [[n st4]|] eqn:E4; [|exact I].
    pose proof (impl_insert_w _ _ _ _ _ _ Y3 Hsb E4) as Y4.
    destruct c as [cv|]; [|exact Y4].
    destruct (fresh_conn cv st4) eqn:Hf.
    - apply liftu_w. intros st' E'. eapply set_conn_w; [exact Y4| |exact E']. apply none_not_some. apply fresh_conn_ptr. exact Hf.
    - destruct (get_connptr (WC cv) st4); [|exact Y4]. apply liftu_w. intros st' E'. exact (proj1 (conn_set_w _ _ _ _ Y4 E')).
  Qed.

  Theorem step_w o st : WF st -> W st -> out_w (step prog rec o st).
  Proof.
    intros H Hy.
    pose proof (step_track_w o st H Hy) as X1. pose proof (step_slot_w o st H Hy) as X2.
    pose proof (step_sig_w o st H Hy) as X3. pose proof (step_conn_w o st H Hy) as X4.
    destruct o; try exact X1; try exact X2; try exact X3; try exact X4.
    - apply step_connect_w; assumption.
    - cbn [step out_w]. apply W_ev. exact Hy.
    - cbn [step out_w]. exact Hy.
  Qed.

  Lemma gc_w : forall fuel st st', WN st -> gc prog fuel st = Ok st' -> WN st'.
  Proof.
    induction fuel as [|fuel IH]; intros st st' Hn; cbn [gc].
    - destruct (find_orphan prog (shared st) st); [discriminate|]. intro E. inversion E; subst. exact Hn.
    - destruct (find_orphan prog (shared st) st) as [t|]; [|intro E; inversion E; subst; exact Hn].
      destruct (N.leb 4000 t); [|destruct (N.leb 2000 t)].
      + destruct (get_connptr (WC (t - 4000)) st) as [p|] eqn:Hp; [|discriminate].
        destruct (watch_remove p (WC (t - 4000)) st) as [st1|] eqn:E1; cbn [rbind]; [|discriminate].
        apply IH. exact (conn_destroy_wn _ _ _ _ Hn Hp E1).
      + destruct (live_sig (t - 2000) st) as [go|]; [|discriminate].
        destruct (sig_destroy (t - 2000) go st) as [st1|] eqn:E1; cbn [rbind]; [|discriminate].
        apply IH. exact (sig_destroy_w _ _ _ _ Hn E1).
      + destruct (track_notify t st) as [st1|] eqn:E1; cbn [rbind]; [|discriminate].
        apply IH. eapply WN_keep; [|exact (track_notify_w _ _ _ Hn E1)]. repeat split.
  Qed.

  Lemma gc_shared_w st st' : WF st -> W st -> gc_shared prog st = Ok st' -> W st'.
  Proof. intros H Hy E. exact (proj1 (gc_w _ _ _ (WN_of _ H Hy) E)). Qed.

  Lemma run_ops_w ops : forall st, WF st -> W st -> out_w (run_ops prog rec ops st).
  Proof.
    induction ops as [|o ops IH]; intros st H Hy; cbn [run_ops]; [exact Hy|].
    pose proof (step_ok prog rec rec_ok o st H) as Z. pose proof (step_w o st H Hy) as Zy.
    destruct (step prog rec o st) as [st1 u|st1|e]; cbn [out_ok out_w] in *; [|exact Zy|exact I].
    destruct (gc_shared_ok prog st1 (proj1 Z)) as (st2 & E2 & G2). rewrite E2.
    apply IH; [exact (proj1 G2)|eapply gc_shared_w; [exact (proj1 Z)|exact Zy|exact E2]].
  Qed.

  Lemma run_callee_w c st : WF st -> W st -> out_w (run_callee prog rec c st).
  Proof.
    intros H Hy. destruct c as [b arg|g arg]; cbn [run_callee].
    - destruct (aget b (p_scripts prog)) as [[ops rs]|]; [|exact Hy].
      pose proof (run_ops_w ops st H Hy) as Z. destruct (run_ops prog rec ops st); exact Z.
    - apply (emit_sig_w prog rec rec_ok rec_w); assumption.
  Qed.
End WStep.

Lemma run_callee_fuel_w prog fuel : forall c st, WF st -> W st -> out_w (run_callee_fuel prog fuel c st).
Proof.
  induction fuel as [|fuel IH]; intros c st H Hy; cbn [run_callee_fuel]; [exact I|].
  apply run_callee_w; [apply run_callee_fuel_ok|exact IH|exact H|exact Hy].
Qed.

Lemma W_st0 : W st0.
Proof. intros i n. split; [constructor|intros w []]. Qed.

Theorem run_top_w : forall p fuel ops st st', WF_top st -> W st -> run_top p fuel ops st = Ok st' -> W st'.
Proof.
  intros p fuel ops. induction ops as [|o ops IH]; intros st st' [H Q] Hy; cbn [run_top]; [intro E; inversion E; subst; exact Hy|].
  pose proof (step_ok p (run_callee_fuel p fuel) (run_callee_fuel_ok p fuel) o st H) as Z.
  pose proof (step_w p (run_callee_fuel p fuel) (run_callee_fuel_ok p fuel) (run_callee_fuel_w p fuel) o st H Hy) as Zy.
  destruct (step p (run_callee_fuel p fuel) o st) as [st1 u|st1|e]; cbn [out_ok out_w] in Z, Zy; [| |discriminate].
  - destruct (gc_shared_ok p st1 (proj1 Z)) as (st2 & E2 & G2). rewrite E2. cbn [rbind].
    assert (G : Guar st st2) by (eapply Guar_trans; eauto).
    apply IH; [split; [exact (proj1 G)|eapply Guar_quiescent; eauto]|].
    eapply gc_shared_w; [exact (proj1 Z)|exact Zy|exact E2].
  - assert (G1 : Guar st (emit_ev EExn st1)) by (eapply Guar_sim_r; [apply sim_emit_ev|exact Z]).
    destruct (gc_shared_ok p (emit_ev EExn st1) (proj1 G1)) as (st2 & E2 & G2). rewrite E2. cbn [rbind].
    assert (G : Guar st st2) by (eapply Guar_trans; eauto).
    apply IH; [split; [exact (proj1 G)|eapply Guar_quiescent; eauto]|].
    eapply gc_shared_w; [exact (proj1 G1)|apply W_ev; exact Zy|exact E2].
Qed.

(* ------------------------------------------------------------------ *)
(* Part 6: the statements                                               *)

Theorem watch_exact_reachable : S_watch_exact.
Proof.
  intros p fuel st (ops & E) i im nd r w Hi Hin Hr Hw.
  pose proof (run_top_safe p fuel ops st0 WF_top_st0) as Z. rewrite E in Z.
  pose proof (run_top_w p fuel ops st0 st WF_top_st0 W_st0 E) as HW.
  destruct Z as (Hwf & _).
  assert (Hwat : wat st i (n_id nd) = r_watch r).
  { unfold wat, watl. rewrite Hi. rewrite (find_node_in_nodup _ _ (proj2 (ST_of_WF _ Hwf) i im Hi) Hin).
    unfold sbw. rewrite Hr. reflexivity. }
  unfold conn_ptr. rewrite (proj2 (HW i (n_id nd)) w); [reflexivity|rewrite Hwat; exact Hw].
Qed.

(* and at most once *)
Theorem watch_nodup_reachable : forall p fuel st, reachable p fuel st ->
  forall i im nd r, aget i (impls st) = Some im -> In nd (i_nodes im) -> sb_rep (n_sb nd) = Some r -> NoDup (r_watch r).
Proof.
  intros p fuel st (ops & E) i im nd r Hi Hin Hr.
  pose proof (run_top_safe p fuel ops st0 WF_top_st0) as Z. rewrite E in Z.
  pose proof (run_top_w p fuel ops st0 st WF_top_st0 W_st0 E) as HW.
  destruct Z as (Hwf & _).
  assert (Hwat : wat st i (n_id nd) = r_watch r).
  { unfold wat, watl. rewrite Hi. rewrite (find_node_in_nodup _ _ (proj2 (ST_of_WF _ Hwf) i im Hi) Hin).
    unfold sbw. rewrite Hr. reflexivity. }
  rewrite <- Hwat. exact (proj1 (HW i (n_id nd))).
Qed.

Theorem scoped_assign_disconnects_old_reachable : S_scoped_assign_disconnects_old_reachable.
Proof.
  intros p fuel st Hr prog rec k c st' i n im pc Hk Hc Hne Hi Hstep.
  destruct (quiescent_lists p fuel st Hr) as (HT & Hatt & _ & _).
  pose proof (watch_exact_reachable p fuel st Hr) as Hex.
  destruct (wf_conn_target st (WK k) i n (proj1 HT) Hk) as (sb & r & Hsb & Hrep & Hin).
  destruct (get_sb_node_inv _ _ _ _ Hsb) as (im0 & nd & Hi0 & Hf & Hnsb).
  rewrite Hi in Hi0. inversion Hi0; subst im0.
  destruct (find_node_in _ _ _ Hf) as (Hnd & Hid).
  assert (Hr0 : sb_rep (n_sb nd) = Some r) by (rewrite Hnsb; exact Hrep).
  destruct (Hatt i im nd Hi Hnd) as (r' & Hr' & Ha). rewrite Hr0 in Hr'. inversion Hr'; subst r'.
  apply (scoped_assign_disconnects_old_partial prog rec k c st st' i n im pc HT Hk Hc Hne Hi); [|exact Hstep].
  exists r, sb. split; [exact Hsb|]. split; [exact Hrep|]. split; [exact Ha|].
  intro Hwc. pose proof (Hex i im nd r (WC c) Hi Hnd Hr0 Hwc) as Z.
  unfold conn_ptr in Z. rewrite Hc, Hid in Z. exact (Hne Z).
Qed.

Print Assumptions watch_exact_reachable.
Print Assumptions watch_nodup_reachable.
Print Assumptions scoped_assign_disconnects_old_reachable.
