(* Properties_C09.v -- auto-disconnection reaches through every adaptor and nesting.
   Statements only; proofs live in AdaptorProofs.v; the obligations over gen/Tables.v (regenerated
   from /repo on every run) are closed by computation. *)
From Coq Require Import List String ZArith NArith Bool Permutation.
Import ListNotations.
Require Import GenTypes AdaptorModel AdaptorProofs gen.Tables.
Local Open Scope string_scope.
Local Open Scope list_scope.

(* ---- obligations over the regenerated tables ---- *)
(* every visitor<X>::do_visit_each visits each data member of X exactly once and completely *)
Theorem C09_gen_table_ok : table_ok gen_visit_table = true.
Proof. vm_compute. reflexivity. Qed.
Print Assumptions C09_gen_table_ok.

(* the data members the source declares in the adaptor classes are exactly those the model knows *)
Theorem C09_gen_fields_ok : fields_ok gen_members = true.
Proof. vm_compute. reflexivity. Qed.
Print Assumptions C09_gen_fields_ok.

(* ---- unbounded theorems ---- *)
(* for every functor expression of any depth: what visit_each_trackable reaches is exactly (as a
   multiset) the trackables the expression refers to by reference *)
Theorem C09_visit_reaches_all :
  forall T, table_ok T = true -> forall e, Permutation (visited T e) (refs e).
Proof. exact visit_reaches_all. Qed.
Print Assumptions C09_visit_reaches_all.

Corollary C09_auto_disconnect_reaches_every_adaptor :
  forall e t, In t (refs e) <-> In t (visited gen_visit_table e).
Proof. exact (reaches_iff gen_visit_table C09_gen_table_ok). Qed.
Print Assumptions C09_auto_disconnect_reaches_every_adaptor.

(* destroying the slot first leaves no trace: unbinding visits the same list as binding did, so
   the registration multiset of every trackable returns to what it was *)
Theorem C09_unbind_mirrors_bind :
  forall T e (regs : list N) t,
    count_occ N.eq_dec (unbind_regs (visited T e) (bind_regs (visited T e) regs)) t = count_occ N.eq_dec regs t.
Proof. exact unbind_mirrors_bind. Qed.
Print Assumptions C09_unbind_mirrors_bind.

(* a table that forgets one member loses references: the pre-fix bind<I> visitor (first bound
   argument only) misses the second std::ref *)
Example C09_incomplete_table_refuted :
  let T := ("bind_functor", [VMember "functor_"; VTupleElem "bound_" 0]) :: gen_visit_table in
  table_ok T = false /\
  visited T (FBind (Some 0) (FLeaf 1 false) [BRef 1; BRef 2]) = [1%N] /\
  refs (FBind (Some 0) (FLeaf 1 false) [BRef 1; BRef 2]) = [1%N; 2%N].
Proof. vm_compute. repeat split; reflexivity. Qed.

(* non-vacuity: a deep expression mixing every adaptor *)
Example C09_example :
  let e := FHide None (FBind (Some 1) (FCompose2 (FLeaf 1 false) (FMem 3 2 [PVal; PRef]) (FTrackObj (FSlot (FBindReturn (FRetype (FLeaf 4 false)) (BCRef 5))) [6%N; 6%N]))
                              [BVal 7; BRef 8]) in
  visited gen_visit_table e = [3; 5; 6; 6; 8]%N /\ refs e = [3; 5; 6; 6; 8]%N.
Proof. vm_compute. split; reflexivity. Qed.

(* every bound mem_fun factory types its functor after the object's class *)
Theorem C09_gen_mem_fun_typed_after_object : memfun_class_ok gen_memfun_class = true.
Proof. vm_compute. reflexivity. Qed.
Print Assumptions C09_gen_mem_fun_typed_after_object.

(* signal_connect() forwards to connect(ptr_fun / mem_fun) with its own parameters: the slots it makes
   are those of the model *)
Theorem C09_gen_signal_connect_forwards : signal_connect_ok gen_signal_connect = true.
Proof. vm_compute. reflexivity. Qed.
Print Assumptions C09_gen_signal_connect_forwards.

(* ---- slots that hold other slots by value or refer to slot variables through std::ref (NestModel.v) ---- *)
Require NestSpec NestProofs.

(* a slot stored inside an expression has the slot made from the expression as parent, so its invalidation reaches it *)
Theorem C09_nested_value_child_reports_to_holder : NestSpec.S_nest_value_child_parent.
Proof. exact NestProofs.nest_value_child_parent. Qed.
Print Assumptions C09_nested_value_child_reports_to_holder.

(* each trackable holds exactly one armed callback entry per reference held by a functor, and nothing else *)
Theorem C09_nested_tied_to_every_trackable : NestSpec.S_nest_regs_exact.
Proof. exact NestProofs.nest_regs_exact. Qed.
Print Assumptions C09_nested_tied_to_every_trackable.

(* destroying any referenced trackable invalidates the slot, through any depth of by-value nesting *)
Theorem C09_nested_trackable_death_invalidates : NestSpec.S_nest_tdel.
Proof. exact NestProofs.nest_tdel. Qed.
Print Assumptions C09_nested_trackable_death_invalidates.

(* ... and through std::ref: the slot that adopted the referenced slot variable is invalidated with it *)
Theorem C09_nested_adopter_invalidated : NestSpec.S_nest_tdel_adopter.
Proof. exact NestProofs.nest_tdel_adopter. Qed.
Print Assumptions C09_nested_adopter_invalidated.

(* destroying the slot first leaves no callback entry and no parent_ denoting any slot_rep that lived in it *)
Theorem C09_nested_destroyed_slot_leaves_no_trace : NestSpec.S_nest_sdel_no_trace.
Proof. exact NestProofs.nest_sdel_no_trace. Qed.
Print Assumptions C09_nested_destroyed_slot_leaves_no_trace.
