(* NestProofs14.v -- the operations, one by one *)
From Coq Require Import List NArith Bool Arith Lia Permutation.
Import ListNotations.
Require Import Util NestModel NestSpec NestProofs1 NestProofs2 NestProofs3 NestProofs4 NestProofs5 NestProofs6 NestProofs7 NestProofs8 NestProofs9 NestProofs10 NestProofs11 NestProofs12 NestProofs13.
Local Open Scope N_scope.

Lemma nskip_ok : forall st, NInv st -> exists st', nskip st = NOk st' /\ NInv st'.
Proof. intros st H. exists (emit NSkip st). split; [reflexivity | apply ginv_emit; exact H]. Qed.

(* ---- NTNew ---- *)
Lemma step_tnew : forall st t, NInv st -> exists st', nstep (NTNew t) st = NOk st' /\ NInv st'.
Proof.
  intros st t H. cbn [nstep]. destruct (fresh_tr t st) eqn:E; [|apply nskip_ok; exact H].
  eexists. split; [reflexivity|]. apply ginv_new_track; [exact H | apply fresh_tr_live; exact E].
Qed.

(* ---- NTDel ---- *)
Lemma direct_refs_in_pos : forall t u, In (ITrack t) (items_of u) -> direct_refs t u <> O.
Proof.
  intros t u H. rewrite direct_refs_eq. induction (items_of u) as [|it tl IH]; [destruct H|].
  cbn [filter]. destruct H as [->|H].
  - rewrite is_track_refl. discriminate.
  - destruct (is_track t it); [discriminate | apply IH; exact H].
Qed.

Lemma RegsLe_length : forall l l', RegsLe l l' -> length l' = length l.
Proof. intros l l' H. induction H; cbn; congruence. Qed.

Lemma step_tdel_live : forall st t x, NInv st -> live_tr t st = Some x ->
  exists st2, nstep (NTDel t) st = NOk (with_tracks (aset t None (tracks st2)) st2) /\
    NInv (with_tracks (aset t None (tracks st2)) st2) /\
    GInv (Some t) [] [] st2 /\ Evo st st2 /\ (forall s, vkind s st2 = vkind s st) /\
    (forall u, In u (all_reps st2) -> ~ In (ITrack t) (items_of u)) /\ AdoptRel st st2.
Proof.
  intros st t x H Hx. cbn [nstep]. rewrite Hx.
  set (st1 := with_tracks (aset t (Some (mkTr (t_regs x) true)) (tracks st)) st).
  pose proof (ginv_start_clearing st t x H Hx) as HG1. fold st1 in HG1.
  assert (Hx1 : live_tr t st1 = Some (mkTr (t_regs x) true)) by (unfold st1; rewrite live_tr_set, N.eqb_refl; reflexivity).
  destruct (notify_loop_ok (length (t_regs x)) O t st1 HG1) as (st2 & E2 & HG2 & F2 & A2 & (x2 & Hx2 & Hc2 & Hdis)).
  { exists (mkTr (t_regs x) true). split; [exact Hx1|]. split; [reflexivity|]. intros k e Hk. lia. }
  rewrite E2. cbn [nbind]. exists st2. split; [reflexivity|].
  assert (Hno : forall u, In u (all_reps st2) -> ~ In (ITrack t) (items_of u)).
  { intros u Hu Hin.
    destruct (if_t _ _ F2 t _ Hx1) as (x2' & Hx2' & _ & Hle). rewrite Hx2 in Hx2'. injection Hx2' as <-.
    specialize (Hle eq_refl). cbn [t_regs] in Hle. pose proof (RegsLe_length _ _ Hle) as Hlen.
    assert (Hall : forall e, In e (t_regs x2) -> snd e = false).
    { intros e He. apply In_nth_error in He. destruct He as (k & Hk). apply (Hdis k e); [|exact Hk].
      cbn. rewrite <- Hlen. apply nth_error_Some. rewrite Hk. discriminate. }
    pose proof (gi_regs _ _ _ _ HG2 t x2 (r_id u) Hx2) as Hr. rewrite (acount_all_disarmed _ Hall) in Hr.
    unfold drefs in Hr. rewrite (lk_in _ u (gi_nodup _ _ _ _ HG2) Hu) in Hr. cbn [bcount filter length] in Hr.
    assert (Hz : direct_refs t u = O) by lia. exact (direct_refs_in_pos t u Hin Hz). }
  split; [apply ginv_kill_track; assumption|]. split; [exact HG2|]. split; [|split; [|split; [exact Hno | exact A2]]].
  - intros i r' Hr'. apply (if_e _ _ F2 i r' Hr').
  - intros s. exact (vf_v _ _ (if_v _ _ F2) s).
Qed.

(* ---- fresh variables ---- *)
Lemma fresh_cur_reps : forall s st, fresh_var s st = true -> cur_reps s st = [].
Proof. intros s st H. unfold fresh_var in H. unfold cur_reps. destruct (aget s (vars st)); [discriminate | reflexivity]. Qed.

Lemma vkind_cur_reps : forall s st st', (forall s0, vkind s0 st' = vkind s0 st) -> cur_reps s st = [] -> cur_reps s st' = [].
Proof.
  intros s st st' Hk H. apply cur_reps_kind. intros i E. rewrite Hk in E.
  apply live_var_kind_rep in E. destruct E as (r & Hr & _). exact (cur_reps_nil_live s st r H Hr).
Qed.

(* ---- NSEmpty ---- *)
Lemma step_sempty : forall st s, NInv st -> exists st', nstep (NSEmpty s) st = NOk st' /\ NInv st'.
Proof.
  intros st s H. cbn [nstep]. destruct (fresh_var s st) eqn:E; [|apply nskip_ok; exact H].
  eexists. split; [reflexivity|]. apply ginv_set_null; [exact H | apply fresh_cur_reps; exact E].
Qed.

(* ---- putting the result of copy_of into a variable without a rep ---- *)
Lemma put_copy_ok : forall st st1 d v, NInv st -> GInv None [] (bindings (RL (orep_list v)) ++ []) st1 -> VFrame st st1 ->
  NewF (next_id st) (next_id st1) (orep_list v) -> (forall c, v = Some c -> r_parent c = None) ->
  cur_reps d st = [] -> NInv (set_var d (Some v) st1).
Proof.
  intros st st1 d v H HG1 F1 N1 Hp Hcur.
  pose proof (vkind_cur_reps d st st1 (vf_v _ _ F1) Hcur) as Hcur1.
  destruct v as [c|]; cbn [orep_list] in *.
  - rewrite RL_cons in HG1. cbn [RL flat_map] in HG1. rewrite !app_nil_r in HG1.
    apply (ginv_insert' None [] st1 d c); [rewrite app_nil_r; exact HG1 | exact Hcur1 | |].
    + eapply (wfnew_of_NewF None [] [] st st1); [exact H | exact N1 | apply N.le_refl | apply N.le_refl | exact (vf_ids _ _ F1)].
    + intros p Hpc. rewrite (Hp c eq_refl) in Hpc. discriminate.
  - cbn [RL flat_map bindings app] in HG1. apply ginv_set_null; assumption.
Qed.

(* ---- NSCopy ---- *)
Lemma step_scopy : forall st d s, NInv st -> exists st', nstep (NSCopy d s) st = NOk st' /\ NInv st'.
Proof.
  intros st d s H. cbn [nstep]. destruct (live_var s st) as [src|] eqn:Hs; [|apply nskip_ok; exact H].
  destruct (fresh_var d st) eqn:Hd; [|apply nskip_ok; exact H].
  destruct (copy_of_ok None [] st src H) as (v & st1 & E1 & HG1 & F1 & N1 & Hp1 & _).
  { intros r ->. eapply live_var_in. exact Hs. }
  rewrite E1. cbn [nbind fst snd]. eexists. split; [reflexivity|].
  eapply put_copy_ok; try eassumption. apply fresh_cur_reps. exact Hd.
Qed.

(* ---- NSMove ---- *)
Lemma move_ok : forall st d s r, NInv st -> live_var s st = Some (Some r) -> r_parent r = None -> d <> s -> cur_reps d st = [] ->
  NInv (set_var d (Some (Some r)) (set_var s (Some None) st)).
Proof.
  intros st d s r H Hs Hp Hds Hcur.
  pose proof (ginv_remove None [] [] st s r (Some None) H Hs (or_intror eq_refl)) as HGm.
  assert (Hcurm : cur_reps d (set_var s (Some None) st) = []).
  { unfold cur_reps, set_var in *. cbn [vars with_vars]. rewrite aget_aset_other by exact Hds. exact Hcur. }
  apply (ginv_insert' None [] _ d r); [apply HGm; intros; discriminate | exact Hcurm | |].
  - eapply wfnew_of_removed; [exact H | exact Hs | right; reflexivity].
  - intros p Hpr. rewrite Hp in Hpr. discriminate.
Qed.

Lemma step_smove : forall st d s, NInv st -> exists st', nstep (NSMove d s) st = NOk st' /\ NInv st'.
Proof.
  intros st d s H. cbn [nstep]. destruct (live_var s st) as [src|] eqn:Hs; [|apply nskip_ok; exact H].
  destruct (fresh_var d st && negb (N.eqb d s)) eqn:Hc; [|apply nskip_ok; exact H].
  apply andb_true_iff in Hc. destruct Hc as [Hd Hne]. apply negb_true_iff in Hne. apply N.eqb_neq in Hne.
  pose proof (fresh_cur_reps d st Hd) as Hcur.
  destruct src as [r|].
  - destruct (r_parent r) as [p|] eqn:Hp.
    + destruct (copy_of_ok None [] st (Some r) H) as (v & st1 & E1 & HG1 & F1 & N1 & Hp1 & _).
      { intros r0 E. injection E as <-. eapply live_var_in. exact Hs. }
      rewrite E1. cbn [nbind fst snd]. eexists. split; [reflexivity|]. eapply put_copy_ok; eassumption.
    + eexists. split; [reflexivity|]. apply move_ok; assumption.
  - eexists. split; [reflexivity|]. apply ginv_set_null; assumption.
Qed.

(* ---- NSDisc ---- *)
Lemma step_sdisc : forall st s, NInv st -> exists st', nstep (NSDisc s) st = NOk st' /\ NInv st'.
Proof.
  intros st s H. cbn [nstep]. destruct (live_var s st) as [[r|]|] eqn:Hs; [| |apply nskip_ok; exact H].
  - destruct (disconnect_ok (nfuel st) (r_id r) None st H (np_le st)) as (st' & E & HG' & _).
    { rewrite (lk_in _ r (gi_nodup _ _ _ _ H) (live_var_in _ _ _ Hs)). discriminate. }
    exists st'. split; [exact E | exact HG'].
  - exists st. split; [reflexivity | exact H].
Qed.

(* ---- NSDel ---- *)
Lemma referenced_false : forall s st, referenced s st = false -> forall u, In u (all_reps st) -> ~ In (IRef s) (items_of u).
Proof.
  intros s st H u Hu Hin. unfold referenced in H.
  assert (E : existsb (fun r => existsb (fun it => match it with IRef s' => N.eqb s s' | _ => false end) (items_of r)) (all_reps st) = true).
  { apply existsb_exists. exists u. split; [exact Hu|]. apply existsb_exists. exists (IRef s). split; [exact Hin | apply N.eqb_refl]. }
  congruence.
Qed.

Lemma step_sdel_live : forall st s r, NInv st -> referenced s st = false -> live_var s st = Some (Some r) ->
  exists st', nstep (NSDel s) st = NOk st' /\ NInv st' /\ IFrame (set_var s None st) st'.
Proof.
  intros st s r H Href Hs. cbn [nstep]. rewrite Hs.
  assert (HGm : GInv None [] (bindings (reps_of r) ++ []) (set_var s None st)).
  { apply (ginv_remove None [] [] st s r None H Hs (or_introl eq_refl)). intros _. split; [apply referenced_false; exact Href | intros i []]. }
  destruct (drop_rep_ok2 None [] [] _ r HGm) as (st' & E & HG' & F'). exists st'. split; [exact E|]. split; [exact HG' | exact F'].
Qed.

Lemma step_sdel : forall st s, NInv st -> user_ok (NSDel s) st = true -> exists st', nstep (NSDel s) st = NOk st' /\ NInv st'.
Proof.
  intros st s H Hu. cbn [user_ok] in Hu. apply negb_true_iff in Hu.
  destruct (live_var s st) as [[r|]|] eqn:Hs.
  - destruct (step_sdel_live st s r H Hu Hs) as (st' & E & HG' & _). exists st'. split; assumption.
  - cbn [nstep]. rewrite Hs. eexists. split; [reflexivity|].
    (* a null variable dies: nothing refers to it *)
    assert (Hcur : cur_reps s st = []).
    { unfold live_var in Hs. unfold cur_reps. destruct (aget s (vars st)) as [[[x|]|]|]; try discriminate; reflexivity. }
    destruct (all_reps_set_var s st) as (L1 & L2 & EU & EU'). rewrite Hcur in EU. specialize (EU' None). cbn [vreps] in EU'.
    assert (E : all_reps (set_var s None st) = all_reps st) by congruence.
    set (st' := set_var s None st) in *.
    assert (Hl : forall s', live_var s' st' = if N.eqb s' s then None else live_var s' st) by (intros; apply live_var_set_var).
    assert (Hwit : forall s' u, live_var s' st = Some (Some u) -> live_var s' st' = Some (Some u)).
    { intros s' u Hw. rewrite Hl. destruct (N.eqb s' s) eqn:E1; [|exact Hw]. apply N.eqb_eq in E1. subst s'. rewrite Hs in Hw. discriminate. }
    constructor; rewrite ?E; try (destruct H; assumption).
    + intros u s' Hu' Hs'. rewrite Hl. destruct (N.eqb s' s) eqn:E1; [|exact (gi_ref_live _ _ _ _ H u s' Hu' Hs')].
      apply N.eqb_eq in E1. subst s'. exfalso. exact (referenced_false s st Hu u Hu' Hs').
    + intros i s' [].
    + intros u p Hu' Hp. destruct (gi_parent _ _ _ _ H u p Hu' Hp) as [(q & Hq & Hw)|(s' & [] & _)].
      left. exists q. split; [exact Hq|]. destruct Hw as [Hw|(s' & Hs' & Hw)]; [left; exact Hw|].
      right. exists s'. split; [exact Hs' | exact (Hwit s' u Hw)].
  - cbn [nstep]. rewrite Hs. apply nskip_ok. exact H.
Qed.

(* ---- NSQuery ---- *)
Lemma step_squery : forall st s, NInv st -> exists st', nstep (NSQuery s) st = NOk st' /\ NInv st'.
Proof.
  intros st s H. cbn [nstep]. destruct (live_var s st) as [[r|]|]; [| |apply nskip_ok; exact H];
    (eexists; split; [reflexivity | apply ginv_emit; exact H]).
Qed.
