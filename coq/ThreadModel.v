(* ThreadModel.v -- object graphs confined to different threads (property C19).
   A configuration assigns one program to each thread; every thread owns its own objects (the
   library has no object shared between graphs: SigCore.state has no component outside the
   program's own variables, and gen_globals -- regenerated from the source -- must list no mutable
   variable of static storage duration).  A schedule is any interleaving of the threads' top-level
   operations.  Definitions and the (short) proofs; what is NOT modelled: the C++ memory model,
   the allocator, libstdc++'s shared_ptr atomics (exhibited only by TSan in the correspondence). *)
From Coq Require Import List NArith Bool Lia Arith PeanoNat.
Import ListNotations.
Require Import Util SigCore.

(* a thread: its program, what is left of its main operation list, its private state (or the error it hit) *)
Record thread := mkThread { th_prog : program; th_rest : list op; th_state : res state }.

Definition th_init (p : program) : thread := mkThread p (p_main p) (Ok st0).

(* one top-level operation of a thread *)
Definition th_step (fuel : nat) (t : thread) : thread :=
  match th_state t, th_rest t with
  | Ok st, o :: r => mkThread (th_prog t) r (run_top (th_prog t) fuel [o] st)
  | _, _ => t
  end.

Fixpoint update_nth {A} (n : nat) (f : A -> A) (l : list A) : list A :=
  match l, n with
  | [], _ => []
  | x :: r, O => f x :: r
  | x :: r, S m => x :: update_nth m f r
  end.

(* run a schedule: at each tick the named thread performs its next operation *)
Fixpoint run_sched (fuel : nat) (sched : list nat) (ts : list thread) : list thread :=
  match sched with
  | [] => ts
  | i :: r => run_sched fuel r (update_nth i (th_step fuel) ts)
  end.

(* a thread running alone, k operations *)
Fixpoint th_iter (fuel : nat) (k : nat) (t : thread) : thread :=
  match k with O => t | S m => th_iter fuel m (th_step fuel t) end.

(* ---------------------------------------------------------------------------------------- *)

Lemma update_nth_length {A} n (f : A -> A) l : length (update_nth n f l) = length l.
Proof. revert n; induction l as [|x l IH]; intros [|n]; cbn; auto. Qed.

Lemma nth_error_update_same {A} n (f : A -> A) l x :
  nth_error l n = Some x -> nth_error (update_nth n f l) n = Some (f x).
Proof.
  revert n; induction l as [|y l IH]; intros [|n] H; cbn in *; try discriminate.
  - inversion H; reflexivity.
  - apply IH; exact H.
Qed.

Lemma nth_error_update_other {A} n m (f : A -> A) l :
  n <> m -> nth_error (update_nth n f l) m = nth_error l m.
Proof.
  revert n m; induction l as [|y l IH]; intros [|n] [|m] H; cbn; auto; try congruence.
Qed.

Lemma th_iter_step fuel k t : th_iter fuel k (th_step fuel t) = th_step fuel (th_iter fuel k t).
Proof. revert t; induction k as [|k IH]; intro t; cbn; [reflexivity|]. rewrite IH. reflexivity. Qed.

(* the state of thread i after any schedule is the state it reaches alone after as many of its own
   operations as the schedule granted it: what the other threads did, and when, is irrelevant *)
Theorem interleaving_irrelevant :
  forall fuel sched ts i t,
    nth_error ts i = Some t ->
    nth_error (run_sched fuel sched ts) i = Some (th_iter fuel (count_occ Nat.eq_dec sched i) t).
Proof.
  intros fuel sched. induction sched as [|j r IH]; intros ts i t H; cbn [run_sched count_occ].
  - cbn. exact H.
  - destruct (Nat.eq_dec j i) as [E|NE].
    + subst j. cbn [th_iter]. apply IH. apply nth_error_update_same. exact H.
    + apply IH. rewrite nth_error_update_other by exact NE. exact H.
Qed.

(* running alone: th_iter is run_top on the prefix *)
Lemma run_top_app p fuel a b st :
  run_top p fuel (a ++ b) st = match run_top p fuel a st with Ok st1 => run_top p fuel b st1 | Err e => Err e end.
Proof.
  revert st; induction a as [|o a IH]; intro st; cbn [app run_top]; [reflexivity|].
  destruct (step p (run_callee_fuel p fuel) o st) as [st1 []|st1|e]; cbn [rbind].
  - destruct (gc_shared p st1); cbn [rbind]; [apply IH|reflexivity].
  - destruct (gc_shared p (emit_ev EExn st1)); cbn [rbind]; [apply IH|reflexivity].
  - reflexivity.
Qed.

Lemma th_iter_all fuel p :
  th_state (th_iter fuel (length (p_main p)) (th_init p)) = run_program fuel p.
Proof.
  unfold run_program, th_init.
  assert (G : forall ops st, th_state (th_iter fuel (length ops) (mkThread p ops (Ok st))) = run_top p fuel ops st).
  { induction ops as [|o r IH]; intro st; [reflexivity|].
    cbn [length th_iter]. unfold th_step at 1. cbn [th_state th_rest th_prog].
    change (o :: r) with ([o] ++ r). rewrite run_top_app.
    destruct (run_top p fuel [o] st) as [st1|e] eqn:E.
    - apply IH.
    - clear IH. induction (length r) as [|k IHk]; [reflexivity|]. cbn [th_iter]. exact IHk. }
  apply G.
Qed.

(* every thread that was granted all of its operations ends exactly as in its solo run *)
Corollary each_thread_observes_solo_behaviour :
  forall fuel (ps : list program) sched i p,
    nth_error ps i = Some p ->
    count_occ Nat.eq_dec sched i = length (p_main p) ->
    exists t, nth_error (run_sched fuel sched (map th_init ps)) i = Some t /\ th_state t = run_program fuel p.
Proof.
  intros fuel ps sched i p H Hc.
  exists (th_iter fuel (length (p_main p)) (th_init p)). split.
  - rewrite <- Hc. apply interleaving_irrelevant. rewrite nth_error_map, H. reflexivity.
  - apply th_iter_all.
Qed.
