(* Properties_C04.v -- A connection handle is always safe and tells the truth about its slot.
   Statements only: each Prop is defined in SigSpec.v (or spelled out here) and closed by a lemma of
   SigSafe.v, SigConn.v; Print Assumptions follows each. *)
From Coq Require Import List NArith Bool.
Import ListNotations.
Require Import Util SigCore SigLemmas SigInv SigSafe SigSpec SigConn SigQuiesce SigWatch SigShared.
Local Open Scope N_scope.

Theorem C04_connected_tells_the_truth : S_conn_query_truth.
Proof. exact conn_query_truth. Qed.
Print Assumptions C04_connected_tells_the_truth.

Theorem C04_disconnect_removes_exactly_that_slot : S_disconnect_exact.
Proof. exact disconnect_exact. Qed.
Print Assumptions C04_disconnect_removes_exactly_that_slot.

Theorem C04_disconnect_idempotent : S_disconnect_idempotent.
Proof. exact disconnect_idempotent. Qed.
Print Assumptions C04_disconnect_idempotent.

Theorem C04_handle_never_dangles : S_conn_never_dangles.
Proof. exact conn_never_dangles. Qed.
Print Assumptions C04_handle_never_dangles.

Theorem C04_node_ids_never_reused : S_node_ids_fresh.
Proof. exact node_ids_fresh. Qed.
Print Assumptions C04_node_ids_never_reused.

Theorem C04_every_operation_memory_safe : forall (fuel : nat) (p : program), match run_program fuel p with Ok _ => True | Err e => safe_err e end.
Proof. exact ll_safe. Qed.
Print Assumptions C04_every_operation_memory_safe.

(* on every reachable state a handle is registered exactly at the element it refers to: every
   registration in an element's watch list is a handle pointing at that element *)
Theorem C04_watch_lists_exact : S_watch_exact.
Proof. exact watch_exact_reachable. Qed.
Print Assumptions C04_watch_lists_exact.

(* a sigc::connection object co-owned (std::shared_ptr) by functor copies - the one-shot idiom, a handler
   holding its own connection - lives until the program has released it and the last owning functor copy
   is gone, even when that copy sits in the very slot the connection points to *)
Theorem C04_connection_object_owned_by_functors_lifetime : S_shared_connection_lifetime_history.
Proof. exact shared_connection_lifetime_history. Qed.
Print Assumptions C04_connection_object_owned_by_functors_lifetime.

Theorem C04_no_unowned_connection_object_between_operations : S_no_orphan_connection_at_rest.
Proof. exact no_orphan_connection_at_rest. Qed.
Print Assumptions C04_no_unowned_connection_object_between_operations.
