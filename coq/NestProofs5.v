(* NestProofs5.v -- GInv: changing the ghost bindings, the callback lists; bind / unbind of one item *)
From Coq Require Import List NArith Bool Arith Lia Permutation.
Import ListNotations.
Require Import Util NestModel NestSpec NestProofs1 NestProofs2 NestProofs3 NestProofs4.
Local Open Scope N_scope.

(* ---- states that differ only in tracks ---- *)
Lemma live_tr_set : forall t t' v st,
  live_tr t' (with_tracks (aset t v (tracks st)) st) =
  if N.eqb t' t then (match v with Some x => Some x | None => None end) else live_tr t' st.
Proof.
  intros t t' v st. unfold live_tr, with_tracks. cbn [tracks].
  destruct (N.eqb t' t) eqn:E.
  - apply N.eqb_eq in E. subst t'. rewrite aget_aset_same. destruct v; reflexivity.
  - apply N.eqb_neq in E. rewrite aget_aset_other by exact E. reflexivity.
Qed.

Lemma ginv_set_regs : forall T P B B' st t x x',
  GInv T P B st -> live_tr t st = Some x ->
  t_clearing x' = t_clearing x ->
  (t_clearing x = false -> forall e, In e (t_regs x') -> snd e = true) ->
  (forall i, acount i (t_regs x') = (drefs t i (all_reps st) + bcount t i B')%nat) ->
  (forall t' i, t' <> t -> bcount t' i B' = bcount t' i B) ->
  (forall i s, In (i, IRef s) B' <-> In (i, IRef s) B) ->
  (forall i t', In (i, ITrack t') B' -> live_tr t' st <> None) ->
  (forall b, In b B' -> 0 < fst b) ->
  GInv T P B' (with_tracks (aset t (Some x') (tracks st)) st).
Proof.
  intros T P B B' st t x x' HG Hx Hcl Harm Hcnt Hoth Hrefs Hbt Hbp.
  set (st' := with_tracks (aset t (Some x') (tracks st)) st).
  assert (Hlive : forall t', live_tr t' st' <> None <-> live_tr t' st <> None).
  { intros t'. unfold st'. rewrite live_tr_set. destruct (N.eqb t' t) eqn:E.
    - apply N.eqb_eq in E. subst t'. rewrite Hx. split; intros; discriminate.
    - reflexivity. }
  constructor.
  - exact (gi_nodup _ _ _ _ HG).
  - exact (gi_next _ _ _ _ HG).
  - exact (gi_idpos _ _ _ _ HG).
  - intros u t' Hu Ht'. apply Hlive. exact (gi_track_live _ _ _ _ HG u t' Hu Ht').
  - exact (gi_ref_live _ _ _ _ HG).
  - intros i t' Hi. apply Hlive. exact (Hbt i t' Hi).
  - intros i s Hi. apply Hrefs in Hi. exact (gi_bref_live _ _ _ _ HG i s Hi).
  - exact Hbp.
  - intros t' y Hy Hc. unfold st' in Hy. rewrite live_tr_set in Hy. destruct (N.eqb t' t) eqn:E.
    + apply N.eqb_eq in E. subst t'. injection Hy as <-. rewrite Hcl in Hc. exact (gi_clearing _ _ _ _ HG t x Hx Hc).
    + exact (gi_clearing _ _ _ _ HG t' y Hy Hc).
  - intros t' y Hy Hc. unfold st' in Hy. rewrite live_tr_set in Hy. destruct (N.eqb t' t) eqn:E.
    + apply N.eqb_eq in E. subst t'. injection Hy as <-. rewrite Hcl in Hc. apply Harm. exact Hc.
    + exact (gi_armed _ _ _ _ HG t' y Hy Hc).
  - intros t' y i Hy. unfold st' in Hy. rewrite live_tr_set in Hy. destruct (N.eqb t' t) eqn:E.
    + apply N.eqb_eq in E. subst t'. injection Hy as <-. apply Hcnt.
    + apply N.eqb_neq in E. rewrite (Hoth t' i E). exact (gi_regs _ _ _ _ HG t' y i Hy).
  - intros u p Hu Hp. destruct (gi_parent _ _ _ _ HG u p Hu Hp) as [H|(s & Hs & Hw)]; [left; exact H|].
    right. exists s. split; [apply Hrefs; exact Hs | exact Hw].
  - exact (gi_vcp _ _ _ _ HG).
  - exact (gi_pending _ _ _ _ HG).
  - exact (gi_fnvalid _ _ _ _ HG).
  - exact (gi_kidfn _ _ _ _ HG).
Qed.

(* ---- changing B without changing the state ---- *)
Lemma ginv_B_equiv : forall T P B B' st, GInv T P B st ->
  (forall x, In x B <-> In x B') -> (forall t i, bcount t i B' = bcount t i B) -> GInv T P B' st.
Proof.
  intros T P B B' st HG Hin Hbc. constructor; try (destruct HG; assumption).
  - intros i t Hi. apply Hin in Hi. exact (gi_btrack_live _ _ _ _ HG i t Hi).
  - intros i s Hi. apply Hin in Hi. exact (gi_bref_live _ _ _ _ HG i s Hi).
  - intros b Hb. apply Hin in Hb. exact (gi_bpos _ _ _ _ HG b Hb).
  - intros t x i Hx. rewrite Hbc. exact (gi_regs _ _ _ _ HG t x i Hx).
  - intros u p Hu Hp. destruct (gi_parent _ _ _ _ HG u p Hu Hp) as [H|(s & Hs & Hw)]; [left; exact H|].
    right. exists s. split; [apply Hin; exact Hs | exact Hw].
Qed.

Lemma bcount_perm : forall t i B B', Permutation B B' -> bcount t i B = bcount t i B'.
Proof.
  intros t i B B' Hp. induction Hp as [|x l l' Hp IH|x y l|l l' l'' H1 IH1 H2 IH2].
  - reflexivity.
  - rewrite !bcount_cons, IH. reflexivity.
  - rewrite !bcount_cons. lia.
  - congruence.
Qed.

Lemma ginv_perm : forall T P B B' st, Permutation B B' -> GInv T P B st -> GInv T P B' st.
Proof.
  intros T P B B' st Hp HG. apply (ginv_B_equiv T P B B' st HG).
  - intros x. split; [apply Permutation_in; exact Hp | apply Permutation_in; apply Permutation_sym; exact Hp].
  - intros t i. symmetry. apply bcount_perm. exact Hp.
Qed.

Lemma ginv_drop_val : forall T P B st me v, GInv T P ((me, IVal v) :: B) st -> GInv T P B st.
Proof.
  intros T P B st me v HG. constructor; try (destruct HG; assumption).
  - intros i t Hi. apply (gi_btrack_live _ _ _ _ HG i t). right. exact Hi.
  - intros i s Hi. apply (gi_bref_live _ _ _ _ HG i s). right. exact Hi.
  - intros b Hb. apply (gi_bpos _ _ _ _ HG b). right. exact Hb.
  - intros t x i Hx. rewrite (gi_regs _ _ _ _ HG t x i Hx). rewrite bcount_cons. cbn [snd is_track]. rewrite andb_false_r. reflexivity.
  - intros u p Hu Hp. destruct (gi_parent _ _ _ _ HG u p Hu Hp) as [H|(s & Hs & Hw)]; [left; exact H|].
    right. exists s. destruct Hs as [Hs|Hs]; [discriminate|]. split; assumption.
Qed.

Lemma ginv_drop_ref : forall T P B st me s, GInv T P ((me, IRef s) :: B) st ->
  (forall u, live_var s st = Some (Some u) -> r_parent u <> Some me) -> GInv T P B st.
Proof.
  intros T P B st me s HG Hno. constructor; try (destruct HG; assumption).
  - intros i t Hi. apply (gi_btrack_live _ _ _ _ HG i t). right. exact Hi.
  - intros i s' Hi. apply (gi_bref_live _ _ _ _ HG i s'). right. exact Hi.
  - intros b Hb. apply (gi_bpos _ _ _ _ HG b). right. exact Hb.
  - intros t x i Hx. rewrite (gi_regs _ _ _ _ HG t x i Hx). rewrite bcount_cons. cbn [snd is_track]. rewrite andb_false_r. reflexivity.
  - intros u p Hu Hp. destruct (gi_parent _ _ _ _ HG u p Hu Hp) as [H|(s' & Hs & Hw)]; [left; exact H|].
    destruct Hs as [Hs|Hs].
    + injection Hs as <- <-. exfalso. exact (Hno u Hw Hp).
    + right. exists s'. split; assumption.
Qed.

Lemma ginv_add_val : forall T P B st me v, 0 < me -> GInv T P B st -> GInv T P ((me, IVal v) :: B) st.
Proof.
  intros T P B st me v Hme HG. constructor; try (destruct HG; assumption).
  - intros i t [Hi|Hi]; [discriminate|]. exact (gi_btrack_live _ _ _ _ HG i t Hi).
  - intros i s [Hi|Hi]; [discriminate|]. exact (gi_bref_live _ _ _ _ HG i s Hi).
  - intros b [<-|Hb]; [exact Hme|]. exact (gi_bpos _ _ _ _ HG b Hb).
  - intros t x i Hx. rewrite (gi_regs _ _ _ _ HG t x i Hx). rewrite bcount_cons. cbn [snd is_track]. rewrite andb_false_r. reflexivity.
  - intros u p Hu Hp. destruct (gi_parent _ _ _ _ HG u p Hu Hp) as [H|(s' & Hs & Hw)]; [left; exact H|].
    right. exists s'. split; [right; exact Hs | exact Hw].
Qed.

(* ---- unbind ---- *)
Lemma is_track_refl : forall t, is_track t (ITrack t) = true.
Proof. intros. cbn. apply N.eqb_refl. Qed.

Lemma unbind_track_ok : forall T P B st me t, GInv T P ((me, ITrack t) :: B) st ->
  exists st', unbind_item me (ITrack t) st = NOk st' /\ GInv T P B st'.
Proof.
  intros T P B st me t HG. cbn [unbind_item]. unfold track_remove.
  destruct (live_tr t st) as [x|] eqn:Hx; [|exfalso; exact (gi_btrack_live _ _ _ _ HG me t (or_introl eq_refl) Hx)].
  eexists. split; [reflexivity|].
  apply (ginv_set_regs T P ((me, ITrack t) :: B) B st t x _ HG Hx).
  - reflexivity.
  - cbn [t_regs t_clearing]. intros Hc e He. rewrite Hc in He. apply remove_first_in in He.
    exact (gi_armed _ _ _ _ HG t x Hx Hc e He).
  - intros i. cbn [t_regs].
    assert (E : acount i (if t_clearing x then disarm_first me (t_regs x)
                          else remove_first (fun e : N * bool => N.eqb (fst e) me && snd e) (t_regs x)) =
                (acount i (t_regs x) - (if N.eqb me i then 1 else 0))%nat).
    { destruct (t_clearing x); [apply acount_disarm_first | apply acount_remove_first]. }
    rewrite E. rewrite (gi_regs _ _ _ _ HG t x i Hx). rewrite bcount_cons. cbn [fst snd]. rewrite is_track_refl, andb_true_r.
    destruct (N.eqb me i); lia.
  - intros t' i Hne. rewrite bcount_cons. cbn [fst snd is_track]. apply N.eqb_neq in Hne. rewrite Hne, andb_false_r. reflexivity.
  - intros i s. split; intros H; [right; exact H | destruct H as [H|H]; [discriminate | exact H]].
  - intros i t' Hi. apply (gi_btrack_live _ _ _ _ HG i t'). right. exact Hi.
  - intros b Hb. apply (gi_bpos _ _ _ _ HG b). right. exact Hb.
Qed.

Lemma pres_id_set_parent : forall p, pres_id (set_parent p).
Proof. intros p x. reflexivity. Qed.
Lemma pres_fn_set_parent : forall p, pres_fn (set_parent p).
Proof. intros p x. reflexivity. Qed.

Lemma unbind_ref_ok : forall T P B st me s, GInv T P ((me, IRef s) :: B) st ->
  exists st', unbind_item me (IRef s) st = NOk st' /\ GInv T P B st'.
Proof.
  intros T P B st me s HG. cbn [unbind_item].
  destruct (live_var s st) as [[r|]|] eqn:Hs.
  - assert (Hnot : r_parent r <> Some me -> GInv T P B st).
    { intros Hne. apply (ginv_drop_ref T P B st me s HG). intros u Hu. rewrite Hs in Hu. injection Hu as <-. exact Hne. }
    destruct (r_parent r) as [p|] eqn:Hp.
    + destruct (N.eqb p me) eqn:E.
      * apply N.eqb_eq in E. subst p. eexists. split; [reflexivity|].
        pose proof (live_var_in s st r Hs) as Hr_in.
        pose proof (gi_nodup _ _ _ _ HG) as Hnd.
        pose proof (lk_in _ _ Hnd Hr_in) as Hlk.
        assert (HG1 : GInv T P ((me, IRef s) :: B) (map_rep (r_id r) (set_parent None) st)).
        { apply (ginv_field T P ((me, IRef s) :: B) P ((me, IRef s) :: B) st (r_id r) (set_parent None) r HG
                   (pres_id_set_parent None) (pres_fn_set_parent None) Hlk).
          - intros H. exact H.
          - intros x H. exact H.
          - reflexivity.
          - exact (gi_btrack_live _ _ _ _ HG).
          - exact (gi_bref_live _ _ _ _ HG).
          - exact (gi_bpos _ _ _ _ HG).
          - intros x H. exact H.
          - intros i po H. left. exact H.
          - intros po Hpo. split; [|reflexivity]. cbn. exact (proj1 (gi_pending _ _ _ _ HG (r_id r) po r Hpo Hlk)).
          - intros p Hp'. discriminate.
          - intros q Hq Hk. exfalso. exact (top_not_kid st s r q r Hnd Hs Hq Hk eq_refl). }
        apply (ginv_drop_ref T P B _ me s HG1).
        intros u Hu. rewrite live_var_map_rep, Hs in Hu. cbn [option_map] in Hu. injection Hu as <-.
        rewrite map_in_rep_hit by reflexivity. discriminate.
      * eexists. split; [reflexivity|]. apply Hnot. intros H. injection H as ->. rewrite N.eqb_refl in E. discriminate.
    + eexists. split; [reflexivity|]. apply Hnot. discriminate.
  - eexists. split; [reflexivity|]. apply (ginv_drop_ref T P B st me s HG). intros u Hu. rewrite Hs in Hu. discriminate.
  - exfalso. exact (gi_bref_live _ _ _ _ HG me s (or_introl eq_refl) Hs).
Qed.

Lemma unbind_item_ok : forall T P B st me it, GInv T P ((me, it) :: B) st ->
  exists st', unbind_item me it st = NOk st' /\ GInv T P B st'.
Proof.
  intros T P B st me [t|s|v] HG.
  - apply unbind_track_ok. exact HG.
  - apply unbind_ref_ok. exact HG.
  - exists st. split; [reflexivity|]. eapply ginv_drop_val. exact HG.
Qed.

(* ---- bind ---- *)
Lemma bind_track_ok : forall T P B st me t, GInv T P B st -> 0 < me -> live_tr t st <> None ->
  exists st', bind_item me (ITrack t) st = NOk st' /\ GInv T P ((me, ITrack t) :: B) st'.
Proof.
  intros T P B st me t HG Hme Hlive. cbn [bind_item]. unfold track_add.
  destruct (live_tr t st) as [x|] eqn:Hx; [|contradiction].
  eexists. split; [reflexivity|].
  apply (ginv_set_regs T P B ((me, ITrack t) :: B) st t x _ HG Hx).
  - reflexivity.
  - cbn [t_regs]. intros Hc e He. apply in_app_or in He. destruct He as [He|[<-|[]]]; [|reflexivity].
    exact (gi_armed _ _ _ _ HG t x Hx Hc e He).
  - intros i. cbn [t_regs]. rewrite acount_app, acount_cons, acount_nil. rewrite (gi_regs _ _ _ _ HG t x i Hx).
    rewrite bcount_cons. cbn [fst snd]. rewrite is_track_refl, andb_true_r. destruct (N.eqb me i); lia.
  - intros t' i Hne. rewrite bcount_cons. cbn [fst snd is_track]. apply N.eqb_neq in Hne. rewrite Hne, andb_false_r. reflexivity.
  - intros i s. split; intros H; [destruct H as [H|H]; [discriminate | exact H] | right; exact H].
  - intros i t' [Hi|Hi]; [injection Hi as <- <-; rewrite Hx; discriminate | exact (gi_btrack_live _ _ _ _ HG i t' Hi)].
  - intros b [<-|Hb]; [exact Hme | exact (gi_bpos _ _ _ _ HG b Hb)].
Qed.

Lemma ginv_add_ref : forall T P B st me s, 0 < me -> live_var s st <> None -> GInv T P B st -> GInv T P ((me, IRef s) :: B) st.
Proof.
  intros T P B st me s Hme Hs HG. constructor; try (destruct HG; assumption).
  - intros i t [Hi|Hi]; [discriminate|]. exact (gi_btrack_live _ _ _ _ HG i t Hi).
  - intros i s' [Hi|Hi]; [injection Hi as <- <-; exact Hs|]. exact (gi_bref_live _ _ _ _ HG i s' Hi).
  - intros b [<-|Hb]; [exact Hme|]. exact (gi_bpos _ _ _ _ HG b Hb).
  - intros t x i Hx. rewrite (gi_regs _ _ _ _ HG t x i Hx). rewrite bcount_cons. cbn [snd is_track]. rewrite andb_false_r. reflexivity.
  - intros u p Hu Hp. destruct (gi_parent _ _ _ _ HG u p Hu Hp) as [H|(s' & Hs' & Hw)]; [left; exact H|].
    right. exists s'. split; [right; exact Hs' | exact Hw].
Qed.

Lemma bind_ref_ok : forall T B st me s, GInv T [] B st -> 0 < me -> live_var s st <> None ->
  exists st', bind_item me (IRef s) st = NOk st' /\ GInv T [] ((me, IRef s) :: B) st'.
Proof.
  intros T B st me s HG Hme Hlive. cbn [bind_item].
  destruct (live_var s st) as [[r|]|] eqn:Hs; [| |contradiction].
  - destruct (r_parent r) as [p|] eqn:Hp.
    + eexists. split; [reflexivity|]. apply ginv_add_ref; [exact Hme | rewrite Hs; discriminate | exact HG].
    + eexists. split; [reflexivity|].
      pose proof (live_var_in s st r Hs) as Hr_in.
      pose proof (gi_nodup _ _ _ _ HG) as Hnd.
      pose proof (lk_in _ _ Hnd Hr_in) as Hlk.
      apply (ginv_field T [] B [] ((me, IRef s) :: B) st (r_id r) (set_parent (Some me)) r HG
                   (pres_id_set_parent _) (pres_fn_set_parent _) Hlk).
      * intros H. exact H.
      * intros x H. right. exact H.
      * intros t i. rewrite bcount_cons. cbn [snd is_track]. rewrite andb_false_r. reflexivity.
      * intros i t [Hi|Hi]; [discriminate | exact (gi_btrack_live _ _ _ _ HG i t Hi)].
      * intros i s' [Hi|Hi]; [injection Hi as <- <-; rewrite Hs; discriminate | exact (gi_bref_live _ _ _ _ HG i s' Hi)].
      * intros b [<-|Hb]; [exact Hme | exact (gi_bpos _ _ _ _ HG b Hb)].
      * intros x H. exact H.
      * intros i po [].
      * intros po [].
      * intros p Hp'. cbn in Hp'. injection Hp' as <-. right. exists s. split; [left; reflexivity | exact Hs].
      * intros q Hq Hk. exfalso. exact (top_not_kid st s r q r Hnd Hs Hq Hk eq_refl).
  - eexists. split; [reflexivity|]. apply ginv_add_ref; [exact Hme | rewrite Hs; discriminate | exact HG].
Qed.
