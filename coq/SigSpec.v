(* SigSpec.v -- the statements of the properties decided over SigCore, as Props (no proofs here).
   Each Properties_Cxx.v states `Theorem ... : <one of these Props>` and closes it with a lemma of
   a proof file.  Statements are over *all* well-formed states (WF / WF_top of SigInv.v), which
   include every state reachable by any history (SigSafe.run_top_safe). *)
From Coq Require Import List NArith Bool.
Import ListNotations.
Require Import Util SigCore SigLemmas SigInv SigSafe.
Local Open Scope N_scope.

(* ------------------------------------------------------------------------------------------ *)
(* vocabulary *)

Definition impl_of (g : N) (st : state) : option impl :=
  match live_sig g st with
  | Some go => match g_impl go with Some i => aget i (impls st) | None => None end
  | None => None
  end.

Definition nodes_of (g : N) (st : state) : list node :=
  match impl_of g st with Some im => i_nodes im | None => [] end.

(* a list element an emission would invoke now *)
Definition callable_sb (sb : slotbase) : bool := negb (sb_empty sb) && negb (sb_blocked sb).

Definition body_of (sb : slotbase) : option N :=
  match sb_rep sb with
  | Some r => match r_fn r with Some f => Some (f_body f) | None => None end
  | None => None
  end.

Definition conn_ptr (w : wref) (st : state) : connptr :=
  match get_connptr w st with Some p => p | None => None end.

(* everything except the trace (and the skip marker) is unchanged *)
Definition same_but_trace (st st' : state) : Prop :=
  slots st' = slots st /\ skind st' = skind st /\ sigs st' = sigs st /\ impls st' = impls st /\
  tracks st' = tracks st /\ conns st' = conns st /\ sconns st' = sconns st /\ shared st' = shared st /\
  next_rid st' = next_rid st /\ next_nid st' = next_nid st /\ next_iid st' = next_iid st /\ leaked st' = leaked st.

(* the events a step appended (the trace is kept most-recent-first) *)
Definition appended (st st' : state) (evs : list event) : Prop := trace st' = rev evs ++ trace st.

Definition nodes_attached (st : state) : Prop :=
  forall i im nd, aget i (impls st) = Some im -> In nd (i_nodes im) ->
    exists r, sb_rep (n_sb nd) = Some r /\ r_attached r = true.

(* scripts that do not touch the library *)
Definition pure_prog (p : program) : Prop :=
  forall b ops rs, aget b (p_scripts p) = Some (ops, rs) -> ops = [].

Definition script_ret (p : program) (b arg : N) : N :=
  match aget b (p_scripts p) with
  | Some (_, RConst v) => v
  | Some (_, RArgPlus k) => arg + k
  | None => 0
  end.

Definition is_script_sb (sb : slotbase) : bool :=       (* not a make_slot forwarder *)
  match sb_rep sb with
  | Some r => match r_fn r with Some f => match f_fwd f with None => true | Some _ => false end | None => true end
  | None => true
  end.

(* ------------------------------------------------------------------------------------------ *)
(* Snapshot semantics of an emission (C01, C03, C08, C13): iterate over the node ids present when the
   emission started, in order; each is looked up in the state *at its turn*. *)
Section Snapshot.
  Variable prog : program.
  Variable rec : callee -> state -> outcome N.

  Fixpoint spec_loop (i : N) (snap : list nid) (arg last : N) (st : state) : outcome N :=
    match snap with
    | [] => Done st last
    | n :: rest =>
        match get_sb (LNode i n) st with
        | None => Fail ErrDangling
        | Some sb =>
            if sb_empty sb || sb_blocked sb then spec_loop i rest arg last st
            else match invoke_at rec (LNode i n) arg st with
                 | Done st1 v => spec_loop i rest arg v st1
                 | Thrown st1 => Thrown st1
                 | Fail e => Fail e
                 end
        end
    end.

  (* emission of a signal without accumulator, written with the snapshot loop *)
  Definition spec_emit (g arg : N) (st : state) : outcome N :=
    match live_sig g st with
    | None => Fail ErrUnsupported
    | Some go =>
        match g_impl go with
        | None => Done st 0
        | Some i =>
            match aget i (impls st) with
            | None => Fail ErrUAF
            | Some im =>
                match i_nodes im with
                | [] => Done st 0
                | _ => with_frame i (fun _first _ph _n st1 => spec_loop i (map n_id (i_nodes im)) arg 0 st1) st
                end
            end
        end
    end.
End Snapshot.

(* whatever user code does (any rec that respects the rely/guarantee discipline), the pointer-chasing
   loop of the emitters visits exactly the start snapshot *)
Definition S_emit_is_snapshot : Prop :=
  forall prog rec,
    (forall c st, WF st -> out_ok st (rec c st)) ->
    forall g arg st go, WF st -> live_sig g st = Some go -> gk_acc (g_kind go) = None ->
      emit_sig prog rec g arg st = spec_emit rec g arg st.

(* in particular for the real interpreter at any fuel *)
Definition S_emit_is_snapshot_fuel : Prop :=
  forall prog fuel g arg st go, WF st -> live_sig g st = Some go -> gk_acc (g_kind go) = None ->
    emit_sig prog (run_callee_fuel prog fuel) g arg st = spec_emit (run_callee_fuel prog fuel) g arg st.

(* C01: with slots that do not touch the library, an emission invokes exactly the connected, valid,
   unblocked slots, once each, in list order, with the emitted argument, and changes nothing else *)
Definition invocation_events (p : program) (arg : N) (l : list node) : list event :=
  flat_map (fun nd => if callable_sb (n_sb nd)
                      then match body_of (n_sb nd) with
                           | Some b => [EEnter b arg; ELeave b (script_ret p b arg)]
                           | None => []
                           end
                      else []) l.

Definition last_result (p : program) (arg : N) (l : list node) : N :=
  fold_left (fun acc nd => if callable_sb (n_sb nd)
                           then match body_of (n_sb nd) with Some b => script_ret p b arg | None => acc end
                           else acc) l 0.

Definition S_emission_exact_pure : Prop :=
  forall p fuel g arg st go, pure_prog p -> WF_top st ->
    live_sig g st = Some go -> gk_acc (g_kind go) = None ->
    forallb (fun nd => is_script_sb (n_sb nd)) (nodes_of g st) = true ->
    exists st', emit_sig p (run_callee_fuel p (S fuel)) g arg st = Done st' (last_result p arg (nodes_of g st)) /\
      appended st st' (invocation_events p arg (nodes_of g st)) /\
      slots st' = slots st /\ sigs st' = sigs st /\ impls st' = impls st /\ tracks st' = tracks st /\
      conns st' = conns st /\ sconns st' = sconns st.

(* C13 (no accumulator): the result is that of the last slot actually invoked, else the default *)
Definition S_value_emit_last : Prop :=
  forall rec i snap arg last st st' v,
    spec_loop rec i snap arg last st = Done st' v ->
    (v = last \/ exists n sb st0 st1, In n snap /\ get_sb (LNode i n) st0 = Some sb /\ callable_sb sb = true /\
                                      invoke_at rec (LNode i n) arg st0 = Done st1 v).

(* C08: an exception thrown by the invocation at some snapshot position ends the loop there *)
Definition S_exception_stops_loop : Prop :=
  forall rec i pre n post arg last st st1 v1 sb st2,
    spec_loop rec i pre arg last st = Done st1 v1 ->
    get_sb (LNode i n) st1 = Some sb -> callable_sb sb = true ->
    invoke_at rec (LNode i n) arg st1 = Thrown st2 ->
    spec_loop rec i (pre ++ n :: post) arg last st = Thrown st2.

(* C03: a node that is not in the start snapshot (connected during the emission) is not invoked by
   this emission's own loop: the loop only ever calls invoke_at on snapshot members -- immediate from
   the shape of spec_loop, stated for completeness *)
Definition S_loop_only_invokes_snapshot : Prop :=
  forall rec i snap arg last st,
    (forall n, In n snap -> forall st0, invoke_at rec (LNode i n) arg st0 = Done st0 7) ->
    forall st' v, spec_loop rec i snap arg last st = Done st' v -> st' = st.

(* ------------------------------------------------------------------------------------------ *)
(* Quiescence (C01 size/empty, C03 last sentence, C06, C07) *)

Definition impls_owned (st : state) : Prop :=
  forall i im, aget i (impls st) = Some im -> 0 < refcount i st.

(* every state reachable by a history of top-level operations *)
Definition reachable (p : program) (fuel : nat) (st : state) : Prop :=
  exists ops, run_top p fuel ops st0 = Ok st.

(* when the outermost emission has returned (any top-level point), every list holds exactly
   still-connected slots, no emission bookkeeping is left, nothing has leaked, and every live
   signal_impl has an owner *)
Definition S_quiescent_lists : Prop :=
  forall p fuel st, reachable p fuel st ->
    WF_top st /\ nodes_attached st /\ impls_owned st /\ leaked st = 0.

(* size()/empty()/blocked() report the list *)
Definition S_query_reports : Prop :=
  forall prog rec g st go, live_sig g st = Some go ->
    (forall i, g_impl go = Some i -> aget i (impls st) <> None) ->
    step prog rec (OGQuery g) st =
      Done (emit_ev (ESigQ (N.of_nat (length (nodes_of g st)))
                           (match nodes_of g st with [] => true | _ => false end)
                           (forallb (fun x => sb_blocked (n_sb x)) (nodes_of g st))) st) tt.

(* connect appends / connect_first prepends one new attached node and changes no other list *)
Definition S_connect_position : Prop :=
  forall prog rec g s c front mv st st' go src i,
    WF st -> live_sig g st = Some go -> g_impl go = Some i -> live_slot s st = Some src ->
    rkind_eqb (gk_ret (g_kind go)) (kind_of_slot s st) = true ->
    (* copying a disconnected-but-non-null slot yields a default slot, which drops the blocking flag *)
    (mv = true \/ sb_rep src = None \/ sb_empty src = false \/ sb_blocked src = false) ->
    step prog rec (OGConnect g s c front mv) st = Done st' tt ->
    exists nd, n_id nd = Real (next_nid st) /\
      sb_blocked (n_sb nd) = sb_blocked src /\
      (exists r, sb_rep (n_sb nd) = Some r /\ r_attached r = true /\
                 (sb_empty src = false -> r_valid r = true /\ option_map f_body (r_fn r) = body_of src)) /\
      (exists l', nodes_of g st' = (if front then nd :: l' else l' ++ [nd]) /\
                  map n_id l' = map n_id (nodes_of g st)) /\
      (forall j im, j <> i -> aget j (impls st) = Some im -> exists im', aget j (impls st') = Some im' /\ map n_id (i_nodes im') = map n_id (i_nodes im)).

(* C07: a functor copy is held only by a live slot variable or by a connected element of a live list *)
Definition S_functor_holders : Prop :=
  forall p fuel st, reachable p fuel st ->
    forall r, In r (all_reps st) -> r_fn r <> None ->
      In r (var_reps st) \/ (In r (node_reps st) /\ r_attached r = true).

(* teardown: once every variable of the program has been destroyed nothing is left *)
Definition all_destroyed (st : state) : Prop :=
  (forall s o, In (s, o) (slots st) -> o = None) /\ (forall g o, In (g, o) (sigs st) -> o = None) /\
  (forall c o, In (c, o) (conns st) -> o = None) /\ (forall k o, In (k, o) (sconns st) -> o = None) /\
  (forall t o, In (t, o) (tracks st) -> o = None).

Definition S_teardown_complete : Prop :=
  forall p fuel st, reachable p fuel st -> all_destroyed st ->
    impls st = [] /\ all_reps st = [] /\ leaked st = 0.

(* ------------------------------------------------------------------------------------------ *)
(* C02 *)

(* destroying a trackable: no functor refers to it afterwards; every slot variable whose functor
   referred to it is empty; every list element whose functor referred to it is invalid, and at a
   quiescent point it is gone from its list *)
Definition S_trackable_death : Prop :=
  forall prog rec t st st', WF st -> live_track t st <> None -> t < 1000 -> is_shared t st = false ->
    step prog rec (OTDel t) st = Done st' tt ->
    live_track t st' = None /\
    (forall r f, In r (all_reps st') -> r_fn r = Some f -> ~ In t (f_refs f)) /\
    (forall r, In r (all_reps st) -> In t (refs_of r) ->
       forall r', In r' (all_reps st') -> r_id r' = r_id r -> r_valid r' = false /\ r_fn r' = None) /\
    (quiescent st -> nodes_attached st -> forall r, In r (all_reps st) -> In t (refs_of r) ->
       forall r', In r' (node_reps st') -> r_id r' <> r_id r).

(* a slot whose functor is gone is empty and is never invoked *)
Definition S_invalid_never_invoked : Prop :=
  forall sb r, sb_rep sb = Some r -> r_valid r = false -> sb_empty sb = true /\ callable_sb sb = false.

(* ------------------------------------------------------------------------------------------ *)
(* C04 *)

Definition S_conn_query_truth : Prop :=
  forall prog rec c st p, WF st -> get_connptr (WC c) st = Some p ->
    exists b bl, step prog rec (OCQuery c) st = Done (emit_ev (EConnQ b bl) st) tt /\
      (b = true <-> exists i n sb r, p = Some (i, n) /\ get_sb (LNode i n) st = Some sb /\
                                     sb_rep sb = Some r /\ r_valid r = true).

(* disconnect through a connection at a quiescent point removes exactly that element ... *)
Definition S_disconnect_exact : Prop :=
  forall prog rec c st i n im, WF_top st -> get_connptr (WC c) st = Some (Some (i, n)) ->
    aget i (impls st) = Some im ->
    (exists r sb, get_sb (LNode i n) st = Some sb /\ sb_rep sb = Some r /\ r_attached r = true) ->
    exists st' im', step prog rec (OCDisc c) st = Done st' tt /\
      aget i (impls st') = Some im' /\
      map n_id (i_nodes im') = map n_id (del_node n (i_nodes im)) /\
      (forall j imj, j <> i -> aget j (impls st) = Some imj -> aget j (impls st') = Some imj) /\
      slots st' = slots st /\ sigs st' = sigs st /\
      (* ... and every handle that referred to it reports disconnected from now on *)
      (forall w, conn_ptr w st = Some (i, n) -> conn_ptr w st' = None).

(* ... and is idempotent: on a handle whose slot has gone it changes nothing *)
Definition S_disconnect_idempotent : Prop :=
  forall prog rec c st, get_connptr (WC c) st = Some None ->
    step prog rec (OCDisc c) st = Done st tt.

(* a handle never dangles: if it is non-null its element exists (wf_conn_target) *)
Definition S_conn_never_dangles : Prop :=
  forall st w i n, WF st -> get_connptr w st = Some (Some (i, n)) ->
    exists sb r, get_sb (LNode i n) st = Some sb /\ sb_rep sb = Some r /\ In w (r_watch r).

(* node ids are never reused: a handle can only ever refer to the element it was obtained for *)
Definition S_node_ids_fresh : Prop :=
  forall st i im nd, WF st -> aget i (impls st) = Some im -> In nd (i_nodes im) ->
    match n_id nd with Real n => n < next_nid st | Ph n => n < next_ph st end.

(* ------------------------------------------------------------------------------------------ *)
(* C12 *)

Definition S_slot_block_only_target : Prop :=
  forall prog rec s b st sb, live_slot s st = Some sb ->
    step prog rec (OSBlock s b) st =
      Done (emit_ev (EBlockRet (sb_blocked sb)) (set_sb (LVar s) (mkSB (sb_rep sb) b) st)) tt.

Definition S_conn_block_only_target : Prop :=
  forall prog rec c b st i n sb, get_connptr (WC c) st = Some (Some (i, n)) -> get_sb (LNode i n) st = Some sb ->
    step prog rec (OCBlock c b) st =
      Done (emit_ev (EBlockRet (sb_blocked sb)) (set_sb (LNode i n) (mkSB (sb_rep sb) b) st)) tt.

Definition S_blocked_call_default : Prop :=
  forall prog rec s arg catch st sb, live_slot s st = Some sb -> sb_blocked sb = true ->
    step prog rec (OSCall s arg catch) st = Done (emit_ev (ECallRet 0) st) tt.

Definition S_signal_block_sets_current : Prop :=
  forall prog rec g b st st' go i im, live_sig g st = Some go -> g_impl go = Some i -> aget i (impls st) = Some im ->
    step prog rec (OGBlock g b) st = Done st' tt ->
    exists im', aget i (impls st') = Some im' /\
      map n_id (i_nodes im') = map n_id (i_nodes im) /\
      map (fun x => sb_rep (n_sb x)) (i_nodes im') = map (fun x => sb_rep (n_sb x)) (i_nodes im) /\
      forallb (fun x => Bool.eqb (sb_blocked (n_sb x)) b) (i_nodes im') = true.

(* ------------------------------------------------------------------------------------------ *)
(* C13: accumulator cursors *)

(* dereferencing an already dereferenced cursor invokes nothing and returns the buffered value *)
Definition S_deref_at_most_once : Prop :=
  forall rec i arg c st st1 c1,
    cur_deref rec i arg c st = Done st1 c1 ->
    get_sb (LNode i (c_pos c)) st1 <> None ->       (* the position is still in the list (always so inside an emission frame) *)
    (c_invoked c = true -> st1 = st /\ c1 = c) /\
    cur_deref rec i arg c1 st1 = Done st1 c1 \/ c_invoked c1 = false.

(* a blocked or empty position is never invoked *)
Definition S_deref_skips_blocked : Prop :=
  forall rec i arg c st sb, get_sb (LNode i (c_pos c)) st = Some sb -> callable_sb sb = false ->
    cur_deref rec i arg c st = Done st c.

(* moving a cursor re-arms it *)
Definition S_move_rearms : Prop :=
  forall i c st c', (cur_inc i c st = Ok c' \/ cur_dec i c st = Ok c') -> c_invoked c' = false /\ c_buf c' = c_buf c.

Definition no_deref (ops : list accop) : bool :=
  forallb (fun o => match o with ACopy _ _ | AInc _ | ADec _ => true | _ => false end) ops.

(* positions never dereferenced are never invoked *)
Definition S_undereferenced_never_invoked : Prop :=
  forall rec n i arg fc lc ops cs a st st' v, no_deref ops = true ->
    acc_run rec n i arg fc lc ops cs a st = Done st' v -> st' = st /\ v = a.

(* ------------------------------------------------------------------------------------------ *)
(* C14 *)

Definition S_copy_shares : Prop :=
  forall prog rec gn go st st' src, live_sig go st = Some src -> fresh_sig gn st = true ->
    step prog rec (OGCopy gn go) st = Done st' tt ->
    exists i a b, live_sig gn st' = Some a /\ live_sig go st' = Some b /\ g_impl a = Some i /\ g_impl b = Some i /\
                  (forall j, g_impl src = Some j -> j = i).

Definition S_assign_shares : Prop :=
  forall prog rec gd gs st st' dst src, WF st -> live_sig gd st = Some dst -> live_sig gs st = Some src ->
    same_gkind (g_kind dst) (g_kind src) = true ->
    step prog rec (OGAssign gd gs) st = Done st' tt ->
    exists i a b, live_sig gd st' = Some a /\ live_sig gs st' = Some b /\ g_impl a = Some i /\ g_impl b = Some i.

Definition S_move_transfers : Prop :=
  forall prog rec gn go st st' src, WF st -> live_sig go st = Some src -> fresh_sig gn st = true ->
    gk_acc (g_kind src) = None ->
    step prog rec (OGMove gn go) st = Done st' tt ->
    exists a b, live_sig gn st' = Some a /\ live_sig go st' = Some b /\ g_impl a = g_impl src /\ g_impl b = None.

(* the list dies with its last handle: every handle to one of its elements reports disconnected *)
Definition S_last_handle_teardown : Prop :=
  forall prog rec g st st' go i, WF_top st -> live_sig g st = Some go -> g_impl go = Some i ->
    refcount i st = 1 ->
    is_shared (sig_key g) st = false ->   (* a signal object co-owned by functors is not destroyed by the program: OGRelease and the last owner do that *)
    step prog rec (OGDel g) st = Done st' tt ->
    aget i (impls st') = None /\ (forall w n, conn_ptr w st = Some (i, n) -> conn_ptr w st' = None).

(* ... and not earlier *)
Definition S_other_handles_keep_list : Prop :=
  forall prog rec g st st' go i im, WF_top st -> live_sig g st = Some go -> g_impl go = Some i ->
    aget i (impls st) = Some im -> 1 < refcount i st ->
    gk_track (g_kind go) = false ->     (* destroying a trackable_signal handle also invalidates its own forwarders, which may sit in this very list *)
    step prog rec (OGDel g) st = Done st' tt ->
    exists im', aget i (impls st') = Some im' /\ map n_id (i_nodes im') = map n_id (i_nodes im).

Definition S_other_handles_keep_impl : Prop :=
  forall prog rec g st st' go i im, WF_top st -> live_sig g st = Some go -> g_impl go = Some i ->
    aget i (impls st) = Some im -> 1 < refcount i st ->
    step prog rec (OGDel g) st = Done st' tt ->
    aget i (impls st') <> None.

(* ------------------------------------------------------------------------------------------ *)
(* C15 *)

Definition S_default_slot_empty : Prop :=
  forall prog rec s rk arg catch st, fresh_slot s st = true ->
    exists st1, step prog rec (OSEmpty s rk) st = Done st1 tt /\
      live_slot s st1 = Some sb_none /\
      step prog rec (OSCall s arg catch) st1 = Done (emit_ev (ECallRet 0) st1) tt.

(* a copy is a new slot with its own rep id; the source is untouched *)
Definition S_copy_independent : Prop :=
  forall prog rec sn so st st' src, WF st -> live_slot so st = Some src -> fresh_slot sn st = true ->
    step prog rec (OSCopy sn so) st = Done st' tt ->
    live_slot so st' = Some src /\
    exists cp, live_slot sn st' = Some cp /\
      (sb_empty src = true -> cp = mkSB None (match sb_rep src with Some _ => false | None => sb_blocked src end)) /\
      (sb_empty src = false -> sb_blocked cp = sb_blocked src /\ body_of cp = body_of src /\
         exists r, sb_rep cp = Some r /\ r_valid r = true /\ r_id r = next_rid st).

Definition S_move_empties_source : Prop :=
  forall prog rec sn so st st' src, WF st -> live_slot so st = Some src -> fresh_slot sn st = true ->
    sb_rep src <> None -> sn <> so ->
    step prog rec (OSMove sn so) st = Done st' tt ->
    live_slot so st' = Some sb_none /\
    exists mv, live_slot sn st' = Some mv /\ sb_blocked mv = sb_blocked src /\
               option_map r_id (sb_rep mv) = option_map r_id (sb_rep src) /\ body_of mv = body_of src.

Definition S_disconnect_empties : Prop :=
  forall prog rec s st st' sb, WF st -> live_slot s st = Some sb ->
    step prog rec (OSDisc s) st = Done st' tt ->
    exists sb', live_slot s st' = Some sb' /\ sb_empty sb' = true.

(* operations on one slot variable leave every other slot variable alone *)
Definition touches_slot (o : op) (s : N) : bool :=
  match o with
  | OSNew a _ _ _ | OSEmpty a _ | OSCall a _ _ | OSBlock a _ | OSDisc a | OSDel a | OSQuery a => N.eqb a s
  | OSCopy a b | OSMove a b | OSAssign a b | OSMoveAssign a b => N.eqb a s || N.eqb b s
  | _ => false
  end.
Definition slot_only_op (o : op) : bool :=
  match o with
  | OSNew _ _ _ _ | OSEmpty _ _ | OSBlock _ _ | OSDisc _ | OSDel _ | OSQuery _
  | OSCopy _ _ | OSMove _ _ | OSAssign _ _ | OSMoveAssign _ _ => true
  | _ => false
  end.
Definition S_slot_ops_frame : Prop :=
  forall prog rec o st st' s, WF st -> slot_only_op o = true -> touches_slot o s = false ->
    step prog rec o st = Done st' tt ->
    live_slot s st' = live_slot s st.

(* ------------------------------------------------------------------------------------------ *)
(* C17 *)

Definition S_scoped_move_no_disconnect : Prop :=
  forall prog rec kn ko st st' p, WF st -> get_connptr (WK ko) st = Some p -> fresh_sconn kn st = true ->
    step prog rec (OKMove kn ko) st = Done st' tt ->
    conn_ptr (WK kn) st' = p /\ conn_ptr (WK ko) st' = None /\
    (forall i im, aget i (impls st) = Some im -> exists im', aget i (impls st') = Some im' /\
        map n_id (i_nodes im') = map n_id (i_nodes im) /\
        map (fun x => option_map r_valid (sb_rep (n_sb x))) (i_nodes im') = map (fun x => option_map r_valid (sb_rep (n_sb x))) (i_nodes im)).

Definition S_scoped_release_no_disconnect : Prop :=
  forall prog rec k c st st' p, WF st -> get_connptr (WK k) st = Some p -> fresh_conn c st = true ->
    step prog rec (OKRelease k c) st = Done st' tt ->
    conn_ptr (WC c) st' = p /\ conn_ptr (WK k) st' = None /\
    (forall i im, aget i (impls st) = Some im -> exists im', aget i (impls st') = Some im' /\
        map n_id (i_nodes im') = map n_id (i_nodes im) /\
        map (fun x => option_map r_valid (sb_rep (n_sb x))) (i_nodes im') = map (fun x => option_map r_valid (sb_rep (n_sb x))) (i_nodes im)).

Definition S_scoped_swap_exchanges : Prop :=
  forall prog rec k1 k2 st st' p1 p2, WF st -> k1 <> k2 ->
    get_connptr (WK k1) st = Some p1 -> get_connptr (WK k2) st = Some p2 ->
    step prog rec (OKSwap k1 k2) st = Done st' tt ->
    conn_ptr (WK k1) st' = p2 /\ conn_ptr (WK k2) st' = p1 /\
    (forall i im, aget i (impls st) = Some im -> exists im', aget i (impls st') = Some im' /\
        map n_id (i_nodes im') = map n_id (i_nodes im)).

(* destruction disconnects the held slot: at a quiescent point the element leaves its list *)
Definition S_scoped_destroy_disconnects : Prop :=
  forall prog rec k st st' i n im, WF_top st -> get_connptr (WK k) st = Some (Some (i, n)) ->
    aget i (impls st) = Some im ->
    (exists r sb, get_sb (LNode i n) st = Some sb /\ sb_rep sb = Some r /\ r_attached r = true) ->
    step prog rec (OKDel k) st = Done st' tt ->
    get_connptr (WK k) st' = None /\
    exists im', aget i (impls st') = Some im' /\ map n_id (i_nodes im') = map n_id (del_node n (i_nodes im)).

(* assignment from a connection disconnects the previously held slot first *)
Definition S_scoped_assign_disconnects_old : Prop :=
  forall prog rec k c st st' i n im pc, WF_top st -> get_connptr (WK k) st = Some (Some (i, n)) ->
    get_connptr (WC c) st = Some pc -> pc <> Some (i, n) ->
    aget i (impls st) = Some im ->
    (* the element held by k is connected, and c is not a handle to it *)
    (exists r sb, get_sb (LNode i n) st = Some sb /\ sb_rep sb = Some r /\ r_attached r = true /\ ~ In (WC c) (r_watch r)) ->
    step prog rec (OKAssign k c) st = Done st' tt ->
    conn_ptr (WK k) st' = pc /\
    exists im', aget i (impls st') = Some im' /\ map n_id (i_nodes im') = map n_id (del_node n (i_nodes im)).

(* ------------------------------------------------------------------------------------------ *)
(* C18 *)

(* invoking a make_slot() forwarder is emitting the target signal with the same argument *)
Definition S_forwarder_emits : Prop :=
  forall prog fuel f g arg st, f_fwd f = Some g ->
    invoke_functor (run_callee_fuel prog (S fuel)) f arg st = emit_sig prog (run_callee_fuel prog fuel) g arg st.

(* the forwarder of a trackable_signal refers to that signal object's trackable base, and to nothing
   of a copy of it: C02 then applies to it *)
Definition S_forwarder_tracks_its_signal : Prop :=
  forall prog rec s g st st' go, live_sig g st = Some go -> gk_acc (g_kind go) = None -> fresh_slot s st = true ->
    step prog rec (OGMakeSlot s g) st = Done st' tt ->
    exists sb r f, live_slot s st' = Some sb /\ sb_rep sb = Some r /\ r_fn r = Some f /\ f_fwd f = Some g /\
      f_refs f = (if gk_track (g_kind go) then [trackable_of_sig g] else []).

(* destroying (or move-constructing from) a trackable_signal invalidates its forwarders *)
Definition S_forwarder_dies_with_signal : Prop :=
  forall prog rec g st st' go, WF st -> live_sig g st = Some go -> gk_track (g_kind go) = true ->
    is_shared (sig_key g) st = false ->
    step prog rec (OGDel g) st = Done st' tt ->
    forall r f, In r (all_reps st') -> r_fn r = Some f -> f_fwd f <> Some g \/ ~ In (trackable_of_sig g) (f_refs f).

(* a copy of a trackable_signal is a distinct trackable: destroying the copy leaves forwarders made
   from the original alone *)
Definition S_copy_is_distinct_trackable : Prop :=
  forall gn go, gn <> go -> trackable_of_sig gn <> trackable_of_sig go.

(* ------------------------------------------------------------------------------------------ *)
(* Over-general variants that are FALSE, kept because their refutations are machine-checked
   (SigConn.v / SigValues.v): they show which hypotheses of the statements above are needed. *)

(* without "every list element is attached" (true of reachable states, S_quiescent_lists) *)
Definition S_trackable_death_all_wf : Prop :=
  forall prog rec t st st', WF st -> live_track t st <> None -> t < 1000 -> is_shared t st = false ->
    step prog rec (OTDel t) st = Done st' tt ->
    (quiescent st -> forall r, In r (all_reps st) -> In t (refs_of r) ->
       forall r', In r' (node_reps st') -> r_id r' <> r_id r).

(* without "c is not registered at the element k holds" *)
Definition S_scoped_assign_all_wf : Prop :=
  forall prog rec k c st st' i n im pc, WF_top st -> get_connptr (WK k) st = Some (Some (i, n)) ->
    get_connptr (WC c) st = Some pc -> pc <> Some (i, n) ->
    aget i (impls st) = Some im ->
    (exists r sb, get_sb (LNode i n) st = Some sb /\ sb_rep sb = Some r /\ r_attached r = true) ->
    step prog rec (OKAssign k c) st = Done st' tt ->
    conn_ptr (WK k) st' = pc /\
    exists im', aget i (impls st') = Some im' /\ map n_id (i_nodes im') = map n_id (del_node n (i_nodes im)).

(* for user code that may erase the position outside an emission frame *)
Definition S_deref_at_most_once_any_rec : Prop :=
  forall rec i arg c st st1 c1,
    cur_deref rec i arg c st = Done st1 c1 ->
    (c_invoked c = true -> st1 = st /\ c1 = c) /\
    cur_deref rec i arg c1 st1 = Done st1 c1 \/ c_invoked c1 = false.

(* for a trackable_signal whose own forwarder sits in its list *)
Definition S_other_handles_keep_list_tracked : Prop :=
  forall prog rec g st st' go i im, WF_top st -> live_sig g st = Some go -> g_impl go = Some i ->
    aget i (impls st) = Some im -> 1 < refcount i st ->
    step prog rec (OGDel g) st = Done st' tt ->
    exists im', aget i (impls st') = Some im' /\ map n_id (i_nodes im') = map n_id (i_nodes im).

(* without the side condition on copying a disconnected, blocked, non-null slot *)
Definition S_connect_position_any_source : Prop :=
  forall prog rec g s c front mv st st' go src i,
    WF st -> live_sig g st = Some go -> g_impl go = Some i -> live_slot s st = Some src ->
    rkind_eqb (gk_ret (g_kind go)) (kind_of_slot s st) = true ->
    step prog rec (OGConnect g s c front mv) st = Done st' tt ->
    exists nd, n_id nd = Real (next_nid st) /\
      sb_blocked (n_sb nd) = sb_blocked src /\
      (exists r, sb_rep (n_sb nd) = Some r /\ r_attached r = true /\
                 (sb_empty src = false -> r_valid r = true /\ option_map f_body (r_fn r) = body_of src)) /\
      (exists l', nodes_of g st' = (if front then nd :: l' else l' ++ [nd]) /\
                  map n_id l' = map n_id (nodes_of g st)) /\
      (forall j im, j <> i -> aget j (impls st) = Some im -> exists im', aget j (impls st') = Some im' /\ map n_id (i_nodes im') = map n_id (i_nodes im)).

(* ------------------------------------------------------------------------------------------ *)
(* C13: the accumulator's iterator range is exactly the start snapshot.
   Snapshot semantics of the accumulator interpreter: cursors are *indices* into the list of node ids
   present when the emission started (index = length means the end position, i.e. the placeholder);
   ++ / -- move the index; dereferencing looks the element up in the state at that moment. *)
Section AccSnapshot.
  Variable rec : callee -> state -> outcome N.

  Record icursor := mkIC { ic_pos : nat; ic_invoked : bool; ic_buf : N }.

  Definition ic_deref (i : N) (snap : list nid) (arg : N) (c : icursor) (st : state) : outcome icursor :=
    match nth_error snap (ic_pos c) with
    | None => Done st c                                    (* the end position: an empty, never invoked slot *)
    | Some n =>
        match get_sb (LNode i n) st with
        | None => Fail ErrDangling
        | Some sb =>
            if negb (sb_empty sb) && negb (sb_blocked sb) && negb (ic_invoked c)
            then match invoke_at rec (LNode i n) arg st with
                 | Done st1 v => Done st1 (mkIC (ic_pos c) true v)
                 | Thrown st1 => Thrown st1
                 | Fail e => Fail e
                 end
            else Done st c
        end
    end.

  Fixpoint ic_walk (fuel : nat) (i : N) (snap : list nid) (arg : N) (z : option N) (c : icursor) (a : N) (st : state)
    : outcome (icursor * N) :=
    if Nat.eqb (ic_pos c) (length snap) then Done st (c, a) else
    match fuel with
    | O => Fail ErrLoop
    | S fuel' =>
        match ic_deref i snap arg c st with
        | Done st1 c1 =>
            let a1 := acc_step a (ic_buf c1) in
            let c2 := mkIC (S (ic_pos c1)) false (ic_buf c1) in
            if match z with Some zz => N.ltb zz (ic_buf c1) | None => false end
            then Done st1 (c2, a1)
            else ic_walk fuel' i snap arg z c2 a1 st1
        | Thrown st1 => Thrown st1
        | Fail e => Fail e
        end
    end.

  Fixpoint ic_walk_rev (fuel : nat) (i : N) (snap : list nid) (arg : N) (c : icursor) (a : N) (st : state)
    : outcome (icursor * N) :=
    match ic_pos c with
    | O => Done st (c, a)
    | S k =>
        match fuel with
        | O => Fail ErrLoop
        | S fuel' =>
            let c1 := mkIC k false (ic_buf c) in
            match ic_deref i snap arg c1 st with
            | Done st1 c2 => ic_walk_rev fuel' i snap arg c2 (acc_step a (ic_buf c2)) st1
            | Thrown st1 => Thrown st1
            | Fail e => Fail e
            end
        end
    end.

  Definition ic_get (k : N) (fc lc : icursor) (cs : list (N * icursor)) : icursor :=
    if N.eqb k 0 then fc else if N.eqb k 1 then lc else match aget k cs with Some c => c | None => fc end.

  Fixpoint ic_run (n : nat) (i : N) (snap : list nid) (arg : N) (fc lc : icursor) (ops : list accop)
           (cs : list (N * icursor)) (a : N) (st : state) : outcome N :=
    match ops with
    | [] => Done st a
    | o :: rest =>
        let getc k := ic_get k fc lc cs in
        match o with
        | ACopy k j =>
            if writable k then ic_run n i snap arg fc lc rest (aset k (getc j) cs) a st
            else ic_run n i snap arg fc lc rest cs a st
        | AInc k =>
            if writable k && negb (Nat.eqb (ic_pos (getc k)) (ic_pos lc))
            then ic_run n i snap arg fc lc rest (aset k (mkIC (S (ic_pos (getc k))) false (ic_buf (getc k))) cs) a st
            else ic_run n i snap arg fc lc rest cs a st
        | ADec k =>
            if writable k && negb (Nat.eqb (ic_pos (getc k)) (ic_pos fc))
            then ic_run n i snap arg fc lc rest (aset k (mkIC (pred (ic_pos (getc k))) false (ic_buf (getc k))) cs) a st
            else ic_run n i snap arg fc lc rest cs a st
        | ADeref k =>
            if writable k && negb (Nat.eqb (ic_pos (getc k)) (ic_pos lc)) then
              match ic_deref i snap arg (getc k) st with
              | Done st1 c => ic_run n i snap arg fc lc rest (aset k c cs) (acc_step a (ic_buf c)) st1
              | Thrown st1 => Thrown st1
              | Fail e => Fail e
              end
            else ic_run n i snap arg fc lc rest cs a st
        | AWalk k =>
            if writable k then
              match ic_walk n i snap arg None (getc k) a st with
              | Done st1 (c, a1) => ic_run n i snap arg fc lc rest (aset k c cs) a1 st1
              | Thrown st1 => Thrown st1
              | Fail e => Fail e
              end
            else ic_run n i snap arg fc lc rest cs a st
        | AWalkUntil k z =>
            if writable k then
              match ic_walk n i snap arg (Some z) (getc k) a st with
              | Done st1 (c, a1) => ic_run n i snap arg fc lc rest (aset k c cs) a1 st1
              | Thrown st1 => Thrown st1
              | Fail e => Fail e
              end
            else ic_run n i snap arg fc lc rest cs a st
        | AWalkRev k =>
            if writable k then
              match ic_walk_rev n i snap arg (mkIC (ic_pos lc) false (ic_buf lc)) a st with
              | Done st1 (c, a1) => ic_run n i snap arg fc lc rest (aset k c cs) a1 st1
              | Thrown st1 => Thrown st1
              | Fail e => Fail e
              end
            else ic_run n i snap arg fc lc rest cs a st
        end
    end.
End AccSnapshot.

(* emission of an accumulated signal, written over snapshot indices *)
Definition spec_emit_acc (prog : program) (rec : callee -> state -> outcome N) (g arg : N) (st : state) : outcome N :=
  match live_sig g st with
  | None => Fail ErrUnsupported
  | Some go =>
      match gk_acc (g_kind go) with
      | None => Fail ErrUnsupported
      | Some a =>
          let ops := match aget a (p_accs prog) with Some l => l | None => [] end in
          match g_impl go with
          | None => ic_run rec O 0 [] arg (mkIC O false 0) (mkIC O false 0) ops [] 0 st
          | Some i =>
              match aget i (impls st) with
              | None => Fail ErrUAF
              | Some im =>
                  let snap := map n_id (i_nodes im) in
                  with_frame i (fun _first _ph n st1 =>
                                  ic_run rec n i snap arg (mkIC O false 0) (mkIC (length snap) false 0) ops [] 0 st1) st
              end
          end
      end
  end.

(* the accumulator is called once, with a range covering exactly the slots present when the emission
   started, in order, walkable in both directions; whatever the running slots do *)
Definition S_acc_emit_is_snapshot : Prop :=
  forall prog rec,
    (forall c st, WF st -> out_ok st (rec c st)) ->
    forall g arg st go a, WF st -> live_sig g st = Some go -> gk_acc (g_kind go) = Some a ->
      emit_sig prog rec g arg st = spec_emit_acc prog rec g arg st.

(* ------------------------------------------------------------------------------------------ *)
(* C04 / C17: watch lists are exact on reachable states: a handle registered at an element points
   at it, and at most once *)
Definition watch_exact (st : state) : Prop :=
  forall i im nd r w, aget i (impls st) = Some im -> In nd (i_nodes im) -> sb_rep (n_sb nd) = Some r ->
    In w (r_watch r) -> conn_ptr w st = Some (i, n_id nd).

Definition S_watch_exact : Prop :=
  forall p fuel st, reachable p fuel st -> watch_exact st.

(* with it, assignment from a connection to a scoped_connection needs no side condition *)
Definition S_scoped_assign_disconnects_old_reachable : Prop :=
  forall p fuel st, reachable p fuel st ->
  forall prog rec k c st' i n im pc, get_connptr (WK k) st = Some (Some (i, n)) ->
    get_connptr (WC c) st = Some pc -> pc <> Some (i, n) ->
    aget i (impls st) = Some im ->
    step prog rec (OKAssign k c) st = Done st' tt ->
    conn_ptr (WK k) st' = pc /\
    exists im', aget i (impls st') = Some im' /\ map n_id (i_nodes im') = map n_id (del_node n (i_nodes im)).

(* ------------------------------------------------------------------------------------------ *)
(* C15: assignment *)

Definition S_slot_assign_copies : Prop :=
  forall prog rec sd ss st st' dst src, WF st -> live_slot sd st = Some dst -> live_slot ss st = Some src ->
    sd <> ss -> rkind_eqb (kind_of_slot sd st) (kind_of_slot ss st) = true -> sb_empty src = false ->
    step prog rec (OSAssign sd ss) st = Done st' tt ->
    live_slot ss st' = Some src /\
    exists cp r, live_slot sd st' = Some cp /\ sb_blocked cp = sb_blocked src /\ body_of cp = body_of src /\
                 sb_rep cp = Some r /\ r_valid r = true /\ r_id r = next_rid st.

(* assigning an empty (or invalidated) slot empties the target; its own functor is released *)
Definition S_slot_assign_from_empty : Prop :=
  forall prog rec sd ss st st' dst src, WF st -> live_slot sd st = Some dst -> live_slot ss st = Some src ->
    sd <> ss -> rkind_eqb (kind_of_slot sd st) (kind_of_slot ss st) = true -> sb_empty src = true -> sb_rep dst <> None ->
    step prog rec (OSAssign sd ss) st = Done st' tt ->
    live_slot sd st' = Some (mkSB None (sb_blocked dst)) /\ live_slot ss st' = Some src.

Definition S_slot_self_assign : Prop :=
  forall prog rec s st st' sb, WF st -> live_slot s st = Some sb ->
    (step prog rec (OSAssign s s) st = Done st' tt \/ step prog rec (OSMoveAssign s s) st = Done st' tt) ->
    live_slot s st' = Some sb.

Definition S_slot_move_assign : Prop :=
  forall prog rec sd ss st st' dst src, WF st -> live_slot sd st = Some dst -> live_slot ss st = Some src ->
    sd <> ss -> rkind_eqb (kind_of_slot sd st) (kind_of_slot ss st) = true -> sb_empty src = false ->
    step prog rec (OSMoveAssign sd ss) st = Done st' tt ->
    live_slot ss st' = Some sb_none /\
    exists mv, live_slot sd st' = Some mv /\ sb_blocked mv = sb_blocked src /\
               option_map r_id (sb_rep mv) = option_map r_id (sb_rep src) /\ body_of mv = body_of src.

(* ------------------------------------------------------------------------------------------ *)
(* C14: two handles to one list are interchangeable *)

Definition S_handles_share_list : Prop :=
  forall g1 g2 st a b i, live_sig g1 st = Some a -> live_sig g2 st = Some b ->
    g_impl a = Some i -> g_impl b = Some i -> nodes_of g1 st = nodes_of g2 st.

Definition S_emission_through_either_handle : Prop :=
  forall prog rec g1 g2 arg st a b, live_sig g1 st = Some a -> live_sig g2 st = Some b ->
    g_impl a = g_impl b -> g_kind a = g_kind b ->
    emit_sig prog rec g1 arg st = emit_sig prog rec g2 arg st.

(* ------------------------------------------------------------------------------------------ *)
(* C02: the other events that notify a trackable's watchers (assignment, move assignment,
   notify_callbacks) invalidate the slots that refer to it just like destruction does; the object
   itself stays alive *)
Definition S_trackable_notify_invalidates : Prop :=
  forall prog rec t st st', WF st -> prog_track t st <> None ->
    step prog rec (OTNotify t) st = Done st' tt ->
    live_track t st' <> None /\
    (forall r, In r (all_reps st) -> In t (refs_of r) ->
       forall r', In r' (all_reps st') -> r_id r' = r_id r -> r_valid r' = false /\ r_fn r' = None) /\
    (forall r f, In r (all_reps st') -> r_fn r = Some f -> ~ In t (f_refs f)).

(* shared ownership: once the program has released its handle and no functor copy owns it, the
   object is destroyed at the end of the operation (and not before) *)
Definition S_shared_trackable_lifetime : Prop :=
  forall prog st st' t, WF st -> NoDup (map fst (shared st)) -> gc_shared prog st = Ok st' -> t < 1000 ->
    (live_track t st <> None -> live_track t st' = None ->
       is_released t st = true /\ In t (map fst (shared st))) /\
    (live_track t st' <> None -> is_released t st' = true -> In t (map fst (shared st')) -> 0 < owner_count prog t st').

(* without distinct keys in the table of shared trackables (a well-formed but unreachable state) *)
Definition S_shared_trackable_lifetime_dupkeys : Prop :=
  forall prog st st' t, WF st -> gc_shared prog st = Ok st' -> t < 1000 ->
    (live_track t st <> None -> live_track t st' = None ->
       is_released t st = true /\ In t (map fst (shared st))) /\
    (live_track t st' <> None -> is_released t st' = true -> In t (map fst (shared st')) -> 0 < owner_count prog t st').

(* ------------------------------------------------------------------------------------------ *)
(* Shared ownership over histories (C07) and independence of the nesting bound (all properties) *)

(* the table of shared trackables never holds a key twice (the hypothesis of
   S_shared_trackable_lifetime is true of every reachable state, and of the intermediate state on
   which the end-of-operation destruction runs) *)
Definition S_shared_keys_distinct : Prop :=
  forall p fuel st, reachable p fuel st -> NoDup (map fst (shared st)).

Definition after_op (p : program) (fuel : nat) (o : op) (st st1 : state) : Prop :=
  step p (run_callee_fuel p fuel) o st = Done st1 tt \/
  exists st1', step p (run_callee_fuel p fuel) o st = Thrown st1' /\ st1 = emit_ev EExn st1'.

(* S_shared_trackable_lifetime along every history, with no side condition *)
Definition S_shared_trackable_lifetime_history : Prop :=
  forall p fuel st o st1 st2 t, reachable p fuel st -> after_op p fuel o st st1 ->
    gc_shared p st1 = Ok st2 -> t < 1000 ->
    NoDup (map fst (shared st1)) /\
    (live_track t st1 <> None -> live_track t st2 = None ->
       is_released t st1 = true /\ In t (map fst (shared st1))) /\
    (live_track t st2 <> None -> is_released t st2 = true -> 0 < owner_count p t st2).

(* between operations no object survives without an owner: a shared trackable whose program handle
   has been released is alive only while some live functor copy owns it *)
Definition S_no_orphan_at_rest : Prop :=
  forall p fuel st t, reachable p fuel st -> t < 1000 ->
    live_track t st <> None -> is_released t st = true -> 0 < owner_count p t st.

(* The nesting bound of the interpreter is not part of the meaning: a run that does not hit the
   bound gives the same state and trace under every larger bound (so `reachable p fuel` grows with
   fuel and every theorem over `forall fuel` speaks about the unbounded semantics). *)
Definition S_fuel_monotone_callee : Prop :=
  forall p fuel fuel' c st r, (fuel <= fuel')%nat ->
    run_callee_fuel p fuel c st = r -> r <> Fail ErrFuel -> run_callee_fuel p fuel' c st = r.

Definition S_fuel_monotone : Prop :=
  forall p fuel fuel' ops st, (fuel <= fuel')%nat ->
    (forall st', run_top p fuel ops st = Ok st' -> run_top p fuel' ops st = Ok st') /\
    (forall e, run_top p fuel ops st = Err e -> e <> ErrFuel -> run_top p fuel' ops st = Err e).

Definition S_reachable_mono : Prop :=
  forall p fuel fuel' st, (fuel <= fuel')%nat -> reachable p fuel st -> reachable p fuel' st.

(* signal objects co-owned by functor copies (OGShare / OGRelease): the object is destroyed at the end
   of the operation in which the program has released it and the last owning functor copy has gone,
   and not before; between operations a released signal object is alive only while some live functor
   copy owns it.  The keys from 4000 on name connection objects, so the signal objects the table can name
   are the g < 2000 (OGShare takes g < 1000); without the bound both statements are false
   (SigShared.v, shared_signal_any_key_false) *)
Definition S_shared_signal_lifetime_history : Prop :=
  forall p fuel st o st1 st2 g, reachable p fuel st -> after_op p fuel o st st1 ->
    gc_shared p st1 = Ok st2 -> g < 2000 ->
    (live_sig g st1 <> None -> live_sig g st2 = None -> is_released (sig_key g) st1 = true) /\
    (live_sig g st2 <> None -> is_released (sig_key g) st2 = true -> 0 < owner_count p (sig_key g) st2).

Definition S_no_orphan_signal_at_rest : Prop :=
  forall p fuel st g, reachable p fuel st -> g < 2000 ->
    live_sig g st <> None -> is_released (sig_key g) st = true -> 0 < owner_count p (sig_key g) st.

(* connection objects co-owned by functor copies (OCShare / OCRelease; the one-shot idiom: a handler
   holding a shared_ptr to its own sigc::connection): the object is destroyed at the end of the operation
   in which the program has released it and the last owning functor copy has gone, and not before *)
Definition S_shared_connection_lifetime_history : Prop :=
  forall p fuel st o st1 st2 c, reachable p fuel st -> after_op p fuel o st st1 ->
    gc_shared p st1 = Ok st2 ->
    (get_connptr (WC c) st1 <> None -> get_connptr (WC c) st2 = None -> is_released (conn_key c) st1 = true) /\
    (get_connptr (WC c) st2 <> None -> is_released (conn_key c) st2 = true -> 0 < owner_count p (conn_key c) st2).

Definition S_no_orphan_connection_at_rest : Prop :=
  forall p fuel st c, reachable p fuel st ->
    get_connptr (WC c) st <> None -> is_released (conn_key c) st = true -> 0 < owner_count p (conn_key c) st.
