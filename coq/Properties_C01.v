(* Properties_C01.v -- Emission invokes exactly the connected, unblocked slots, once each, in order.
   Statements only: each Prop is defined in SigSpec.v (or spelled out here) and closed by a lemma of
   SigSafe.v, SigSnapshot.v, SigQuiesce.v; Print Assumptions follows each. *)
From Coq Require Import List NArith Bool.
Import ListNotations.
Require Import Util SigCore SigLemmas SigInv SigSafe SigSpec SigSnapshot SigQuiesce.
Local Open Scope N_scope.

(* for every program, fuel and state: the emitters' loop visits exactly the slots present when the emission started, in list order, each looked up at its turn *)
Theorem C01_emission_is_snapshot : S_emit_is_snapshot_fuel.
Proof. exact emit_is_snapshot_fuel. Qed.
Print Assumptions C01_emission_is_snapshot.

(* with slots that do not touch the library: exactly the connected, valid, unblocked slots, once each, in order, with the emitted argument, and nothing else changes *)
Theorem C01_emission_exact : S_emission_exact_pure.
Proof. exact emission_exact_pure. Qed.
Print Assumptions C01_emission_exact.

(* connect() appends, connect_first() prepends, one new connected element; no other list changes *)
Theorem C01_connect_appends_connect_first_prepends : S_connect_position.
Proof. exact connect_position_partial. Qed.
Print Assumptions C01_connect_appends_connect_first_prepends.

(* size()/empty()/blocked() report the list *)
Theorem C01_size_empty_report_the_list : S_query_reports.
Proof. exact query_reports. Qed.
Print Assumptions C01_size_empty_report_the_list.

(* outside an emission every list element is a still-connected slot (nothing disconnected, invalidated or cleared lingers) *)
Theorem C01_lists_hold_exactly_connected_slots : S_quiescent_lists.
Proof. exact quiescent_lists. Qed.
Print Assumptions C01_lists_hold_exactly_connected_slots.
