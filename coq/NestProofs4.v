(* NestProofs4.v -- the generalised invariant GInv and its preservation by field updates *)
From Coq Require Import List NArith Bool Arith Lia Permutation.
Import ListNotations.
Require Import Util NestModel NestSpec NestProofs1 NestProofs2 NestProofs3.
Local Open Scope N_scope.

Definition armed_ids (l : list (N * bool)) : list N := map fst (filter (fun e => snd e) l).
Definition acount (id : N) (l : list (N * bool)) : nat := count_occ N.eq_dec (armed_ids l) id.
Definition bcount (t id : N) (B : list (N * item)) : nat :=
  length (filter (fun b => N.eqb (fst b) id && is_track t (snd b)) B).
Definition drefs (t id : N) (U : list rep) : nat :=
  match lk id U with Some r => direct_refs t r | None => O end.

Record GInv (T : option N) (P : list (N * option N)) (B : list (N * item)) (st : nstate) : Prop := mkGInv
  { gi_nodup : NoDup (ids (all_reps st));
    gi_next : 0 < next_id st;
    gi_idpos : forall u, In u (all_reps st) -> 0 < r_id u /\ r_id u < next_id st;
    gi_track_live : forall u t, In u (all_reps st) -> In (ITrack t) (items_of u) -> live_tr t st <> None;
    gi_ref_live : forall u s, In u (all_reps st) -> In (IRef s) (items_of u) -> live_var s st <> None;
    gi_btrack_live : forall i t, In (i, ITrack t) B -> live_tr t st <> None;
    gi_bref_live : forall i s, In (i, IRef s) B -> live_var s st <> None;
    gi_bpos : forall b, In b B -> 0 < fst b;
    gi_clearing : forall t x, live_tr t st = Some x -> t_clearing x = true -> T = Some t;
    gi_armed : forall t x, live_tr t st = Some x -> t_clearing x = false -> forall e, In e (t_regs x) -> snd e = true;
    gi_regs : forall t x i, live_tr t st = Some x ->
        acount i (t_regs x) = (drefs t i (all_reps st) + bcount t i B)%nat;
    gi_parent : forall u p, In u (all_reps st) -> r_parent u = Some p ->
        (exists q, lk p (all_reps st) = Some q /\
                   (In u (kids (items_of q)) \/ exists s, In (IRef s) (items_of q) /\ live_var s st = Some (Some u)))
        \/ (exists s, In (p, IRef s) B /\ live_var s st = Some (Some u));
    gi_vcp : forall q c, In q (all_reps st) -> In c (kids (items_of q)) ->
        r_parent c = Some (r_id q) \/ (r_parent c = None /\ In (r_id c, Some (r_id q)) P);
    gi_pending : forall i po r, In (i, po) P -> lk i (all_reps st) = Some r -> r_valid r = false /\ r_parent r = None;
    gi_fnvalid : forall u, In u (all_reps st) -> r_fn u = None -> r_valid u = false;
    gi_kidfn : forall q c, In q (all_reps st) -> In c (kids (items_of q)) -> r_fn c = None ->
        In (r_id c, Some (r_id q)) P }.

(* ---- sub-NoDup ---- *)
Lemma NoDup_RL_root : forall F c, NoDup (ids (RL F)) -> In c F -> NoDup (ids (reps_of c)).
Proof.
  induction F as [|a tl IH]; intros c Hnd Hc; [destruct Hc|].
  cbn [RL flat_map] in Hnd. fold (RL tl) in Hnd. rewrite ids_app in Hnd.
  destruct Hc as [->|Hc]; [eapply NoDup_app_l; eassumption | apply IH; [eapply NoDup_app_r; eassumption | exact Hc]].
Qed.

Lemma NoDup_sub_rep : forall r, NoDup (ids (reps_of r)) -> forall u, In u (reps_of r) -> NoDup (ids (reps_of u)).
Proof.
  apply (rep_kids_ind (fun r => NoDup (ids (reps_of r)) -> forall u, In u (reps_of r) -> NoDup (ids (reps_of u)))).
  intros r IH Hnd u Hu. rewrite reps_of_eq in Hu. destruct Hu as [<-|Hu]; [exact Hnd|].
  rewrite reps_items_kids in Hu. apply in_flat_map in Hu. destruct Hu as (c & Hc & Hu).
  apply (IH c Hc); [|exact Hu].
  rewrite reps_of_eq in Hnd. cbn [ids map] in Hnd. apply NoDup_cons_iff in Hnd. destruct Hnd as [_ Hnd].
  rewrite reps_items_kids in Hnd. fold (RL (kids (items_of r))) in Hnd. eapply NoDup_RL_root; eassumption.
Qed.

Lemma NoDup_sub : forall F u, NoDup (ids (RL F)) -> In u (RL F) -> NoDup (ids (reps_of u)).
Proof.
  intros F u Hnd Hu. apply RL_in in Hu. destruct Hu as (r & Hr & Hu).
  eapply NoDup_sub_rep; [eapply NoDup_RL_root; eassumption | exact Hu].
Qed.

Lemma NoDup_sub_st : forall st u, NoDup (ids (all_reps st)) -> In u (all_reps st) -> NoDup (ids (reps_of u)).
Proof. intros st u. rewrite all_reps_tops. apply NoDup_sub. Qed.

Lemma all_reps_kid_closed : forall st q c, In q (all_reps st) -> In c (kids (items_of q)) -> In c (all_reps st).
Proof. intros st q c. rewrite all_reps_tops. apply RL_kid_closed. Qed.

Lemma all_reps_sub_closed : forall st q, In q (all_reps st) -> incl (reps_of q) (all_reps st).
Proof. intros st q. rewrite all_reps_tops. apply RL_sub_closed. Qed.

(* ---- live_var and tops ---- *)
Lemma live_var_split : forall s st r, live_var s st = Some (Some r) ->
  exists l1 l2, vars st = l1 ++ (s, Some (Some r)) :: l2 /\ aget s l1 = None.
Proof.
  intros s st r H. unfold live_var in H. destruct (aget s (vars st)) as [[x|]|] eqn:E; try discriminate.
  injection H as ->. apply aget_split. exact E.
Qed.

Lemma live_var_top : forall s st r, live_var s st = Some (Some r) -> In r (tops (vars st)).
Proof.
  intros s st r H. destruct (live_var_split s st r H) as (l1 & l2 & E & _). rewrite E, tops_app. apply in_or_app. right. left. reflexivity.
Qed.

Lemma live_var_in : forall s st r, live_var s st = Some (Some r) -> In r (all_reps st).
Proof.
  intros s st r H. rewrite all_reps_tops. apply RL_in. exists r. split; [eapply live_var_top; eassumption | apply reps_of_self].
Qed.

Lemma top_not_kid : forall st s r q c, NoDup (ids (all_reps st)) -> live_var s st = Some (Some r) ->
  In q (all_reps st) -> In c (kids (items_of q)) -> r_id c <> r_id r.
Proof.
  intros st s r q c Hnd Hs Hq Hc. rewrite all_reps_tops in *. eapply root_not_kid; try eassumption.
  eapply live_var_top; eassumption.
Qed.

(* ---- callback list arithmetic ---- *)
Lemma acount_cons : forall i d a l, acount i ((d, a) :: l) = ((if a then (if N.eqb d i then 1 else 0) else 0) + acount i l)%nat.
Proof.
  intros i d a l. unfold acount, armed_ids. cbn [filter snd]. destruct a; [|reflexivity].
  cbn [map fst count_occ]. destruct (N.eq_dec d i) as [E|E].
  - apply N.eqb_eq in E. rewrite E. reflexivity.
  - apply N.eqb_neq in E. rewrite E. reflexivity.
Qed.

Lemma acount_nil : forall i, acount i [] = O.
Proof. reflexivity. Qed.

Lemma acount_app : forall i l1 l2, acount i (l1 ++ l2) = (acount i l1 + acount i l2)%nat.
Proof.
  intros i l1 l2. induction l1 as [|[d a] tl IH]; [reflexivity|]. cbn [app]. rewrite !acount_cons, IH. lia.
Qed.

Lemma acount_remove_first : forall me i l,
  acount i (remove_first (fun e : N * bool => N.eqb (fst e) me && snd e) l) =
  (acount i l - (if N.eqb me i then 1 else 0))%nat.
Proof.
  intros me i l. induction l as [|[d a] tl IH]; [reflexivity|].
  cbn [remove_first fst snd]. destruct (N.eqb d me && a) eqn:E.
  - apply andb_true_iff in E. destruct E as [E ->]. apply N.eqb_eq in E. subst d. rewrite acount_cons.
    destruct (N.eqb me i); lia.
  - rewrite !acount_cons, IH. destruct a; [|lia]. rewrite andb_true_r in E.
    destruct (N.eqb d i) eqn:E1; [|lia]. apply N.eqb_eq in E1. subst d. rewrite N.eqb_sym in E. rewrite E. lia.
Qed.

Lemma acount_disarm_first : forall me i l,
  acount i (disarm_first me l) = (acount i l - (if N.eqb me i then 1 else 0))%nat.
Proof.
  intros me i l. induction l as [|[d a] tl IH]; [reflexivity|].
  cbn [disarm_first]. destruct (N.eqb d me && a) eqn:E.
  - apply andb_true_iff in E. destruct E as [E ->]. apply N.eqb_eq in E. subst d. rewrite !acount_cons.
    destruct (N.eqb me i); lia.
  - rewrite !acount_cons, IH. destruct a; [|lia]. rewrite andb_true_r in E.
    destruct (N.eqb d i) eqn:E1; [|lia]. apply N.eqb_eq in E1. subst d. rewrite N.eqb_sym in E. rewrite E. lia.
Qed.

Lemma remove_first_in : forall (A : Type) (p : A -> bool) l x, In x (remove_first p l) -> In x l.
Proof.
  intros A p l x. induction l as [|a tl IH]; [intros []|]. cbn [remove_first]. destruct (p a); intros H.
  - right. exact H.
  - destruct H as [H|H]; [left; exact H | right; apply IH, H].
Qed.

Lemma bcount_cons : forall t i b B, bcount t i (b :: B) = ((if N.eqb (fst b) i && is_track t (snd b) then 1 else 0) + bcount t i B)%nat.
Proof. intros. unfold bcount. cbn [filter]. destruct (N.eqb (fst b) i && is_track t (snd b)); reflexivity. Qed.

Lemma bcount_app : forall t i B1 B2, bcount t i (B1 ++ B2) = (bcount t i B1 + bcount t i B2)%nat.
Proof. intros. unfold bcount. rewrite filter_app, app_length. reflexivity. Qed.

(* ---- preservation by a field update of one rep ---- *)
Lemma live_var_map_rep_none : forall id f s st, live_var s (map_rep id f st) = None <-> live_var s st = None.
Proof. intros. rewrite live_var_map_rep. destruct (live_var s st); cbn; split; intros; congruence. Qed.

Lemma ginv_field : forall T P B P' B' st id f ro,
  GInv T P B st -> pres_id f -> pres_fn f -> lk id (all_reps st) = Some ro ->
  (r_valid ro = false -> r_valid (f ro) = false) ->
  (forall x, In x B -> In x B') ->
  (forall t i, bcount t i B' = bcount t i B) ->
  (forall i t, In (i, ITrack t) B' -> live_tr t st <> None) ->
  (forall i s, In (i, IRef s) B' -> live_var s st <> None) ->
  (forall b, In b B' -> 0 < fst b) ->
  (forall x, In x P -> In x P') ->
  (forall i po, In (i, po) P' -> In (i, po) P \/ i = id) ->
  (forall po, In (id, po) P' -> r_valid (f ro) = false /\ r_parent (f ro) = None) ->
  (forall p, r_parent (f ro) = Some p ->
      r_parent ro = Some p \/ exists s, In (p, IRef s) B' /\ live_var s st = Some (Some ro)) ->
  (forall q, In q (all_reps st) -> In ro (kids (items_of q)) ->
      r_parent (f ro) = Some (r_id q) \/ (r_parent (f ro) = None /\ In (id, Some (r_id q)) P')) ->
  GInv T P' B' (map_rep id f st).
Proof.
  intros T P B P' B' st id f ro HG Hf Hfn Hlk Hval HB Hbc HBt HBr HBp HP HP' Hpend Hpar Hvcp.
  pose proof (gi_nodup _ _ _ _ HG) as Hnd.
  set (g := map_in_rep id f).
  assert (HU : all_reps (map_rep id f st) = map g (all_reps st)) by (apply all_reps_map_field; assumption).
  assert (Hgid : forall x, r_id (g x) = r_id x) by (intros x; apply map_in_rep_id; exact Hf).
  assert (Hlk' : forall i, lk i (all_reps (map_rep id f st)) = option_map g (lk i (all_reps st)))
    by (intros i; rewrite HU; apply lk_map; exact Hgid).
  destruct (lk_some _ _ _ Hlk) as [Hro_in Hro_id].
  assert (Hhit : forall u, In u (all_reps st) -> r_id u = id -> u = ro /\ g u = f ro).
  { intros u Hu E. assert (u = ro) by (eapply same_id_same_rep; try eassumption; congruence). subst u.
    split; [reflexivity|]. unfold g. apply map_in_rep_hit. exact E. }
  assert (Hoth : forall u, r_id u <> id -> r_valid (g u) = r_valid u /\ r_parent (g u) = r_parent u).
  { intros u E. pose proof (map_in_rep_other id f u E) as (H1 & H2 & _). split; assumption. }
  assert (Hkids : forall q, In q (all_reps st) -> kids (items_of (g q)) = map g (kids (items_of q))).
  { intros q Hq. apply field_kids; try assumption. eapply NoDup_sub_st; eassumption. }
  assert (Hin' : forall u', In u' (all_reps (map_rep id f st)) -> exists u, In u (all_reps st) /\ u' = g u).
  { intros u' Hu'. rewrite HU in Hu'. apply in_map_iff in Hu'. destruct Hu' as (u & E & Hu). exists u. split; [exact Hu | symmetry; exact E]. }
  constructor.
  - rewrite HU. unfold ids. rewrite map_map. erewrite map_ext; [exact Hnd|]. intros x. apply Hgid.
  - exact (gi_next _ _ _ _ HG).
  - intros u' Hu'. destruct (Hin' u' Hu') as (u & Hu & ->). rewrite Hgid. exact (gi_idpos _ _ _ _ HG u Hu).
  - intros u' t Hu' Ht. destruct (Hin' u' Hu') as (u & Hu & ->).
    apply (proj1 (field_in_track id f Hfn u t)) in Ht. exact (gi_track_live _ _ _ _ HG u t Hu Ht).
  - intros u' s Hu' Hs. destruct (Hin' u' Hu') as (u & Hu & ->).
    apply (proj1 (field_in_ref id f Hfn u s)) in Hs. rewrite live_var_map_rep_none. exact (gi_ref_live _ _ _ _ HG u s Hu Hs).
  - exact HBt.
  - intros i s Hi. rewrite live_var_map_rep_none. exact (HBr i s Hi).
  - exact HBp.
  - exact (gi_clearing _ _ _ _ HG).
  - exact (gi_armed _ _ _ _ HG).
  - intros t x i Hx. rewrite Hbc. rewrite (gi_regs _ _ _ _ HG t x i Hx). f_equal.
    unfold drefs. rewrite Hlk'. destruct (lk i (all_reps st)) as [r|]; cbn [option_map]; [|reflexivity].
    symmetry. apply field_direct_refs; assumption.
  - intros u' p Hu' Hp. destruct (Hin' u' Hu') as (u & Hu & ->).
    assert (Hold : r_parent u = Some p -> 
      (exists q, lk p (all_reps (map_rep id f st)) = Some q /\
                   (In (g u) (kids (items_of q)) \/ exists s, In (IRef s) (items_of q) /\ live_var s (map_rep id f st) = Some (Some (g u))))
        \/ (exists s, In (p, IRef s) B' /\ live_var s (map_rep id f st) = Some (Some (g u)))).
    { intros Hpu. destruct (gi_parent _ _ _ _ HG u p Hu Hpu) as [(q & Hq & Hw)|(s & Hs & Hw)].
      - left. exists (g q). rewrite Hlk', Hq. split; [reflexivity|].
        destruct (lk_some _ _ _ Hq) as [Hq_in _].
        destruct Hw as [Hw|(s & Hs & Hw)].
        + left. rewrite (Hkids q Hq_in). apply in_map. exact Hw.
        + right. exists s. split; [apply (proj2 (field_in_ref id f Hfn q s)); exact Hs|].
          rewrite live_var_map_rep, Hw. reflexivity.
      - right. exists s. split; [apply HB; exact Hs|]. rewrite live_var_map_rep, Hw. reflexivity. }
    destruct (N.eq_dec (r_id u) id) as [E|E].
    + destruct (Hhit u Hu E) as [-> Hgu]. rewrite Hgu in Hp. destruct (Hpar p Hp) as [Hp'|(s & Hs & Hw)].
      * apply Hold. exact Hp'.
      * right. exists s. split; [exact Hs|]. rewrite live_var_map_rep, Hw. reflexivity.
    + destruct (Hoth u E) as [_ Hpg]. rewrite Hpg in Hp. apply Hold. exact Hp.
  - intros q' c' Hq' Hc'. destruct (Hin' q' Hq') as (q & Hq & ->). rewrite (Hkids q Hq) in Hc'.
    apply in_map_iff in Hc'. destruct Hc' as (c & <- & Hc). rewrite !Hgid.
    pose proof (all_reps_kid_closed st q c Hq Hc) as Hc_in.
    destruct (N.eq_dec (r_id c) id) as [E|E].
    + destruct (Hhit c Hc_in E) as [-> Hgc]. rewrite Hgc. rewrite E. apply Hvcp; assumption.
    + destruct (Hoth c E) as [_ Hpg]. rewrite Hpg.
      destruct (gi_vcp _ _ _ _ HG q c Hq Hc) as [H|[H1 H2]]; [left; exact H | right; split; [exact H1 | apply HP; exact H2]].
  - intros i po r' Hi Hr'. rewrite Hlk' in Hr'. destruct (lk i (all_reps st)) as [r|] eqn:Er; [|discriminate].
    cbn [option_map] in Hr'. injection Hr' as <-. destruct (lk_some _ _ _ Er) as [Hr_in Hr_id].
    destruct (N.eq_dec i id) as [E|E].
    + rewrite E in Hr_id, Hi. destruct (Hhit r Hr_in Hr_id) as [-> Hgr]. rewrite Hgr. apply (Hpend po). exact Hi.
    + destruct (HP' i po Hi) as [Hi'|Hi']; [|contradiction].
      assert (E' : r_id r <> id) by congruence. destruct (Hoth r E') as [Hv Hp]. rewrite Hv, Hp.
      exact (gi_pending _ _ _ _ HG i po r Hi' Er).
  - intros u' Hu' Hfn'. destruct (Hin' u' Hu') as (u & Hu & ->).
    apply (proj1 (field_fn_none id f Hfn u)) in Hfn'. pose proof (gi_fnvalid _ _ _ _ HG u Hu Hfn') as Hv.
    destruct (N.eq_dec (r_id u) id) as [E|E].
    + destruct (Hhit u Hu E) as [-> Hgu]. rewrite Hgu. apply Hval. exact Hv.
    + destruct (Hoth u E) as [Hvg _]. rewrite Hvg. exact Hv.
  - intros q' c' Hq' Hc' Hfn'. destruct (Hin' q' Hq') as (q & Hq & ->). rewrite (Hkids q Hq) in Hc'.
    apply in_map_iff in Hc'. destruct Hc' as (c & <- & Hc). rewrite !Hgid.
    apply (proj1 (field_fn_none id f Hfn c)) in Hfn'. apply HP. exact (gi_kidfn _ _ _ _ HG q c Hq Hc Hfn').
Qed.
