(* AdaptorModel.v -- deep embedding of sigc++ functor expressions (mem_fun, bind, hide, retype,
   retype_return/hide_return, bind_return, compose, exception_catch, track_object, slot-in-slot)
   with three interpretations:
     refs      : the trackables an expression refers to by reference (documented meaning)
     visited T : what visit_each_trackable reaches, driven by the visitor table T regenerated
                 from the source (gen/Tables.v)
     call_doc  : the documented argument/result transformation
     call M S  : the hop-by-hop call path, driven by the regenerated parameter-passing modes M
                 and slicing arithmetic S; arguments carry an identity so copies are observable
   Mirrors /repo/sigc++/adaptors/*.h, functors/mem_fun.h, visit_each.h, limit_reference.h,
   adaptors/bound_argument.h.  Definitions only. *)
From Coq Require Import List String ZArith NArith Bool.
Import ListNotations.
Require Import GenTypes.
Local Open Scope string_scope.
Local Open Scope list_scope.

Inductive bound :=
| BVal (v : Z) | BRef (t : N) | BCRef (t : N)
| BFunMem (t : N)       (* a functor bound by value: sigc::mem_fun(obj_t, &T::m0) *)
| BSlotMem (t : N)      (* a slot bound by value: sigc::slot<long()>(sigc::mem_fun(obj_t, &T::m0)) *)
| BTrackVal.            (* an object of a trackable-derived class bound by value (the copy inside the functor is tracked, no outside object is) *)
Inductive pkind := PVal | PRef | PCRef.

Inductive fexpr :=
| FLeaf (id : N) (throws : bool)                   (* function object accepting anything (A&&...) *)
| FLeafRef (id : N)                                (* ... returning its first argument by reference *)
| FMem (t : N) (id : N) (kinds : list pkind)       (* sigc::mem_fun(obj_t, &T::m) *)
| FBind (loc : option nat) (f : fexpr) (bs : list bound)
| FHide (loc : option nat) (f : fexpr)
| FRetype (f : fexpr)
| FRetypeReturn (f : fexpr)
| FHideReturn (f : fexpr)
| FBindReturn (f : fexpr) (b : bound)
| FCompose1 (s g : fexpr)
| FCompose2 (s g1 g2 : fexpr)
| FExcCatch (f : fexpr) (catcher : N)
| FTrackObj (f : fexpr) (ts : list N)
| FSlot (f : fexpr).

Definition class_of (e : fexpr) : string :=
  match e with
  | FLeaf _ _ => "adaptor_functor"
  | FLeafRef _ => "adaptor_functor"
  | FMem _ _ _ => "bound_mem_functor"
  | FBind (Some _) _ _ => "bind_functor"
  | FBind None _ _ => "bind_functor<-1>"
  | FHide _ _ => "hide_functor"
  | FRetype _ => "retype_functor"
  | FRetypeReturn _ => "retype_return_functor"
  | FHideReturn _ => "retype_return_functor<void>"
  | FBindReturn _ _ => "bind_return_functor"
  | FCompose1 _ _ => "compose1_functor"
  | FCompose2 _ _ _ => "compose2_functor"
  | FExcCatch _ _ => "exception_catch_functor"
  | FTrackObj _ _ => "track_obj_functor"
  | FSlot _ => "slot"
  end.

(* the visitor table key: both retype_return specialisations share one visitor *)
Definition visitor_key (e : fexpr) : string :=
  match e with
  | FHideReturn _ => "retype_return_functor"
  | _ => class_of e
  end.

Fixpoint slookup {A} (k : string) (l : list (string * A)) : option A :=
  match l with
  | [] => None
  | (k', v) :: r => if String.eqb k k' then Some v else slookup k r
  end.

(* ------------------------------------------------------------------------------------------ *)
(* tracking *)

Definition bound_refs_doc (b : bound) : list N :=
  match b with BVal _ => [] | BRef t => [t] | BCRef t => [t] | BFunMem t => [t] | BSlotMem t => [t] | BTrackVal => [] end.

Fixpoint refs (e : fexpr) : list N :=
  match e with
  | FLeaf _ _ => []
  | FLeafRef _ => []
  | FMem t _ _ => [t]
  | FBind _ f bs => refs f ++ flat_map bound_refs_doc bs
  | FHide _ f => refs f
  | FRetype f => refs f
  | FRetypeReturn f => refs f
  | FHideReturn f => refs f
  | FBindReturn f b => refs f ++ bound_refs_doc b
  | FCompose1 s g => refs s ++ refs g
  | FCompose2 s g1 g2 => refs s ++ refs g1 ++ refs g2
  | FExcCatch f _ => refs f
  | FTrackObj f ts => refs f ++ ts
  | FSlot f => refs f
  end.

Definition vtable := list (string * list visit).

Definition visits_of (T : vtable) (k : string) : list visit :=
  match slookup k T with Some l => l | None => [] end.

(* does the table reach the trackable behind a bound_argument<reference_wrapper<T>> /
   a limit_reference<T> member?  bound_argument -> visit() -> limit_reference -> visit() -> trackable *)
Definition reaches_limit_reference (T : vtable) : bool :=
  existsb (fun v => match v with VVisitMethod => true | _ => false end) (visits_of T "limit_reference").
Definition reaches_bound_argument (T : vtable) : bool :=
  existsb (fun v => match v with VVisitMethod => true | _ => false end) (visits_of T "bound_argument")
  && reaches_limit_reference T.

(* what visiting a bound_mem_functor reaches (a functor or a slot bound by value is visited through
   bound_argument<T>::visit() like any other bound value) *)
Definition mem_reach (T : vtable) (t : N) : list N :=
  flat_map (fun v => match v with
                     | VMember m => if String.eqb m "obj_" && reaches_limit_reference T then [t] else []
                     | _ => []
                     end) (visits_of T "bound_mem_functor").
Definition bound_refs (T : vtable) (b : bound) : list N :=
  if reaches_bound_argument T
  then match b with BFunMem t | BSlotMem t => mem_reach T t | _ => bound_refs_doc b end
  else [].

Fixpoint visited (T : vtable) (e : fexpr) : list N :=
  let vs := visits_of T (visitor_key e) in
  match e with
  | FLeaf _ _ => []
  | FLeafRef _ => []
  | FMem t _ _ =>
      flat_map (fun v => match v with
                         | VMember m => if String.eqb m "obj_" && reaches_limit_reference T then [t] else []
                         | _ => []
                         end) vs
  | FBind _ f bs =>
      flat_map (fun v => match v with
                         | VMember m => if String.eqb m "functor_" then visited T f else []   (* visit_each on a std::tuple reaches nothing *)
                         | VTupleAll m => if String.eqb m "bound_" then flat_map (bound_refs T) bs else []
                         | VTupleElem m k => if String.eqb m "bound_"
                                             then match nth_error bs k with Some b => bound_refs T b | None => [] end
                                             else []
                         | _ => []
                         end) vs
  | FHide _ f | FRetype f | FRetypeReturn f | FHideReturn f =>
      flat_map (fun v => match v with
                         | VMember m => if String.eqb m "functor_" then visited T f else []
                         | _ => []
                         end) vs
  | FBindReturn f b =>
      flat_map (fun v => match v with
                         | VMember m => if String.eqb m "functor_" then visited T f
                                        else if String.eqb m "ret_value_" then bound_refs T b else []
                         | _ => []
                         end) vs
  | FCompose1 s g =>
      flat_map (fun v => match v with
                         | VMember m => if String.eqb m "functor_" then visited T s
                                        else if String.eqb m "get_" then visited T g else []
                         | _ => []
                         end) vs
  | FCompose2 s g1 g2 =>
      flat_map (fun v => match v with
                         | VMember m => if String.eqb m "functor_" then visited T s
                                        else if String.eqb m "get1_" then visited T g1
                                        else if String.eqb m "get2_" then visited T g2 else []
                         | _ => []
                         end) vs
  | FExcCatch f _ =>
      flat_map (fun v => match v with
                         | VMember m => if String.eqb m "functor_" then visited T f else []
                         | _ => []
                         end) vs
  | FTrackObj f ts =>
      flat_map (fun v => match v with
                         | VMember m => if String.eqb m "functor_" then visited T f else []
                         | VTupleAll m => if String.eqb m "obj_" && reaches_limit_reference T then ts else []
                         | VTupleElem m k => if String.eqb m "obj_" && reaches_limit_reference T
                                             then match nth_error ts k with Some t => [t] | None => [] end
                                             else []
                         | _ => []
                         end) vs
  | FSlot f => visited T f     (* the inner slot binds its own functor and is parented to the outer rep *)
  end.

(* the visit lists under which the theorem is proved: every member once *)
Definition expected_visits : vtable :=
  [ ("adaptor_functor", [VMember "functor_"])
  ; ("bind_functor", [VMember "functor_"; VTupleAll "bound_"])
  ; ("bind_functor<-1>", [VMember "functor_"; VTupleAll "bound_"])
  ; ("bind_return_functor", [VMember "ret_value_"; VMember "functor_"])
  ; ("bound_argument", [VVisitMethod])
  ; ("bound_mem_functor", [VMember "obj_"])
  ; ("compose1_functor", [VMember "functor_"; VMember "get_"])
  ; ("compose2_functor", [VMember "functor_"; VMember "get1_"; VMember "get2_"])
  ; ("exception_catch_functor", [VMember "functor_"; VMember "catcher_"])
  ; ("hide_functor", [VMember "functor_"])
  ; ("limit_reference", [VVisitMethod])
  ; ("retype_functor", [VMember "functor_"])
  ; ("retype_return_functor", [VMember "functor_"])
  ; ("track_obj_functor", [VMember "functor_"; VTupleAll "obj_"]) ].

Definition visit_eqb (a b : visit) : bool :=
  match a, b with
  | VMember x, VMember y => String.eqb x y
  | VTupleAll x, VTupleAll y => String.eqb x y
  | VTupleElem x i, VTupleElem y j => String.eqb x y && Nat.eqb i j
  | VVisitMethod, VVisitMethod => true
  | VAction x, VAction y => String.eqb x y
  | VSlotParent, VSlotParent => true
  | _, _ => false
  end.

(* same visits, each once, in any order *)
Definition visits_equiv (l1 l2 : list visit) : bool :=
  Nat.eqb (List.length l1) (List.length l2)
  && forallb (fun x => Nat.eqb (List.length (filter (visit_eqb x) l1)) 1 && Nat.eqb (List.length (filter (visit_eqb x) l2)) 1) l1.

Definition table_ok (T : vtable) : bool :=
  forallb (fun '(k, vs) => visits_equiv (visits_of T k) vs) expected_visits.

(* every data member the source declares in an adaptor class is one the model knows *)
Definition known_fields : list (string * list string) :=
  [ ("adaptor_functor", ["functor_"]); ("bind_functor", ["bound_"]); ("bind_functor<-1>", ["bound_"])
  ; ("bind_return_functor", ["ret_value_"]); ("compose1_functor", ["get_"]); ("compose2_functor", ["get1_"; "get2_"])
  ; ("exception_catch_functor", ["catcher_"]); ("hide_functor", []); ("retype_functor", [])
  ; ("retype_return_functor", []); ("retype_return_functor<void>", []); ("track_obj_functor", ["obj_"])
  ; ("bound_mem_functor", ["obj_"]); ("mem_functor", ["func_ptr_"]) ].

Definition fields_ok (M : list (string * list (string * string))) : bool :=
  forallb (fun '(k, known) =>
             match slookup k M with
             | Some fs => forallb (fun '(n, _) => existsb (String.eqb n) known) fs
                          && forallb (fun n => existsb (fun '(n', _) => String.eqb n n') fs) known
             | None => false
             end) known_fields.

(* ------------------------------------------------------------------------------------------ *)
(* calling *)

Inductive ident := IOrig (k : nat) | IBoundRef (t : N) | ICopy.
Record arg := mkArg { a_v : Z; a_id : ident }.
Inductive result := RInt (v : Z) | RRef (a : arg) | RVoid | RThrow.
(* what the catcher of exception_catch does inside the handler: catcher c returns c; the catchers
   numbered from 5000 handle nothing and rethrow the exception in flight *)
Definition catcher_result (c : N) : result := if N.ltb c 5000 then RInt (Z.of_N c) else RThrow.
Definition log := list (N * list arg).

Fixpoint weighted (i : Z) (l : list arg) : Z :=
  match l with
  | [] => 0%Z
  | a :: r => (i * a_v a + weighted (i + 1) r)%Z
  end.
Definition leaf_ret (id : N) (args : list arg) : Z := (Z.of_N id * 1000 + weighted 1 args)%Z.

Definition bound_arg (b : bound) : arg :=
  match b with
  | BVal v => mkArg v ICopy            (* T_type& to the copy stored in the bind_functor *)
  | BRef t => mkArg 0 (IBoundRef t)
  | BCRef t => mkArg 0 (IBoundRef t)
  | BFunMem _ | BSlotMem _ | BTrackVal => mkArg 0 ICopy      (* handed to the target as the stored copy; the target does not call it *)
  end.
Definition bound_result (b : bound) : Z := match b with BVal v => v | _ => 0%Z end.

Definition lastn {A} (n : nat) (l : list A) : list A := skipn (List.length l - n) l.

(* a getter's result as the setter's argument: a returned reference is the object itself *)
Definition result_arg (r : result) : option arg :=
  match r with
  | RInt v => Some (mkArg v ICopy)
  | RRef a => Some a
  | _ => None
  end.
Definition first_arg_ref (args : list arg) : result :=
  match args with a :: _ => RRef a | [] => RInt 0 end.
(* retype_return<long>: T_return(result) *)
Definition to_long (r : result) : result :=
  match r with RRef a => RInt (a_v a) | _ => r end.

Definition copy_arg (a : arg) : arg := mkArg (a_v a) ICopy.

(* a member function sees a copy of each parameter it declares by value *)
Definition apply_kinds (kinds : list pkind) (args : list arg) : list arg :=
  map (fun '(k, a) => match k with PVal => copy_arg a | _ => a end) (combine kinds args).

(* documented behaviour: every adaptor hands its arguments on untouched *)
Fixpoint call_doc (e : fexpr) (args : list arg) : log * result :=
  match e with
  | FLeaf id throws => ([(id, args)], if throws then RThrow else RInt (leaf_ret id args))
  | FLeafRef id => ([(id, args)], first_arg_ref args)
  | FMem _ id kinds => let seen := apply_kinds kinds args in ([(id, seen)], RInt (leaf_ret id seen))
  | FBind (Some i) f bs => call_doc f (firstn i args ++ map bound_arg bs ++ skipn i args)
  | FBind None f bs => call_doc f (args ++ map bound_arg bs)
  | FHide (Some i) f => call_doc f (firstn i args ++ skipn (S i) args)
  | FHide None f => call_doc f (removelast args)
  | FRetype f => call_doc f args
  | FRetypeReturn f => let '(l, r) := call_doc f args in (l, to_long r)
  | FHideReturn f => let '(l, r) := call_doc f args in (l, match r with RThrow => RThrow | _ => RVoid end)
  | FBindReturn f b => let '(l, r) := call_doc f args in (l, match r with RThrow => RThrow | _ => RInt (bound_result b) end)
  | FCompose1 s g =>
      let '(l1, r1) := call_doc g args in
      match result_arg r1 with
      | Some a => let '(l2, r2) := call_doc s [a] in (l1 ++ l2, r2)
      | None => (l1, RThrow)
      end
  | FCompose2 s g1 g2 =>
      let '(l1, r1) := call_doc g1 args in
      let '(l2, r2) := call_doc g2 args in
      match result_arg r1, result_arg r2 with
      | Some a1, Some a2 => let '(l3, r3) := call_doc s [a1; a2] in (l1 ++ l2 ++ l3, r3)
      | _, _ => (l1 ++ l2, RThrow)
      end
  | FExcCatch f c =>
      let '(l, r) := call_doc f args in
      (l, match r with RThrow => catcher_result c | _ => r end)
  | FTrackObj f _ => call_doc f args
  | FSlot f => call_doc f args
  end.

(* hop-by-hop *)
Definition mtable := list (string * list hop_mode).
Definition stable := list (string * list (string * aexp)).

(* the mode of the variadic operator() of a class: the last entry (the first may be the nullary overload) *)
Definition mode_of (M : mtable) (k : string) : hop_mode :=
  match slookup k M with
  | Some l => last l NoArgs
  | None => NoArgs
  end.

Fixpoint aeval (a : aexp) (loc size : Z) : option Z :=
  match a with
  | ALoc => Some loc
  | ASize => Some size
  | AConst z => Some z
  | ANeg x => option_map Z.opp (aeval x loc size)
  | AAdd x y => match aeval x loc size, aeval y loc size with Some p, Some q => Some (p + q)%Z | _, _ => None end
  | ASub x y => match aeval x loc size, aeval y loc size with Some p, Some q => Some (p - q)%Z | _, _ => None end
  | AEq x y => match aeval x loc size, aeval y loc size with Some p, Some q => Some (if Z.eqb p q then 1 else 0)%Z | _, _ => None end
  | AIf c x y => match aeval c loc size with
                 | Some z => if Z.eqb z 0 then aeval y loc size else aeval x loc size
                 | None => None
                 end
  | AUnrecognised => None
  end.

(* (number of leading elements kept by tuple_start, number of trailing elements kept by tuple_end) *)
Definition slice_counts (S : stable) (k : string) (loc : Z) (size : nat) : option (nat * nat) :=
  match slookup k S with
  | Some l =>
      match slookup "tuple_start" l, slookup "tuple_end" l with
      | Some a, Some b =>
          match aeval a loc (Z.of_nat size), aeval b loc (Z.of_nat size) with
          | Some s, Some e => if (Z.leb 0 s && Z.leb 0 e)%bool then Some (Z.to_nat s, Z.to_nat e) else None
          | _, _ => None
          end
      | _, _ => None
      end
  | None => None
  end.


(* what the body of an operator() sees of the arguments it was called with *)
Definition pass (m : hop_mode) (deduced : bool) (args : list arg) : list arg :=
  match m with
  | ByValue => if deduced then map copy_arg args else args
  | _ => args
  end.


Inductive cres := COk (l : log) (r : result) | CIllFormed.

Definition cbind (x : cres) (k : log -> result -> cres) : cres :=
  match x with COk l r => k l r | CIllFormed => CIllFormed end.

Fixpoint call (M : mtable) (S : stable) (e : fexpr) (deduced : bool) (args : list arg) : cres :=
  let m := mode_of M (class_of e) in
  let args' := pass m deduced args in
  match e with
  | FLeaf id throws => COk [(id, args)] (if throws then RThrow else RInt (leaf_ret id args))
  | FLeafRef id => COk [(id, args)] (first_arg_ref args)
  | FMem _ id kinds =>
      if Nat.eqb (List.length kinds) (List.length args)
      then let seen := apply_kinds kinds args in COk [(id, seen)] (RInt (leaf_ret id seen))
      else CIllFormed
  | FBind (Some i) f bs =>
      match slice_counts S "bind_functor" (Z.of_nat i) (List.length args') with
      | Some (s, en) =>
          if Nat.leb i (List.length args')
          then call M S f true (firstn s args' ++ map bound_arg bs ++ lastn en args')
          else CIllFormed                                  (* static_assert(I_location <= t_args_size) *)
      | None => CIllFormed
      end
  | FBind None f bs => call M S f true (args' ++ map bound_arg bs)
  | FHide loc f =>
      let l := match loc with Some i => Z.of_nat i | None => (-1)%Z end in
      match slice_counts S "hide_functor" l (List.length args') with
      | Some (s, en) =>
          if Nat.leb (s + en + 1) (List.length args') then call M S f true (firstn s args' ++ lastn en args') else CIllFormed
      | None => CIllFormed
      end
  | FRetype f => call M S f true args'
  | FRetypeReturn f => cbind (call M S f true args') (fun l r => COk l (to_long r))
  | FHideReturn f => cbind (call M S f true args') (fun l r => COk l (match r with RThrow => RThrow | _ => RVoid end))
  | FBindReturn f b => cbind (call M S f true args') (fun l r => COk l (match r with RThrow => RThrow | _ => RInt (bound_result b) end))
  | FCompose1 s g =>
      cbind (call M S g true args') (fun l1 r1 =>
        match r1 with
        | RVoid => CIllFormed
        | RThrow => COk l1 RThrow
        | _ => match result_arg r1 with
               | Some a => cbind (call M S s true [a]) (fun l2 r2 => COk (l1 ++ l2) r2)
               | None => CIllFormed
               end
        end)
  | FCompose2 s g1 g2 =>
      cbind (call M S g1 true args') (fun l1 r1 =>
      cbind (call M S g2 true args') (fun l2 r2 =>
        match r1, r2 with
        | RVoid, _ | _, RVoid => CIllFormed
        | _, _ => match result_arg r1, result_arg r2 with
                  | Some a1, Some a2 => cbind (call M S s true [a1; a2]) (fun l3 r3 => COk (l1 ++ l2 ++ l3) r3)
                  | _, _ => COk (l1 ++ l2) RThrow
                  end
        end))
  | FExcCatch f c =>
      cbind (call M S f true args') (fun l r => COk l (match r with RThrow => catcher_result c | _ => r end))
  | FTrackObj f _ => call M S f true args'
  | FSlot f => call M S f false args       (* call_it instantiates the outermost adaptor explicitly *)
  end.

(* the slicing arithmetic under which call = call_doc is proved *)
Definition expected_slices : stable :=
  [ ("bind_functor", [("tuple_start", ALoc); ("tuple_end", ASub ASize ALoc)])
  ; ("hide_functor", [("tuple_start", AIf (AEq ALoc (ANeg (AConst 1))) (ASub ASize (AConst 1)) ALoc);
                      ("tuple_end", ASub (ASub ASize (AIf (AEq ALoc (ANeg (AConst 1))) (ASub ASize (AConst 1)) ALoc)) (AConst 1))]) ].

Fixpoint aexp_eqb (a b : aexp) : bool :=
  match a, b with
  | ALoc, ALoc => true
  | ASize, ASize => true
  | AConst x, AConst y => Z.eqb x y
  | ANeg x, ANeg y => aexp_eqb x y
  | AAdd x1 x2, AAdd y1 y2 => aexp_eqb x1 y1 && aexp_eqb x2 y2
  | ASub x1 x2, ASub y1 y2 => aexp_eqb x1 y1 && aexp_eqb x2 y2
  | AEq x1 x2, AEq y1 y2 => aexp_eqb x1 y1 && aexp_eqb x2 y2
  | AIf c1 x1 x2, AIf c2 y1 y2 => aexp_eqb c1 c2 && aexp_eqb x1 y1 && aexp_eqb x2 y2
  | _, _ => false
  end.

Definition slices_ok (S : stable) : bool :=
  forallb (fun '(k, l) =>
             match slookup k S with
             | Some l' => forallb (fun '(n, a) => match slookup n l' with Some a' => aexp_eqb a a' | None => false end) l
             | None => false
             end) expected_slices.

(* signal_connect(signal, [obj,] fun) is signal.connect(ptr_fun(fun)) / signal.connect(mem_fun(obj, fun)):
   each overload hands its own parameters, in order, to the functor factory of its kind, so the slot
   it connects is the FMem / leaf slot of the model (tracked, references kept) *)
Definition signal_connect_ok (l : list (string * string * bool)) : bool :=
  let has k f := existsb (fun '(k', f', io) => String.eqb k k' && String.eqb f f' && io) l in
  has "fun" "ptr_fun" && has "mem" "mem_fun" && has "const_mem" "mem_fun" &&
  forallb (fun '(k, f, io) => io && (if String.eqb k "fun" then String.eqb f "ptr_fun" else String.eqb f "mem_fun")) l.

(* mem_fun(obj, method), all four cv-flavours of the method: the functor is typed after the class of the
   object, so that FMem's tracking (visit_each reaches obj_ through limit_reference, which tests whether the
   OBJECT's class derives from sigc::trackable) is what the library does for inherited methods too *)
Definition memfun_class_ok (l : list (string * string)) : bool :=
  forallb (fun cv => existsb (fun '(cv', c) => String.eqb cv cv' && String.eqb c "object") l) ["none"; "const"; "volatile"; "const volatile"]
  && forallb (fun '(_, c) => String.eqb c "object") l.

(* arity discipline (what the C++ type checker enforces about argument counts) *)
Fixpoint wt (e : fexpr) (n : nat) : bool :=
  match e with
  | FLeaf _ _ => true
  | FLeafRef _ => true
  | FMem _ _ kinds => Nat.eqb (List.length kinds) n
  | FBind (Some i) f bs => Nat.leb i n && wt f (n + List.length bs)
  | FBind None f bs => wt f (n + List.length bs)
  | FHide (Some i) f => Nat.ltb i n && wt f (n - 1)
  | FHide None f => Nat.leb 1 n && wt f (n - 1)
  | FRetype f | FRetypeReturn f | FHideReturn f => wt f n
  | FBindReturn f _ => wt f n
  | FCompose1 s g => wt g n && wt s 1
  | FCompose2 s g1 g2 => wt g1 n && wt g2 n && wt s 2
  | FExcCatch f _ => wt f n
  | FTrackObj f _ => wt f n
  | FSlot f => wt f n
  end.

(* no sub-expression yields void where a value is consumed (compose getters) *)
Fixpoint returns_value (e : fexpr) : bool :=
  match e with
  | FLeaf _ _ | FLeafRef _ | FMem _ _ _ => true
  | FBind _ f _ | FHide _ f | FRetype f | FRetypeReturn f | FTrackObj f _ | FSlot f => returns_value f
  | FHideReturn _ => false
  | FBindReturn _ _ => true
  | FCompose1 s _ => returns_value s
  | FCompose2 s _ _ => returns_value s
  | FExcCatch f _ => returns_value f
  end.

Fixpoint wf_values (e : fexpr) : bool :=
  match e with
  | FLeaf _ _ | FLeafRef _ | FMem _ _ _ => true
  | FBind _ f _ | FHide _ f | FRetype f | FRetypeReturn f | FHideReturn f | FTrackObj f _ | FSlot f | FBindReturn f _ | FExcCatch f _ => wf_values f
  | FCompose1 s g => wf_values s && wf_values g && returns_value g
  | FCompose2 s g1 g2 => wf_values s && wf_values g1 && wf_values g2 && returns_value g1 && returns_value g2
  end.

(* every hop of e passes references through (given the regenerated mode table) *)
Definition forwarding (m : hop_mode) : bool :=
  match m with Forwarding | RefNoForward | Fixed => true | _ => false end.

Fixpoint all_forwarding (M : mtable) (e : fexpr) : bool :=
  match e with
  | FLeaf _ _ | FLeafRef _ | FMem _ _ _ => true
  | FBind _ f _ | FHide _ f | FRetype f | FRetypeReturn f | FHideReturn f | FTrackObj f _ | FBindReturn f _ | FExcCatch f _ =>
      forwarding (mode_of M (class_of e)) && all_forwarding M f
  | FSlot f => all_forwarding M f
  | FCompose1 s g => forwarding (mode_of M (class_of e)) && all_forwarding M s && all_forwarding M g
  | FCompose2 s g1 g2 => forwarding (mode_of M (class_of e)) && all_forwarding M s && all_forwarding M g1 && all_forwarding M g2
  end.

Definition modes_ok (M : mtable) : bool :=
  forallb (fun k => forwarding (mode_of M k))
    ["bind_functor"; "bind_functor<-1>"; "hide_functor"; "retype_functor"; "retype_return_functor";
     "retype_return_functor<void>"; "bind_return_functor"; "compose1_functor"; "compose2_functor";
     "exception_catch_functor"; "track_obj_functor"].

(* a result up to the identity of a returned reference *)
Definition result_val (r : result) : result :=
  match r with RRef a => RRef (mkArg (a_v a) ICopy) | _ => r end.

(* what the leaves observe: identities only / values only *)
Definition log_values (l : log) : list (N * list Z) := map (fun '(id, a) => (id, map a_v a)) l.
Definition log_idents (l : log) : list (N * list ident) := map (fun '(id, a) => (id, map a_id a)) l.

(* ------------------------------------------------------------------------------------------ *)
(* registrations of one slot_rep on the trackables it visits: slot_do_bind adds one callback per
   visited trackable, slot_do_unbind removes one per visited trackable *)
Fixpoint remove_one (t : N) (l : list N) : list N :=
  match l with
  | [] => []
  | x :: r => if N.eqb x t then r else x :: remove_one t r
  end.
Definition bind_regs (vs regs : list N) : list N := regs ++ vs.
Definition unbind_regs (vs regs : list N) : list N := fold_left (fun r t => remove_one t r) vs regs.
