(* SigLemmas.v -- generic lemmas about the data structures of SigCore.v *)
From Coq Require Import List NArith Bool Lia Arith Permutation.
Import ListNotations.
Require Import Util SigCore.
Local Open Scope N_scope.

(* ------------------------------------------------------------------ *)
(* decidable equalities                                                 *)

Lemma nid_eqb_eq a b : nid_eqb a b = true <-> a = b.
Proof.
  destruct a as [x|x], b as [y|y]; cbn [nid_eqb]; split; intro H;
    try discriminate; try (apply N.eqb_eq in H; subst; reflexivity);
    try (inversion H; subst; apply N.eqb_refl).
Qed.

Lemma nid_eqb_refl a : nid_eqb a a = true.
Proof. apply nid_eqb_eq. reflexivity. Qed.

Lemma nid_eqb_neq a b : nid_eqb a b = false <-> a <> b.
Proof.
  split.
  - intros H E. subst. rewrite nid_eqb_refl in H. discriminate.
  - intros H. destruct (nid_eqb a b) eqn:E; [|reflexivity]. apply nid_eqb_eq in E. contradiction.
Qed.

Lemma nid_eqb_spec a b : reflect (a = b) (nid_eqb a b).
Proof.
  destruct (nid_eqb a b) eqn:E; constructor.
  - apply nid_eqb_eq; exact E.
  - apply nid_eqb_neq; exact E.
Qed.

Lemma nid_eq_dec (a b : nid) : {a = b} + {a <> b}.
Proof. destruct (nid_eqb_spec a b); [left|right]; assumption. Qed.

Lemma wref_eqb_eq a b : wref_eqb a b = true <-> a = b.
Proof.
  destruct a as [x|x], b as [y|y]; cbn [wref_eqb]; split; intro H;
    try discriminate; try (apply N.eqb_eq in H; subst; reflexivity);
    try (inversion H; subst; apply N.eqb_refl).
Qed.

Lemma wref_eqb_spec a b : reflect (a = b) (wref_eqb a b).
Proof.
  destruct (wref_eqb a b) eqn:E; constructor.
  - apply wref_eqb_eq; exact E.
  - intro H. apply wref_eqb_eq in H. congruence.
Qed.

(* ------------------------------------------------------------------ *)
(* generic list facts                                                   *)

Lemma NoDup_app_iff {A} (a b : list A) :
  NoDup (a ++ b) <-> NoDup a /\ NoDup b /\ (forall x, In x a -> ~ In x b).
Proof.
  induction a as [|x a IH]; cbn [app].
  - split.
    + intros H. split; [constructor|]. split; [exact H|]. intros y [].
    + intros (_ & H & _). exact H.
  - split.
    + intros H. inversion H as [|? ? Hx Hn]; subst.
      apply IH in Hn. destruct Hn as (Ha & Hb & Hd).
      split.
      * constructor; auto. intro Hi. apply Hx. apply in_or_app. left; exact Hi.
      * split; auto. intros y [<-|Hy].
        -- intro Hi. apply Hx. apply in_or_app. right; exact Hi.
        -- apply Hd; exact Hy.
    + intros (Ha & Hb & Hd). inversion Ha as [|? ? Hx Hn]; subst. constructor.
      * intro H. apply in_app_or in H. destruct H as [H|H]; [auto|].
        apply (Hd x); [left; reflexivity|exact H].
      * apply IH. split; auto. split; auto. intros y Hy. apply Hd. right; exact Hy.
Qed.

Lemma NoDup_app_l {A} (a b : list A) : NoDup (a ++ b) -> NoDup a.
Proof. intro H. apply NoDup_app_iff in H. tauto. Qed.

Lemma NoDup_app_r {A} (a b : list A) : NoDup (a ++ b) -> NoDup b.
Proof. intro H. apply NoDup_app_iff in H. tauto. Qed.

Lemma NoDup_app_swap {A} (a b : list A) : NoDup (a ++ b) -> NoDup (b ++ a).
Proof.
  intro H. apply NoDup_app_iff in H. destruct H as (Ha & Hb & Hd).
  apply NoDup_app_iff. split; [exact Hb|]. split; [exact Ha|].
  intros x Hx Hx'. exact (Hd x Hx' Hx).
Qed.

Lemma NoDup_mid_remove {A} (a b c : list A) : NoDup (a ++ b ++ c) -> NoDup (a ++ c).
Proof.
  intro H. apply NoDup_app_iff in H. destruct H as (Ha & Hbc & Hd).
  apply NoDup_app_iff in Hbc. destruct Hbc as (Hb & Hc & Hd2).
  apply NoDup_app_iff. split; [exact Ha|]. split; [exact Hc|].
  intros x Hx Hx'. apply (Hd x Hx). apply in_or_app. right; exact Hx'.
Qed.

Lemma Forall_app_iff {A} (P : A -> Prop) a b : Forall P (a ++ b) <-> Forall P a /\ Forall P b.
Proof. apply Forall_app. Qed.

(* ------------------------------------------------------------------ *)
(* association lists                                                    *)

Section AL.
  Context {A : Type}.
  Implicit Types l : list (N * A).

  Lemma aget_in k l v : aget k l = Some v -> In (k, v) l.
  Proof.
    induction l as [|[k' v'] l IH]; cbn [aget]; [discriminate|].
    destruct (N.eqb_spec k k') as [->|Hn]; intro H.
    - inversion H; subst. left; reflexivity.
    - right; auto.
  Qed.

  Lemma aget_none_iff k l : aget k l = None <-> ~ In k (akeys l).
  Proof.
    unfold akeys. induction l as [|[k' v'] l IH]; cbn [aget map fst In].
    - tauto.
    - destruct (N.eqb_spec k k') as [->|Hn].
      + split; [discriminate|]. intro H. exfalso. apply H. left; reflexivity.
      + rewrite IH. split; [intros H [E|Hi]; [congruence|auto]|intros H Hi; apply H; right; exact Hi].
  Qed.

  Lemma aget_some_in_keys k l v : aget k l = Some v -> In k (akeys l).
  Proof.
    intro H. destruct (in_dec N.eq_dec k (akeys l)) as [Hi|Hi]; [exact Hi|].
    apply aget_none_iff in Hi. congruence.
  Qed.

  Lemma aget_app k l1 l2 :
    aget k (l1 ++ l2) = match aget k l1 with Some v => Some v | None => aget k l2 end.
  Proof.
    induction l1 as [|[k' v'] l1 IH]; cbn [aget app]; [reflexivity|].
    destruct (N.eqb k k'); [reflexivity|exact IH].
  Qed.

  Lemma aget_split k l v : aget k l = Some v ->
    exists l1 l2, l = l1 ++ (k, v) :: l2 /\ aget k l1 = None.
  Proof.
    induction l as [|[k' v'] l IH]; cbn [aget]; [discriminate|].
    destruct (N.eqb_spec k k') as [->|Hn]; intro H.
    - inversion H; subst. exists [], l. split; reflexivity.
    - destruct (IH H) as (l1 & l2 & -> & Hn1). exists ((k', v') :: l1), l2. split; [reflexivity|].
      cbn [aget]. destruct (N.eqb_spec k k'); [contradiction|exact Hn1].
  Qed.

  Lemma aset_split k l1 l2 v v' : aget k l1 = None ->
    aset k v' (l1 ++ (k, v) :: l2) = l1 ++ (k, v') :: l2.
  Proof.
    induction l1 as [|[k' w] l1 IH]; cbn [aget aset app]; intro H.
    - rewrite N.eqb_refl. reflexivity.
    - destruct (N.eqb k k'); [discriminate|]. rewrite (IH H). reflexivity.
  Qed.

  Lemma adel_split k l1 l2 v : aget k l1 = None ->
    adel k (l1 ++ (k, v) :: l2) = l1 ++ l2.
  Proof.
    induction l1 as [|[k' w] l1 IH]; cbn [aget adel app]; intro H.
    - rewrite N.eqb_refl. reflexivity.
    - destruct (N.eqb k k'); [discriminate|]. rewrite (IH H). reflexivity.
  Qed.

  Lemma aset_absent k l v : aget k l = None -> aset k v l = l ++ [(k, v)].
  Proof.
    induction l as [|[k' w] l IH]; cbn [aget aset app]; intro H; [reflexivity|].
    destruct (N.eqb k k'); [discriminate|]. rewrite (IH H). reflexivity.
  Qed.

  Lemma aget_aset_same k l v : aget k (aset k v l) = Some v.
  Proof.
    induction l as [|[k' w] l IH]; cbn [aset aget].
    - rewrite N.eqb_refl. reflexivity.
    - destruct (N.eqb k k') eqn:E; cbn [aget]; rewrite E; [reflexivity|exact IH].
  Qed.

  Lemma aget_aset_other k k' l v : k' <> k -> aget k' (aset k v l) = aget k' l.
  Proof.
    intro Hn. induction l as [|[k2 w] l IH]; cbn [aset aget].
    - destruct (N.eqb_spec k' k); [contradiction|reflexivity].
    - destruct (N.eqb_spec k k2) as [->|H2]; cbn [aget].
      + destruct (N.eqb_spec k' k2); [contradiction|reflexivity].
      + destruct (N.eqb k' k2); [reflexivity|exact IH].
  Qed.

  Lemma aget_aset k k' l v : aget k' (aset k v l) = if N.eqb k' k then Some v else aget k' l.
  Proof.
    destruct (N.eqb_spec k' k) as [->|Hn]; [apply aget_aset_same|apply aget_aset_other; exact Hn].
  Qed.

  Lemma akeys_app l1 l2 : akeys (l1 ++ l2) = akeys l1 ++ akeys l2.
  Proof. unfold akeys. apply map_app. Qed.

  Lemma akeys_aset_present k l v v0 : aget k l = Some v0 -> akeys (aset k v l) = akeys l.
  Proof.
    intro H. destruct (aget_split _ _ _ H) as (l1 & l2 & -> & Hn).
    rewrite (aset_split _ _ _ _ _ Hn). rewrite !akeys_app. reflexivity.
  Qed.

  Lemma akeys_aset_absent k l v : aget k l = None -> akeys (aset k v l) = akeys l ++ [k].
  Proof. intro H. rewrite (aset_absent _ _ _ H). rewrite akeys_app. reflexivity. Qed.

  Lemma nodup_keys_aset k l v : NoDup (akeys l) -> NoDup (akeys (aset k v l)).
  Proof.
    intro H. destruct (aget k l) as [v0|] eqn:E.
    - rewrite (akeys_aset_present _ _ _ _ E). exact H.
    - rewrite (akeys_aset_absent _ _ _ E). apply NoDup_app_swap. cbn [app].
      constructor; [|exact H]. apply aget_none_iff. exact E.
  Qed.

  Lemma in_keys_aset k k' l v : In k' (akeys (aset k v l)) <-> k' = k \/ In k' (akeys l).
  Proof.
    destruct (aget k l) as [v0|] eqn:E.
    - rewrite (akeys_aset_present _ _ _ _ E). split; [tauto|]. intros [->|H]; [|exact H].
      eapply aget_some_in_keys; eauto.
    - rewrite (akeys_aset_absent _ _ _ E). rewrite in_app_iff. cbn [In]. split; [intros [H|[H|[]]]; auto|].
      intros [->|H]; auto.
  Qed.

  Lemma aget_adel_other k k' l : k' <> k -> aget k' (adel k l) = aget k' l.
  Proof.
    intro Hn. induction l as [|[k2 w] l IH]; cbn [adel aget]; [reflexivity|].
    destruct (N.eqb_spec k k2) as [->|H2]; cbn [aget].
    - destruct (N.eqb_spec k' k2); [contradiction|reflexivity].
    - destruct (N.eqb k' k2); [reflexivity|exact IH].
  Qed.

  Lemma aget_adel_same k l : NoDup (akeys l) -> aget k (adel k l) = None.
  Proof.
    intro Hnd. destruct (aget k l) as [v|] eqn:E.
    - destruct (aget_split _ _ _ E) as (l1 & l2 & -> & Hn).
      rewrite (adel_split _ _ _ _ Hn). rewrite akeys_app in Hnd. cbn [akeys map fst] in Hnd.
      apply NoDup_remove_2 in Hnd. apply aget_none_iff. rewrite akeys_app. exact Hnd.
    - assert (adel k l = l) as ->; [|exact E].
      clear Hnd. induction l as [|[k2 w] l IH]; cbn [adel aget] in *; [reflexivity|].
      destruct (N.eqb k k2); [discriminate|]. rewrite (IH E). reflexivity.
  Qed.

  Lemma nodup_keys_adel k l : NoDup (akeys l) -> NoDup (akeys (adel k l)).
  Proof.
    intro Hnd. destruct (aget k l) as [v|] eqn:E.
    - destruct (aget_split _ _ _ E) as (l1 & l2 & -> & Hn).
      rewrite (adel_split _ _ _ _ Hn). rewrite akeys_app in *. cbn [akeys map fst] in Hnd.
      apply NoDup_remove_1 in Hnd. exact Hnd.
    - assert (adel k l = l) as ->; [|exact Hnd].
      clear Hnd. induction l as [|[k2 w] l IH]; cbn [adel aget] in *; [reflexivity|].
      destruct (N.eqb k k2); [discriminate|]. rewrite (IH E). reflexivity.
  Qed.

  Lemma in_keys_adel k k' l : In k' (akeys (adel k l)) -> In k' (akeys l).
  Proof.
    induction l as [|[k2 w] l IH]; cbn [adel akeys map fst In]; [tauto|].
    destruct (N.eqb k k2); cbn [akeys map fst In]; [auto|]. intros [H|H]; auto.
  Qed.

  Lemma in_aget_nodup k v l : NoDup (akeys l) -> In (k, v) l -> aget k l = Some v.
  Proof.
    induction l as [|[k2 w] l IH]; cbn [akeys map fst In aget]; [tauto|].
    intros Hnd [E|Hi].
    - inversion E; subst. rewrite N.eqb_refl. reflexivity.
    - inversion Hnd as [|? ? Hx Hnd']; subst.
      destruct (N.eqb_spec k k2) as [->|Hn].
      + exfalso. apply Hx. change (In k2 (map fst l)). apply (in_map fst) in Hi. exact Hi.
      + apply IH; assumption.
  Qed.
End AL.

(* ------------------------------------------------------------------ *)
(* node lists                                                           *)

Definition ids (l : list node) : list nid := map n_id l.

Lemma find_node_in n l nd : find_node n l = Some nd -> In nd l /\ n_id nd = n.
Proof.
  induction l as [|x l IH]; cbn [find_node]; [discriminate|].
  destruct (nid_eqb_spec (n_id x) n) as [E|Hn]; intro H.
  - inversion H; subst. split; [left; reflexivity|reflexivity].
  - destruct (IH H). split; [right; assumption|assumption].
Qed.

Lemma find_node_none_iff n l : find_node n l = None <-> ~ In n (ids l).
Proof.
  unfold ids. induction l as [|x l IH]; cbn [find_node map In]; [tauto|].
  destruct (nid_eqb_spec (n_id x) n) as [E|Hn].
  - split; [discriminate|]. intro H. exfalso. apply H. left; exact E.
  - rewrite IH. tauto.
Qed.

Lemma find_node_some_iff n l : (exists nd, find_node n l = Some nd) <-> In n (ids l).
Proof.
  destruct (find_node n l) as [nd|] eqn:E.
  - split; [intros _|intros _; eauto].
    destruct (in_dec nid_eq_dec n (ids l)) as [Hi|Hi]; [exact Hi|].
    apply find_node_none_iff in Hi. congruence.
  - split; [intros [nd H]; discriminate|]. intro Hi. apply find_node_none_iff in E. contradiction.
Qed.

Lemma find_node_split n l nd : find_node n l = Some nd ->
  exists l1 l2, l = l1 ++ nd :: l2 /\ find_node n l1 = None /\ n_id nd = n.
Proof.
  induction l as [|x l IH]; cbn [find_node]; [discriminate|].
  destruct (nid_eqb_spec (n_id x) n) as [E|Hn]; intro H.
  - inversion H; subst. exists [], l. repeat split; reflexivity.
  - destruct (IH H) as (l1 & l2 & -> & Hn1 & Hid). exists (x :: l1), l2. split; [reflexivity|].
    split; [|exact Hid]. cbn [find_node]. destruct (nid_eqb_spec (n_id x) n); [contradiction|exact Hn1].
Qed.

Lemma find_node_app n l1 l2 :
  find_node n (l1 ++ l2) = match find_node n l1 with Some x => Some x | None => find_node n l2 end.
Proof.
  induction l1 as [|x l1 IH]; cbn [find_node app]; [reflexivity|].
  destruct (nid_eqb (n_id x) n); [reflexivity|exact IH].
Qed.

Lemma set_node_split n sb l1 nd l2 : find_node n l1 = None -> n_id nd = n ->
  set_node n sb (l1 ++ nd :: l2) = l1 ++ mkNode n sb :: l2.
Proof.
  intros H Hid. induction l1 as [|x l1 IH]; cbn [find_node set_node app] in *.
  - subst n. rewrite nid_eqb_refl. reflexivity.
  - destruct (nid_eqb (n_id x) n); [discriminate|]. rewrite (IH H). reflexivity.
Qed.

Lemma del_node_split n l1 nd l2 : find_node n l1 = None -> n_id nd = n ->
  del_node n (l1 ++ nd :: l2) = l1 ++ l2.
Proof.
  intros H Hid. induction l1 as [|x l1 IH]; cbn [find_node del_node app] in *.
  - subst n. rewrite nid_eqb_refl. reflexivity.
  - destruct (nid_eqb (n_id x) n); [discriminate|]. rewrite (IH H). reflexivity.
Qed.

Lemma set_node_absent n sb l : find_node n l = None -> set_node n sb l = l.
Proof.
  induction l as [|x l IH]; cbn [find_node set_node]; [reflexivity|].
  destruct (nid_eqb (n_id x) n); [discriminate|]. intro H. rewrite (IH H). reflexivity.
Qed.

Lemma del_node_absent n l : find_node n l = None -> del_node n l = l.
Proof.
  induction l as [|x l IH]; cbn [find_node del_node]; [reflexivity|].
  destruct (nid_eqb (n_id x) n); [discriminate|]. intro H. rewrite (IH H). reflexivity.
Qed.

Lemma ids_set_node n sb l : ids (set_node n sb l) = ids l.
Proof.
  unfold ids. induction l as [|x l IH]; cbn [set_node map]; [reflexivity|].
  destruct (nid_eqb_spec (n_id x) n) as [E|Hn]; cbn [map n_id].
  - rewrite E. reflexivity.
  - rewrite IH. reflexivity.
Qed.

Lemma find_node_set_node n n' sb l :
  find_node n' (set_node n sb l) =
  if nid_eqb n' n then match find_node n l with Some _ => Some (mkNode n sb) | None => None end
  else find_node n' l.
Proof.
  induction l as [|x l IH]; cbn [set_node find_node].
  - destruct (nid_eqb n' n); reflexivity.
  - destruct (nid_eqb_spec (n_id x) n) as [E|Hn]; cbn [find_node n_id].
    + destruct (nid_eqb_spec n' n) as [->|Hn'].
      * rewrite nid_eqb_refl. reflexivity.
      * rewrite E. destruct (nid_eqb_spec n n'); [congruence|].
        destruct (nid_eqb_spec n n'); [congruence|reflexivity].
    + destruct (nid_eqb_spec (n_id x) n') as [E'|Hn'].
      * destruct (nid_eqb_spec n' n) as [->|]; [contradiction|reflexivity].
      * exact IH.
Qed.

Lemma find_node_del_other n n' l : n' <> n -> find_node n' (del_node n l) = find_node n' l.
Proof.
  intro Hn. induction l as [|x l IH]; cbn [del_node find_node]; [reflexivity|].
  destruct (nid_eqb_spec (n_id x) n) as [E|Hx]; cbn [find_node].
  - destruct (nid_eqb_spec (n_id x) n'); [congruence|reflexivity].
  - destruct (nid_eqb (n_id x) n'); [reflexivity|exact IH].
Qed.

Lemma find_node_del_same n l : NoDup (ids l) -> find_node n (del_node n l) = None.
Proof.
  intro Hnd. destruct (find_node n l) as [nd|] eqn:E.
  - destruct (find_node_split _ _ _ E) as (l1 & l2 & -> & Hn1 & Hid).
    rewrite (del_node_split _ _ _ _ Hn1 Hid). apply find_node_none_iff.
    unfold ids in *. rewrite map_app in *. cbn [map] in Hnd. apply NoDup_remove_2 in Hnd.
    rewrite Hid in Hnd. exact Hnd.
  - rewrite (del_node_absent _ _ E). exact E.
Qed.
