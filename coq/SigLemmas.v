(* SigLemmas.v -- generic lemmas about the data structures of SigCore.v *)
From Coq Require Import List NArith Bool Lia Arith Permutation.
Import ListNotations.
Require Import Util SigCore.
Local Open Scope N_scope.

(* ------------------------------------------------------------------ *)
(* decidable equalities                                                 *)

Lemma nid_eqb_eq a b : nid_eqb a b = true <-> a = b.
Proof.
  destruct a as [x|x], b as [y|y]; cbn [nid_eqb]; split; intro H;
    try discriminate; try (apply N.eqb_eq in H; subst; reflexivity);
    try (inversion H; subst; apply N.eqb_refl).
Qed.

Lemma nid_eqb_refl a : nid_eqb a a = true.
Proof. apply nid_eqb_eq. reflexivity. Qed.

Lemma nid_eqb_neq a b : nid_eqb a b = false <-> a <> b.
Proof.
  split.
  - intros H E. subst. rewrite nid_eqb_refl in H. discriminate.
  - intros H. destruct (nid_eqb a b) eqn:E; [|reflexivity]. apply nid_eqb_eq in E. contradiction.
Qed.

Lemma nid_eqb_spec a b : reflect (a = b) (nid_eqb a b).
Proof.
  destruct (nid_eqb a b) eqn:E; constructor.
  - apply nid_eqb_eq; exact E.
  - apply nid_eqb_neq; exact E.
Qed.

Lemma nid_eq_dec (a b : nid) : {a = b} + {a <> b}.
Proof. destruct (nid_eqb_spec a b); [left|right]; assumption. Qed.

Lemma wref_eqb_eq a b : wref_eqb a b = true <-> a = b.
Proof.
  destruct a as [x|x], b as [y|y]; cbn [wref_eqb]; split; intro H;
    try discriminate; try (apply N.eqb_eq in H; subst; reflexivity);
    try (inversion H; subst; apply N.eqb_refl).
Qed.

Lemma wref_eqb_spec a b : reflect (a = b) (wref_eqb a b).
Proof.
  destruct (wref_eqb a b) eqn:E; constructor.
  - apply wref_eqb_eq; exact E.
  - intro H. apply wref_eqb_eq in H. congruence.
Qed.

(* ------------------------------------------------------------------ *)
(* generic list facts                                                   *)

Lemma NoDup_app_iff {A} (a b : list A) :
  NoDup (a ++ b) <-> NoDup a /\ NoDup b /\ (forall x, In x a -> ~ In x b).
Proof.
  induction a as [|x a IH]; cbn [app].
  - split.
    + intros H. split; [constructor|]. split; [exact H|]. intros y [].
    + intros (_ & H & _). exact H.
  - split.
    + intros H. inversion H as [|? ? Hx Hn]; subst.
      apply IH in Hn. destruct Hn as (Ha & Hb & Hd).
      split.
      * constructor; auto. intro Hi. apply Hx. apply in_or_app. left; exact Hi.
      * split; auto. intros y [<-|Hy].
        -- intro Hi. apply Hx. apply in_or_app. right; exact Hi.
        -- apply Hd; exact Hy.
    + intros (Ha & Hb & Hd). inversion Ha as [|? ? Hx Hn]; subst. constructor.
      * intro H. apply in_app_or in H. destruct H as [H|H]; [auto|].
        apply (Hd x); [left; reflexivity|exact H].
      * apply IH. split; auto. split; auto. intros y Hy. apply Hd. right; exact Hy.
Qed.

Lemma NoDup_app_l {A} (a b : list A) : NoDup (a ++ b) -> NoDup a.
Proof. intro H. apply NoDup_app_iff in H. tauto. Qed.

Lemma NoDup_app_r {A} (a b : list A) : NoDup (a ++ b) -> NoDup b.
Proof. intro H. apply NoDup_app_iff in H. tauto. Qed.

Lemma NoDup_app_swap {A} (a b : list A) : NoDup (a ++ b) -> NoDup (b ++ a).
Proof.
  intro H. apply NoDup_app_iff in H. destruct H as (Ha & Hb & Hd).
  apply NoDup_app_iff. split; [exact Hb|]. split; [exact Ha|].
  intros x Hx Hx'. exact (Hd x Hx' Hx).
Qed.

Lemma NoDup_mid_remove {A} (a b c : list A) : NoDup (a ++ b ++ c) -> NoDup (a ++ c).
Proof.
  intro H. apply NoDup_app_iff in H. destruct H as (Ha & Hbc & Hd).
  apply NoDup_app_iff in Hbc. destruct Hbc as (Hb & Hc & Hd2).
  apply NoDup_app_iff. split; [exact Ha|]. split; [exact Hc|].
  intros x Hx Hx'. apply (Hd x Hx). apply in_or_app. right; exact Hx'.
Qed.

Lemma Forall_app_iff {A} (P : A -> Prop) a b : Forall P (a ++ b) <-> Forall P a /\ Forall P b.
Proof. apply Forall_app. Qed.

(* ------------------------------------------------------------------ *)
(* association lists                                                    *)

Section AL.
  Context {A : Type}.
  Implicit Types l : list (N * A).

  Lemma aget_in k l v : aget k l = Some v -> In (k, v) l.
  Proof.
    induction l as [|[k' v'] l IH]; cbn [aget]; [discriminate|].
    destruct (N.eqb_spec k k') as [->|Hn]; intro H.
    - inversion H; subst. left; reflexivity.
    - right; auto.
  Qed.

  Lemma aget_none_iff k l : aget k l = None <-> ~ In k (akeys l).
  Proof.
    unfold akeys. induction l as [|[k' v'] l IH]; cbn [aget map fst In].
    - tauto.
    - destruct (N.eqb_spec k k') as [->|Hn].
      + split; [discriminate|]. intro H. exfalso. apply H. left; reflexivity.
      + rewrite IH. split; [intros H [E|Hi]; [congruence|auto]|intros H Hi; apply H; right; exact Hi].
  Qed.

  Lemma aget_some_in_keys k l v : aget k l = Some v -> In k (akeys l).
  Proof.
    intro H. destruct (in_dec N.eq_dec k (akeys l)) as [Hi|Hi]; [exact Hi|].
    apply aget_none_iff in Hi. congruence.
  Qed.

  Lemma aget_app k l1 l2 :
    aget k (l1 ++ l2) = match aget k l1 with Some v => Some v | None => aget k l2 end.
  Proof.
    induction l1 as [|[k' v'] l1 IH]; cbn [aget app]; [reflexivity|].
    destruct (N.eqb k k'); [reflexivity|exact IH].
  Qed.

  Lemma aget_split k l v : aget k l = Some v ->
    exists l1 l2, l = l1 ++ (k, v) :: l2 /\ aget k l1 = None.
  Proof.
    induction l as [|[k' v'] l IH]; cbn [aget]; [discriminate|].
    destruct (N.eqb_spec k k') as [->|Hn]; intro H.
    - inversion H; subst. exists [], l. split; reflexivity.
    - destruct (IH H) as (l1 & l2 & -> & Hn1). exists ((k', v') :: l1), l2. split; [reflexivity|].
      cbn [aget]. destruct (N.eqb_spec k k'); [contradiction|exact Hn1].
  Qed.

  Lemma aset_split k l1 l2 v v' : aget k l1 = None ->
    aset k v' (l1 ++ (k, v) :: l2) = l1 ++ (k, v') :: l2.
  Proof.
    induction l1 as [|[k' w] l1 IH]; cbn [aget aset app]; intro H.
    - rewrite N.eqb_refl. reflexivity.
    - destruct (N.eqb k k'); [discriminate|]. rewrite (IH H). reflexivity.
  Qed.

  Lemma adel_split k l1 l2 v : aget k l1 = None ->
    adel k (l1 ++ (k, v) :: l2) = l1 ++ l2.
  Proof.
    induction l1 as [|[k' w] l1 IH]; cbn [aget adel app]; intro H.
    - rewrite N.eqb_refl. reflexivity.
    - destruct (N.eqb k k'); [discriminate|]. rewrite (IH H). reflexivity.
  Qed.

  Lemma aset_absent k l v : aget k l = None -> aset k v l = l ++ [(k, v)].
  Proof.
    induction l as [|[k' w] l IH]; cbn [aget aset app]; intro H; [reflexivity|].
    destruct (N.eqb k k'); [discriminate|]. rewrite (IH H). reflexivity.
  Qed.

  Lemma aget_aset_same k l v : aget k (aset k v l) = Some v.
  Proof.
    induction l as [|[k' w] l IH]; cbn [aset aget].
    - rewrite N.eqb_refl. reflexivity.
    - destruct (N.eqb k k') eqn:E; cbn [aget]; rewrite E; [reflexivity|exact IH].
  Qed.

  Lemma aget_aset_other k k' l v : k' <> k -> aget k' (aset k v l) = aget k' l.
  Proof.
    intro Hn. induction l as [|[k2 w] l IH]; cbn [aset aget].
    - destruct (N.eqb_spec k' k); [contradiction|reflexivity].
    - destruct (N.eqb_spec k k2) as [->|H2]; cbn [aget].
      + destruct (N.eqb_spec k' k2); [contradiction|reflexivity].
      + destruct (N.eqb k' k2); [reflexivity|exact IH].
  Qed.

  Lemma aget_aset k k' l v : aget k' (aset k v l) = if N.eqb k' k then Some v else aget k' l.
  Proof.
    destruct (N.eqb_spec k' k) as [->|Hn]; [apply aget_aset_same|apply aget_aset_other; exact Hn].
  Qed.

  Lemma akeys_app l1 l2 : akeys (l1 ++ l2) = akeys l1 ++ akeys l2.
  Proof. unfold akeys. apply map_app. Qed.

  Lemma akeys_aset_present k l v v0 : aget k l = Some v0 -> akeys (aset k v l) = akeys l.
  Proof.
    intro H. destruct (aget_split _ _ _ H) as (l1 & l2 & -> & Hn).
    rewrite (aset_split _ _ _ _ _ Hn). rewrite !akeys_app. reflexivity.
  Qed.

  Lemma akeys_aset_absent k l v : aget k l = None -> akeys (aset k v l) = akeys l ++ [k].
  Proof. intro H. rewrite (aset_absent _ _ _ H). rewrite akeys_app. reflexivity. Qed.

  Lemma nodup_keys_aset k l v : NoDup (akeys l) -> NoDup (akeys (aset k v l)).
  Proof.
    intro H. destruct (aget k l) as [v0|] eqn:E.
    - rewrite (akeys_aset_present _ _ _ _ E). exact H.
    - rewrite (akeys_aset_absent _ _ _ E). apply NoDup_app_swap. cbn [app].
      constructor; [|exact H]. apply aget_none_iff. exact E.
  Qed.

  Lemma in_keys_aset k k' l v : In k' (akeys (aset k v l)) <-> k' = k \/ In k' (akeys l).
  Proof.
    destruct (aget k l) as [v0|] eqn:E.
    - rewrite (akeys_aset_present _ _ _ _ E). split; [tauto|]. intros [->|H]; [|exact H].
      eapply aget_some_in_keys; eauto.
    - rewrite (akeys_aset_absent _ _ _ E). rewrite in_app_iff. cbn [In]. split; [intros [H|[H|[]]]; auto|].
      intros [->|H]; auto.
  Qed.

  Lemma aget_adel_other k k' l : k' <> k -> aget k' (adel k l) = aget k' l.
  Proof.
    intro Hn. induction l as [|[k2 w] l IH]; cbn [adel aget]; [reflexivity|].
    destruct (N.eqb_spec k k2) as [->|H2]; cbn [aget].
    - destruct (N.eqb_spec k' k2); [contradiction|reflexivity].
    - destruct (N.eqb k' k2); [reflexivity|exact IH].
  Qed.

  Lemma aget_adel_same k l : NoDup (akeys l) -> aget k (adel k l) = None.
  Proof.
    intro Hnd. destruct (aget k l) as [v|] eqn:E.
    - destruct (aget_split _ _ _ E) as (l1 & l2 & -> & Hn).
      rewrite (adel_split _ _ _ _ Hn). rewrite akeys_app in Hnd. cbn [akeys map fst] in Hnd.
      apply NoDup_remove_2 in Hnd. apply aget_none_iff. rewrite akeys_app. exact Hnd.
    - assert (adel k l = l) as ->; [|exact E].
      clear Hnd. induction l as [|[k2 w] l IH]; cbn [adel aget] in *; [reflexivity|].
      destruct (N.eqb k k2); [discriminate|]. rewrite (IH E). reflexivity.
  Qed.

  Lemma nodup_keys_adel k l : NoDup (akeys l) -> NoDup (akeys (adel k l)).
  Proof.
    intro Hnd. destruct (aget k l) as [v|] eqn:E.
    - destruct (aget_split _ _ _ E) as (l1 & l2 & -> & Hn).
      rewrite (adel_split _ _ _ _ Hn). rewrite akeys_app in *. cbn [akeys map fst] in Hnd.
      apply NoDup_remove_1 in Hnd. exact Hnd.
    - assert (adel k l = l) as ->; [|exact Hnd].
      clear Hnd. induction l as [|[k2 w] l IH]; cbn [adel aget] in *; [reflexivity|].
      destruct (N.eqb k k2); [discriminate|]. rewrite (IH E). reflexivity.
  Qed.

  Lemma in_keys_adel k k' l : In k' (akeys (adel k l)) -> In k' (akeys l).
  Proof.
    induction l as [|[k2 w] l IH]; cbn [adel akeys map fst In]; [tauto|].
    destruct (N.eqb k k2); cbn [akeys map fst In]; [auto|]. intros [H|H]; auto.
  Qed.

  Lemma in_aget_nodup k v l : NoDup (akeys l) -> In (k, v) l -> aget k l = Some v.
  Proof.
    induction l as [|[k2 w] l IH]; cbn [akeys map fst In aget]; [tauto|].
    intros Hnd [E|Hi].
    - inversion E; subst. rewrite N.eqb_refl. reflexivity.
    - inversion Hnd as [|? ? Hx Hnd']; subst.
      destruct (N.eqb_spec k k2) as [->|Hn].
      + exfalso. apply Hx. change (In k2 (map fst l)). apply (in_map fst) in Hi. exact Hi.
      + apply IH; assumption.
  Qed.
End AL.

(* ------------------------------------------------------------------ *)
(* node lists                                                           *)

Definition ids (l : list node) : list nid := map n_id l.

Lemma find_node_in n l nd : find_node n l = Some nd -> In nd l /\ n_id nd = n.
Proof.
  induction l as [|x l IH]; cbn [find_node]; [discriminate|].
  destruct (nid_eqb_spec (n_id x) n) as [E|Hn]; intro H.
  - inversion H; subst. split; [left; reflexivity|reflexivity].
  - destruct (IH H). split; [right; assumption|assumption].
Qed.

Lemma find_node_none_iff n l : find_node n l = None <-> ~ In n (ids l).
Proof.
  unfold ids. induction l as [|x l IH]; cbn [find_node map In]; [tauto|].
  destruct (nid_eqb_spec (n_id x) n) as [E|Hn].
  - split; [discriminate|]. intro H. exfalso. apply H. left; exact E.
  - rewrite IH. tauto.
Qed.

Lemma find_node_some_iff n l : (exists nd, find_node n l = Some nd) <-> In n (ids l).
Proof.
  destruct (find_node n l) as [nd|] eqn:E.
  - split; [intros _|intros _; eauto].
    destruct (in_dec nid_eq_dec n (ids l)) as [Hi|Hi]; [exact Hi|].
    apply find_node_none_iff in Hi. congruence.
  - split; [intros [nd H]; discriminate|]. intro Hi. apply find_node_none_iff in E. contradiction.
Qed.

Lemma find_node_split n l nd : find_node n l = Some nd ->
  exists l1 l2, l = l1 ++ nd :: l2 /\ find_node n l1 = None /\ n_id nd = n.
Proof.
  induction l as [|x l IH]; cbn [find_node]; [discriminate|].
  destruct (nid_eqb_spec (n_id x) n) as [E|Hn]; intro H.
  - inversion H; subst. exists [], l. repeat split; reflexivity.
  - destruct (IH H) as (l1 & l2 & -> & Hn1 & Hid). exists (x :: l1), l2. split; [reflexivity|].
    split; [|exact Hid]. cbn [find_node]. destruct (nid_eqb_spec (n_id x) n); [contradiction|exact Hn1].
Qed.

Lemma find_node_app n l1 l2 :
  find_node n (l1 ++ l2) = match find_node n l1 with Some x => Some x | None => find_node n l2 end.
Proof.
  induction l1 as [|x l1 IH]; cbn [find_node app]; [reflexivity|].
  destruct (nid_eqb (n_id x) n); [reflexivity|exact IH].
Qed.

Lemma set_node_split n sb l1 nd l2 : find_node n l1 = None -> n_id nd = n ->
  set_node n sb (l1 ++ nd :: l2) = l1 ++ mkNode n sb :: l2.
Proof.
  intros H Hid. induction l1 as [|x l1 IH]; cbn [find_node set_node app] in *.
  - subst n. rewrite nid_eqb_refl. reflexivity.
  - destruct (nid_eqb (n_id x) n); [discriminate|]. rewrite (IH H). reflexivity.
Qed.

Lemma del_node_split n l1 nd l2 : find_node n l1 = None -> n_id nd = n ->
  del_node n (l1 ++ nd :: l2) = l1 ++ l2.
Proof.
  intros H Hid. induction l1 as [|x l1 IH]; cbn [find_node del_node app] in *.
  - subst n. rewrite nid_eqb_refl. reflexivity.
  - destruct (nid_eqb (n_id x) n); [discriminate|]. rewrite (IH H). reflexivity.
Qed.

Lemma set_node_absent n sb l : find_node n l = None -> set_node n sb l = l.
Proof.
  induction l as [|x l IH]; cbn [find_node set_node]; [reflexivity|].
  destruct (nid_eqb (n_id x) n); [discriminate|]. intro H. rewrite (IH H). reflexivity.
Qed.

Lemma del_node_absent n l : find_node n l = None -> del_node n l = l.
Proof.
  induction l as [|x l IH]; cbn [find_node del_node]; [reflexivity|].
  destruct (nid_eqb (n_id x) n); [discriminate|]. intro H. rewrite (IH H). reflexivity.
Qed.

Lemma ids_set_node n sb l : ids (set_node n sb l) = ids l.
Proof.
  unfold ids. induction l as [|x l IH]; cbn [set_node map]; [reflexivity|].
  destruct (nid_eqb_spec (n_id x) n) as [E|Hn]; cbn [map n_id].
  - rewrite E. reflexivity.
  - rewrite IH. reflexivity.
Qed.

Lemma find_node_set_node n n' sb l :
  find_node n' (set_node n sb l) =
  if nid_eqb n' n then match find_node n l with Some _ => Some (mkNode n sb) | None => None end
  else find_node n' l.
Proof.
  induction l as [|x l IH]; cbn [set_node find_node].
  - destruct (nid_eqb n' n); reflexivity.
  - destruct (nid_eqb_spec (n_id x) n) as [E|Hn]; cbn [find_node n_id].
    + destruct (nid_eqb_spec n' n) as [->|Hn'].
      * rewrite nid_eqb_refl. reflexivity.
      * rewrite E. destruct (nid_eqb_spec n n'); [congruence|].
        destruct (nid_eqb_spec n n'); [congruence|reflexivity].
    + destruct (nid_eqb_spec (n_id x) n') as [E'|Hn'].
      * destruct (nid_eqb_spec n' n) as [->|]; [contradiction|reflexivity].
      * exact IH.
Qed.

Lemma find_node_del_other n n' l : n' <> n -> find_node n' (del_node n l) = find_node n' l.
Proof.
  intro Hn. induction l as [|x l IH]; cbn [del_node find_node]; [reflexivity|].
  destruct (nid_eqb_spec (n_id x) n) as [E|Hx]; cbn [find_node].
  - destruct (nid_eqb_spec (n_id x) n'); [congruence|reflexivity].
  - destruct (nid_eqb (n_id x) n'); [reflexivity|exact IH].
Qed.

Lemma find_node_del_same n l : NoDup (ids l) -> find_node n (del_node n l) = None.
Proof.
  intro Hnd. destruct (find_node n l) as [nd|] eqn:E.
  - destruct (find_node_split _ _ _ E) as (l1 & l2 & -> & Hn1 & Hid).
    rewrite (del_node_split _ _ _ _ Hn1 Hid). apply find_node_none_iff.
    unfold ids in *. rewrite map_app in *. cbn [map] in Hnd. apply NoDup_remove_2 in Hnd.
    rewrite Hid in Hnd. exact Hnd.
  - rewrite (del_node_absent _ _ E). exact E.
Qed.

(* ------------------------------------------------------------------ *)
(* enumeration of reps                                                  *)

Definition optl {A} (o : option A) : list A := match o with Some x => [x] | None => [] end.
Definition sb_reps (sb : slotbase) : list rep := optl (sb_rep sb).
Definition slot_reps (o : option slotbase) : list rep :=
  match o with Some sb => sb_reps sb | None => [] end.
Definition var_reps_l (l : list (N * option slotbase)) : list rep :=
  flat_map (fun p => slot_reps (snd p)) l.
Definition nodes_reps (l : list node) : list rep := flat_map (fun nd => sb_reps (n_sb nd)) l.
Definition node_reps_l (l : list (N * impl)) : list rep :=
  flat_map (fun p => nodes_reps (i_nodes (snd p))) l.
Definition var_reps (st : state) := var_reps_l (slots st).
Definition node_reps (st : state) := node_reps_l (impls st).
Definition all_reps (st : state) := var_reps st ++ node_reps st.

Lemma var_reps_l_app a b : var_reps_l (a ++ b) = var_reps_l a ++ var_reps_l b.
Proof. apply flat_map_app. Qed.
Lemma nodes_reps_app a b : nodes_reps (a ++ b) = nodes_reps a ++ nodes_reps b.
Proof. apply flat_map_app. Qed.
Lemma node_reps_l_app a b : node_reps_l (a ++ b) = node_reps_l a ++ node_reps_l b.
Proof. apply flat_map_app. Qed.

Lemma var_reps_present s l o : aget s l = Some o ->
  exists A B, var_reps_l l = A ++ slot_reps o ++ B /\
              forall o', var_reps_l (aset s o' l) = A ++ slot_reps o' ++ B.
Proof.
  intro H. destruct (aget_split _ _ _ H) as (l1 & l2 & -> & Hn).
  exists (var_reps_l l1), (var_reps_l l2). split.
  - rewrite var_reps_l_app. reflexivity.
  - intro o'. rewrite (aset_split _ _ _ _ _ Hn), var_reps_l_app. reflexivity.
Qed.

Lemma var_reps_absent s l o' : aget s l = None ->
  var_reps_l (aset s o' l) = var_reps_l l ++ slot_reps o'.
Proof.
  intro H. rewrite (aset_absent _ _ _ H), var_reps_l_app. cbn [var_reps_l flat_map snd].
  rewrite app_nil_r. reflexivity.
Qed.

Lemma node_reps_present i l im : aget i l = Some im ->
  exists A B, node_reps_l l = A ++ nodes_reps (i_nodes im) ++ B /\
              (forall im', node_reps_l (aset i im' l) = A ++ nodes_reps (i_nodes im') ++ B) /\
              node_reps_l (adel i l) = A ++ B.
Proof.
  intro H. destruct (aget_split _ _ _ H) as (l1 & l2 & -> & Hn).
  exists (node_reps_l l1), (node_reps_l l2). split; [|split].
  - rewrite node_reps_l_app. reflexivity.
  - intro im'. rewrite (aset_split _ _ _ _ _ Hn), node_reps_l_app. reflexivity.
  - rewrite (adel_split _ _ _ _ Hn), node_reps_l_app. reflexivity.
Qed.

Lemma node_reps_absent i l im' : aget i l = None ->
  node_reps_l (aset i im' l) = node_reps_l l ++ nodes_reps (i_nodes im').
Proof.
  intro H. rewrite (aset_absent _ _ _ H), node_reps_l_app. cbn [node_reps_l flat_map snd].
  rewrite app_nil_r. reflexivity.
Qed.

Lemma nodes_reps_find n l nd : find_node n l = Some nd ->
  exists A B, nodes_reps l = A ++ sb_reps (n_sb nd) ++ B /\
              (forall sb', nodes_reps (set_node n sb' l) = A ++ sb_reps sb' ++ B) /\
              nodes_reps (del_node n l) = A ++ B.
Proof.
  intro H. destruct (find_node_split _ _ _ H) as (l1 & l2 & -> & Hn & Hid).
  exists (nodes_reps l1), (nodes_reps l2). split; [|split].
  - rewrite nodes_reps_app. reflexivity.
  - intro sb'. rewrite (set_node_split _ _ _ _ _ Hn Hid), nodes_reps_app. reflexivity.
  - rewrite (del_node_split _ _ _ _ Hn Hid), nodes_reps_app. reflexivity.
Qed.

Lemma in_nodes_reps r l : In r (nodes_reps l) <-> exists nd, In nd l /\ sb_rep (n_sb nd) = Some r.
Proof.
  unfold nodes_reps. rewrite in_flat_map. split; intros (nd & Hi & H); exists nd; split; auto.
  - unfold sb_reps, optl in H. destruct (sb_rep (n_sb nd)); [destruct H as [->|[]]; reflexivity|destruct H].
  - unfold sb_reps. rewrite H. left; reflexivity.
Qed.

Lemma in_node_reps_l r l : In r (node_reps_l l) <->
  exists i im, In (i, im) l /\ In r (nodes_reps (i_nodes im)).
Proof.
  unfold node_reps_l. rewrite in_flat_map. split.
  - intros ([i im] & Hi & H). exists i, im. auto.
  - intros (i & im & Hi & H). exists (i, im). auto.
Qed.

Lemma in_var_reps_l r l : In r (var_reps_l l) <->
  exists s sb, In (s, Some sb) l /\ sb_rep sb = Some r.
Proof.
  unfold var_reps_l. rewrite in_flat_map. split.
  - intros ([s o] & Hi & H). cbn [snd] in H. destruct o as [sb|]; [|destruct H].
    exists s, sb. split; [exact Hi|]. unfold slot_reps, sb_reps, optl in H.
    destruct (sb_rep sb); [destruct H as [->|[]]; reflexivity|destruct H].
  - intros (s & sb & Hi & H). exists (s, Some sb). split; [exact Hi|].
    cbn [snd slot_reps]. unfold sb_reps. rewrite H. left; reflexivity.
Qed.

(* ------------------------------------------------------------------ *)
(* get_sb / set_sb                                                      *)

Definition loc_eqb (a b : loc) : bool :=
  match a, b with
  | LVar x, LVar y => N.eqb x y
  | LNode i n, LNode j m => N.eqb i j && nid_eqb n m
  | _, _ => false
  end.

Lemma loc_eqb_spec a b : reflect (a = b) (loc_eqb a b).
Proof.
  destruct a as [x|i n], b as [y|j m]; cbn [loc_eqb]; try (constructor; congruence).
  - destruct (N.eqb_spec x y); constructor; congruence.
  - destruct (N.eqb_spec i j); cbn [andb]; [|constructor; congruence].
    destruct (nid_eqb_spec n m); constructor; congruence.
Qed.

Lemma get_sb_var s st : get_sb (LVar s) st =
  match aget s (slots st) with Some (Some sb) => Some sb | _ => None end.
Proof. reflexivity. Qed.

Lemma get_sb_node i n st : get_sb (LNode i n) st =
  match aget i (impls st) with Some im => option_map n_sb (find_node n (i_nodes im)) | None => None end.
Proof. reflexivity. Qed.

Lemma get_sb_node_inv i n st sb : get_sb (LNode i n) st = Some sb ->
  exists im nd, aget i (impls st) = Some im /\ find_node n (i_nodes im) = Some nd /\ n_sb nd = sb.
Proof.
  rewrite get_sb_node. destruct (aget i (impls st)) as [im|] eqn:Hi; [|discriminate].
  destruct (find_node n (i_nodes im)) as [nd|] eqn:Hf; cbn [option_map]; [|discriminate].
  intro H. inversion H. exists im, nd. repeat split; [exact Hf].
Qed.

Lemma get_sb_var_inv s st sb : get_sb (LVar s) st = Some sb -> aget s (slots st) = Some (Some sb).
Proof.
  rewrite get_sb_var. destruct (aget s (slots st)) as [[x|]|]; congruence.
Qed.

Lemma get_set_sb_same l st sb sb' : get_sb l st = Some sb -> get_sb l (set_sb l sb' st) = Some sb'.
Proof.
  destruct l as [s|i n]; intro H.
  - unfold set_sb, get_sb. cbn [slots with_slots]. rewrite aget_aset_same. reflexivity.
  - destruct (get_sb_node_inv _ _ _ _ H) as (im & nd & Hi & Hf & _).
    unfold set_sb. rewrite Hi. unfold get_sb, set_impl. cbn [impls with_impls].
    rewrite aget_aset_same. cbn [i_nodes with_nodes]. rewrite find_node_set_node, nid_eqb_refl, Hf.
    reflexivity.
Qed.

Lemma get_set_sb_other l l' st sb' : l' <> l -> get_sb l' (set_sb l sb' st) = get_sb l' st.
Proof.
  intro Hn. destruct l as [s|i n], l' as [s'|i' n']; unfold set_sb.
  - unfold get_sb. cbn [slots with_slots]. rewrite aget_aset_other; [reflexivity|congruence].
  - reflexivity.
  - destruct (aget i (impls st)) eqn:Hi; [|reflexivity]. reflexivity.
  - destruct (aget i (impls st)) as [im|] eqn:Hi; [|reflexivity].
    unfold get_sb, set_impl. cbn [impls with_impls]. rewrite aget_aset.
    destruct (N.eqb_spec i' i) as [->|Hni].
    + rewrite Hi. cbn [i_nodes with_nodes]. rewrite find_node_set_node.
      destruct (nid_eqb_spec n' n) as [->|]; [congruence|reflexivity].
    + reflexivity.
Qed.

Lemma set_sb_reps l st sb sb' : get_sb l st = Some sb ->
  exists A B,
    match l with
    | LVar _ => var_reps st = A ++ sb_reps sb ++ B /\ var_reps (set_sb l sb' st) = A ++ sb_reps sb' ++ B
                /\ node_reps (set_sb l sb' st) = node_reps st
    | LNode _ _ => node_reps st = A ++ sb_reps sb ++ B /\ node_reps (set_sb l sb' st) = A ++ sb_reps sb' ++ B
                /\ var_reps (set_sb l sb' st) = var_reps st
    end.
Proof.
  destruct l as [s|i n]; intro H.
  - apply get_sb_var_inv in H. destruct (var_reps_present _ _ _ H) as (A & B & H1 & H2).
    exists A, B. split; [exact H1|]. split; [|reflexivity].
    unfold var_reps, set_sb. cbn [slots with_slots]. apply (H2 (Some sb')).
  - destruct (get_sb_node_inv _ _ _ _ H) as (im & nd & Hi & Hf & Hsb). subst sb.
    destruct (node_reps_present _ _ _ Hi) as (A & B & H1 & H2 & _).
    destruct (nodes_reps_find _ _ _ Hf) as (A' & B' & H1' & H2' & _).
    exists (A ++ A'), (B' ++ B). unfold node_reps, set_sb. rewrite Hi.
    unfold set_impl. cbn [impls with_impls]. split; [|split; [|reflexivity]].
    + rewrite H1, H1'. rewrite <- !app_assoc. reflexivity.
    + rewrite H2. cbn [i_nodes with_nodes]. rewrite H2'. rewrite <- !app_assoc. reflexivity.
Qed.

Lemma all_reps_set_sb l st sb sb' : get_sb l st = Some sb ->
  exists A B, all_reps st = A ++ sb_reps sb ++ B /\ all_reps (set_sb l sb' st) = A ++ sb_reps sb' ++ B.
Proof.
  intro H. destruct (set_sb_reps l st sb sb' H) as (A & B & HH). unfold all_reps. destruct l.
  - destruct HH as (H1 & H2 & H3). rewrite H1, H2, H3. exists A, (B ++ node_reps st).
    rewrite <- !app_assoc. split; reflexivity.
  - destruct HH as (H1 & H2 & H3). rewrite H1, H2, H3. exists (var_reps st ++ A), B.
    rewrite <- !app_assoc. split; reflexivity.
Qed.

Lemma get_sb_in_reps l st sb r : get_sb l st = Some sb -> sb_rep sb = Some r ->
  match l with LVar _ => In r (var_reps st) | LNode _ _ => In r (node_reps st) end.
Proof.
  intros H Hr. destruct (set_sb_reps l st sb sb H) as (A & B & HH).
  destruct l; destruct HH as (H1 & _); rewrite H1; unfold sb_reps; rewrite Hr;
    apply in_or_app; right; left; reflexivity.
Qed.

(* set_sb only touches slots (LVar) or impls (LNode) *)
Lemma set_sb_other_fields l sb st :
  sigs (set_sb l sb st) = sigs st /\ tracks (set_sb l sb st) = tracks st /\
  conns (set_sb l sb st) = conns st /\ sconns (set_sb l sb st) = sconns st /\
  next_rid (set_sb l sb st) = next_rid st /\ next_nid (set_sb l sb st) = next_nid st /\
  next_iid (set_sb l sb st) = next_iid st /\ next_ph (set_sb l sb st) = next_ph st.
Proof.
  destruct l as [s|i n]; unfold set_sb; [repeat split|].
  destruct (aget i (impls st)); repeat split.
Qed.

(* ------------------------------------------------------------------ *)
(* find_rep                                                             *)

Lemma find_node_in_nodup nd l : NoDup (ids l) -> In nd l -> find_node (n_id nd) l = Some nd.
Proof.
  unfold ids. induction l as [|x l IH]; cbn [map In find_node]; [tauto|].
  intros Hnd [E|Hi].
  - subst. rewrite nid_eqb_refl. reflexivity.
  - inversion Hnd as [|? ? Hx Hnd']; subst.
    destruct (nid_eqb_spec (n_id x) (n_id nd)) as [E|Hn].
    + exfalso. apply Hx. rewrite E. apply in_map. exact Hi.
    + apply IH; assumption.
Qed.

Lemma find_in_slots_sound rid l lc : find_in_slots rid l = Some lc ->
  exists s sb r, lc = LVar s /\ In (s, Some sb) l /\ sb_rep sb = Some r /\ r_id r = rid.
Proof.
  induction l as [|[s [sb|]] l IH]; cbn [find_in_slots]; [discriminate| |].
  - unfold sb_has_rid. destruct (sb_rep sb) as [r|] eqn:Hr.
    + destruct (N.eqb_spec (r_id r) rid) as [E|Hn]; intro H.
      * inversion H; subst. exists s, sb, r. repeat split; auto. left; reflexivity.
      * destruct (IH H) as (s' & sb' & r' & ? & ? & ? & ?). exists s', sb', r'. repeat split; auto. right; assumption.
    + intro H. destruct (IH H) as (s' & sb' & r' & ? & ? & ? & ?). exists s', sb', r'. repeat split; auto. right; assumption.
  - intro H. destruct (IH H) as (s' & sb' & r' & ? & ? & ? & ?). exists s', sb', r'. repeat split; auto. right; assumption.
Qed.

Lemma find_in_nodes_sound rid i l lc : find_in_nodes rid i l = Some lc ->
  exists nd r, lc = LNode i (n_id nd) /\ In nd l /\ sb_rep (n_sb nd) = Some r /\ r_id r = rid.
Proof.
  induction l as [|x l IH]; cbn [find_in_nodes]; [discriminate|].
  unfold sb_has_rid. destruct (sb_rep (n_sb x)) as [r|] eqn:Hr.
  - destruct (N.eqb_spec (r_id r) rid) as [E|Hn]; intro H.
    + inversion H; subst. exists x, r. repeat split; auto. left; reflexivity.
    + destruct (IH H) as (nd & r' & ? & ? & ? & ?). exists nd, r'. repeat split; auto. right; assumption.
  - intro H. destruct (IH H) as (nd & r' & ? & ? & ? & ?). exists nd, r'. repeat split; auto. right; assumption.
Qed.

Lemma find_in_impls_sound rid l lc : find_in_impls rid l = Some lc ->
  exists i im, In (i, im) l /\ find_in_nodes rid i (i_nodes im) = Some lc.
Proof.
  induction l as [|[i im] l IH]; cbn [find_in_impls]; [discriminate|].
  destruct (find_in_nodes rid i (i_nodes im)) as [lc'|] eqn:E; intro H.
  - inversion H; subst. exists i, im. split; [left; reflexivity|exact E].
  - destruct (IH H) as (i' & im' & ? & ?). exists i', im'. split; [right; assumption|assumption].
Qed.

Definition keys_ok (st : state) : Prop :=
  NoDup (akeys (slots st)) /\ NoDup (akeys (impls st)) /\
  (forall i im, aget i (impls st) = Some im -> NoDup (ids (i_nodes im))).

Lemma find_rep_sound rid st l : keys_ok st -> find_rep rid st = Some l ->
  exists sb r, get_sb l st = Some sb /\ sb_rep sb = Some r /\ r_id r = rid.
Proof.
  intros (Hs & Hi & Hn). unfold find_rep.
  destruct (find_in_slots rid (slots st)) as [lc|] eqn:E.
  - intro H. inversion H; subst lc. destruct (find_in_slots_sound _ _ _ E) as (s & sb & r & -> & Hin & Hr & Hid).
    exists sb, r. split; [|auto]. rewrite get_sb_var. rewrite (in_aget_nodup _ _ _ Hs Hin). reflexivity.
  - intro H. destruct (find_in_impls_sound _ _ _ H) as (i & im & Hin & H2).
    destruct (find_in_nodes_sound _ _ _ _ H2) as (nd & r & -> & Hnd & Hr & Hid).
    exists (n_sb nd), r. split; [|auto]. rewrite get_sb_node.
    pose proof (in_aget_nodup _ _ _ Hi Hin) as Hg. rewrite Hg.
    rewrite (find_node_in_nodup _ _ (Hn _ _ Hg) Hnd). reflexivity.
Qed.

Lemma find_in_slots_complete r l : In r (var_reps_l l) -> find_in_slots (r_id r) l <> None.
Proof.
  induction l as [|[s [sb|]] l IH]; cbn [find_in_slots]; unfold var_reps_l; cbn [flat_map snd slot_reps].
  - tauto.
  - intro H. apply in_app_or in H. unfold sb_has_rid, sb_reps, optl in *.
    destruct (sb_rep sb) as [r'|].
    + destruct (N.eqb_spec (r_id r') (r_id r)); [discriminate|].
      destruct H as [[->|[]]|H]; [congruence|]. apply IH. exact H.
    + destruct H as [[]|H]. apply IH. exact H.
  - cbn [app]. exact IH.
Qed.

Lemma find_in_nodes_complete r i l : In r (nodes_reps l) -> find_in_nodes (r_id r) i l <> None.
Proof.
  induction l as [|x l IH]; cbn [find_in_nodes]; unfold nodes_reps; cbn [flat_map].
  - tauto.
  - intro H. apply in_app_or in H. unfold sb_has_rid, sb_reps, optl in *.
    destruct (sb_rep (n_sb x)) as [r'|].
    + destruct (N.eqb_spec (r_id r') (r_id r)); [discriminate|].
      destruct H as [[->|[]]|H]; [congruence|]. apply IH. exact H.
    + destruct H as [[]|H]. apply IH. exact H.
Qed.

Lemma find_in_impls_complete r l : In r (node_reps_l l) -> find_in_impls (r_id r) l <> None.
Proof.
  induction l as [|[i im] l IH]; cbn [find_in_impls]; unfold node_reps_l; cbn [flat_map snd].
  - tauto.
  - intro H. apply in_app_or in H.
    destruct (find_in_nodes (r_id r) i (i_nodes im)) eqn:E; [discriminate|].
    destruct H as [H|H]; [|apply IH; exact H].
    exfalso. exact (find_in_nodes_complete _ i _ H E).
Qed.

Lemma find_rep_complete r st : In r (all_reps st) -> find_rep (r_id r) st <> None.
Proof.
  unfold all_reps, find_rep. intro H. apply in_app_or in H.
  destruct (find_in_slots (r_id r) (slots st)) eqn:E; [discriminate|].
  destruct H as [H|H].
  - exfalso. exact (find_in_slots_complete _ _ H E).
  - apply find_in_impls_complete. exact H.
Qed.

Lemma find_rep_none rid st : find_rep rid st = None -> forall r, In r (all_reps st) -> r_id r <> rid.
Proof.
  intros H r Hi E. subst rid. exact (find_rep_complete _ _ Hi H).
Qed.

(* ------------------------------------------------------------------ *)
(* demand (what functors ask of trackables) and callback-entry counting *)

Definition refs_of (r : rep) : list N := match r_fn r with Some f => f_refs f | None => [] end.
Definition demand := list (N * list N).
Definition dem_of (rs : list rep) : demand := map (fun r => (r_id r, refs_of r)) rs.

Fixpoint dem (t rid : N) (D : demand) : nat :=
  match D with
  | [] => O
  | (rid', refs) :: D' => ((if N.eqb rid' rid then count_occ N.eq_dec refs t else O) + dem t rid D')%nat
  end.

Lemma dem_app t rid a b : dem t rid (a ++ b) = (dem t rid a + dem t rid b)%nat.
Proof.
  induction a as [|[rid' refs] a IH]; cbn [dem app]; [reflexivity|]. rewrite IH. lia.
Qed.

Lemma dem_perm t rid a b : Permutation a b -> dem t rid a = dem t rid b.
Proof.
  induction 1 as [|[x xs] a b _ IH|[x xs] [y ys] a|a b c _ IH1 _ IH2]; cbn [dem]; try lia.
Qed.

Lemma dem_of_app a b : dem_of (a ++ b) = dem_of a ++ dem_of b.
Proof. apply map_app. Qed.

Lemma dem_pos_in t rid D : (0 < dem t rid D)%nat -> exists refs, In (rid, refs) D /\ In t refs.
Proof.
  induction D as [|[rid' refs] D IH]; cbn [dem]; [lia|].
  destruct (N.eqb_spec rid' rid) as [->|Hn].
  - destruct (count_occ N.eq_dec refs t) eqn:E.
    + intro H. destruct (IH H) as (x & ? & ?). exists x. split; [right|]; assumption.
    + intros _. exists refs. split; [left; reflexivity|].
      apply (count_occ_In N.eq_dec). lia.
  - intro H. destruct (IH H) as (x & ? & ?). exists x. split; [right|]; assumption.
Qed.

Lemma dem_in_pos t rid refs D : In (rid, refs) D -> In t refs -> (0 < dem t rid D)%nat.
Proof.
  induction D as [|[rid' refs'] D IH]; cbn [dem In]; [tauto|].
  intros [E|Hi] Ht.
  - inversion E; subst. rewrite N.eqb_refl. apply (count_occ_In N.eq_dec) in Ht. lia.
  - specialize (IH Hi Ht). lia.
Qed.

Definition cnt (rid : N) (l : list (N * bool)) : nat :=
  length (filter (fun e => N.eqb (fst e) rid && snd e) l).

Lemma cnt_app rid a b : cnt rid (a ++ b) = (cnt rid a + cnt rid b)%nat.
Proof. unfold cnt. rewrite filter_app, app_length. reflexivity. Qed.

Lemma cnt_cons rid d f l :
  cnt rid ((d, f) :: l) = ((if N.eqb d rid && f then 1 else 0) + cnt rid l)%nat.
Proof. unfold cnt. cbn [filter fst snd]. destruct (N.eqb d rid && f); reflexivity. Qed.

Lemma cnt_erase rid rid' l :
  cnt rid' (cb_erase_first rid l) = if N.eqb rid' rid then pred (cnt rid l) else cnt rid' l.
Proof.
  induction l as [|[d f] l IH]; cbn [cb_erase_first].
  - destruct (N.eqb rid' rid); reflexivity.
  - destruct (N.eqb_spec d rid) as [->|Hd]; destruct f; cbn [andb]; rewrite ?cnt_cons, ?IH;
      destruct (N.eqb_spec rid' rid) as [->|Hn]; rewrite ?cnt_cons, ?N.eqb_refl; cbn [andb];
      repeat match goal with |- context [N.eqb ?a ?b] => destruct (N.eqb_spec a b); try congruence end;
      cbn [andb]; rewrite ?andb_false_r; try lia.
Qed.

Lemma cnt_null rid rid' l :
  cnt rid' (cb_null_first rid l) = if N.eqb rid' rid then pred (cnt rid l) else cnt rid' l.
Proof.
  induction l as [|[d f] l IH]; cbn [cb_null_first].
  - destruct (N.eqb rid' rid); reflexivity.
  - destruct (N.eqb_spec d rid) as [->|Hd]; destruct f; cbn [andb]; rewrite ?cnt_cons, ?IH;
      destruct (N.eqb_spec rid' rid) as [->|Hn]; rewrite ?cnt_cons, ?N.eqb_refl; cbn [andb];
      repeat match goal with |- context [N.eqb ?a ?b] => destruct (N.eqb_spec a b); try congruence end;
      cbn [andb]; rewrite ?andb_false_r; try lia.
Qed.

Lemma null_length rid l : length (cb_null_first rid l) = length l.
Proof.
  induction l as [|[d f] l IH]; cbn [cb_null_first]; [reflexivity|].
  destruct (N.eqb d rid && f); cbn [length]; [reflexivity|]. rewrite IH. reflexivity.
Qed.

Lemma null_nth rid l j d f : nth_error l j = Some (d, f) ->
  exists f', nth_error (cb_null_first rid l) j = Some (d, f') /\ (f = false -> f' = false).
Proof.
  revert j. induction l as [|[d0 f0] l IH]; intros [|j]; cbn [nth_error cb_null_first]; try discriminate.
  - intro H. inversion H; subst. destruct (N.eqb d rid && f) eqn:E; cbn [nth_error].
    + exists false. split; reflexivity.
    + exists f. split; auto.
  - intro H. destruct (N.eqb d0 rid && f0); cbn [nth_error]; [exists f; split; auto|]. apply IH. exact H.
Qed.

Lemma cnt_zero_all_false rid l : (forall j d f, nth_error l j = Some (d, f) -> f = false) -> cnt rid l = O.
Proof.
  induction l as [|[d f] l IH]; intro H; [reflexivity|].
  rewrite cnt_cons. rewrite (H O d f eq_refl), andb_false_r. cbn [Nat.add]. apply IH.
  intros j d' f' Hj. exact (H (S j) d' f' Hj).
Qed.

Lemma cnt_pos_nth rid l j : nth_error l j = Some (rid, true) -> (0 < cnt rid l)%nat.
Proof.
  revert j. induction l as [|[d f] l IH]; intros [|j]; cbn [nth_error]; try discriminate.
  - intro H. inversion H; subst. rewrite cnt_cons, N.eqb_refl. cbn [andb]. lia.
  - intro H. rewrite cnt_cons. specialize (IH _ H). lia.
Qed.

(* ------------------------------------------------------------------ *)
(* connection pointers                                                  *)

Lemma get_set_connptr w w' p st :
  get_connptr w' (set_connptr w p st) = if wref_eqb w' w then Some p else get_connptr w' st.
Proof.
  destruct w as [c|k], w' as [c'|k']; cbn [wref_eqb set_connptr get_connptr conns sconns with_conns with_sconns];
    try reflexivity; rewrite aget_aset.
  - destruct (N.eqb c' c); reflexivity.
  - destruct (N.eqb k' k); reflexivity.
Qed.

Lemma get_connptr_null_watchers ws : forall st w,
  get_connptr w (null_watchers ws st) =
  if existsb (wref_eqb w) ws then match get_connptr w st with Some _ => Some None | None => None end
  else get_connptr w st.
Proof.
  induction ws as [|w0 ws IH]; intros st w; cbn [null_watchers existsb]; [reflexivity|].
  rewrite IH. destruct (get_connptr w0 st) as [p0|] eqn:E0.
  - rewrite get_set_connptr. destruct (wref_eqb_spec w w0) as [->|Hne]; cbn [orb].
    + rewrite E0. destruct (existsb (wref_eqb w0) ws); reflexivity.
    + reflexivity.
  - destruct (wref_eqb_spec w w0) as [->|Hne]; cbn [orb]; [|reflexivity].
    rewrite E0. destruct (existsb (wref_eqb w0) ws); reflexivity.
Qed.

(* a notification never brings a destroyed handle back, nor destroys one *)
Lemma get_connptr_null_watchers_dom ws st w :
  get_connptr w (null_watchers ws st) <> None <-> get_connptr w st <> None.
Proof.
  rewrite get_connptr_null_watchers. destruct (existsb (wref_eqb w) ws); [|reflexivity].
  destruct (get_connptr w st); split; intro H; try discriminate; exact H.
Qed.

Lemma existsb_wref w ws : existsb (wref_eqb w) ws = true <-> In w ws.
Proof.
  rewrite existsb_exists. split.
  - intros (x & Hx & E). apply wref_eqb_eq in E. subst. exact Hx.
  - intro H. exists w. split; [exact H|]. apply wref_eqb_eq. reflexivity.
Qed.

Lemma null_watchers_fields ws : forall st,
  slots (null_watchers ws st) = slots st /\ sigs (null_watchers ws st) = sigs st /\
  impls (null_watchers ws st) = impls st /\ tracks (null_watchers ws st) = tracks st /\
  next_rid (null_watchers ws st) = next_rid st /\ next_nid (null_watchers ws st) = next_nid st /\
  next_iid (null_watchers ws st) = next_iid st /\ next_ph (null_watchers ws st) = next_ph st.
Proof.
  induction ws as [|w ws IH]; intro st; cbn [null_watchers]; [repeat split|].
  destruct (IH (match get_connptr w st with Some _ => set_connptr w None st | None => st end)) as (H1 & H2 & H3 & H4 & H5 & H6 & H7 & H8).
  rewrite H1, H2, H3, H4, H5, H6, H7, H8. destruct (get_connptr w st); [|repeat split]. destruct w; repeat split.
Qed.

Lemma null_watchers_shared ws : forall st, shared (null_watchers ws st) = shared st.
Proof.
  induction ws as [|w ws IH]; intro st; cbn [null_watchers]; [reflexivity|].
  rewrite IH. destruct (get_connptr w st); [|reflexivity]. destruct w; reflexivity.
Qed.

Lemma set_sb_shared l sb st : shared (set_sb l sb st) = shared st.
Proof.
  destruct l as [s|i n]; unfold set_sb; [reflexivity|]. destruct (aget i (impls st)); reflexivity.
Qed.
