(* Independence of the nesting bound: a run that does not hit the bound (ErrFuel) gives the same
   result under every larger bound.

   Route: a refinement relation [rec_le] between two instances of the open-recursion argument
   [rec], lifted function by function through the interpreter of SigCore.v (every function that
   mentions [rec], in definition order), then through the fuel-indexed knot. *)
From Coq Require Import List NArith Bool Arith.
Import ListNotations.
Require Import Util SigCore SigSpec.

Definition rec_le (rec1 rec2 : callee -> state -> outcome N) : Prop :=
  forall c st, rec1 c st <> Fail ErrFuel -> rec2 c st = rec1 c st.

Lemma rec_le_refl r : rec_le r r.
Proof. intros c st _. reflexivity. Qed.

Lemma rec_le_trans a b c : rec_le a b -> rec_le b c -> rec_le a c.
Proof.
  intros Hab Hbc x st Hne.
  pose proof (Hab x st Hne) as E1.
  assert (Hb : b x st <> Fail ErrFuel) by (rewrite E1; exact Hne).
  rewrite (Hbc x st Hb). exact E1.
Qed.

(* ---- tactics ---- *)

(* the sub-call at the head of H cannot be Fail ErrFuel, since every match propagates Fail e *)
Ltac side H :=
  let X := fresh "X" in intro X; rewrite X in H; apply H; reflexivity.

Ltac head_scrut T :=
  lazymatch T with
  | match ?X with _ => _ end => head_scrut X
  | _ => T
  end.

(* H : F rec1 <> Fail ErrFuel |- F rec2 = F rec1.
   Walk down the matches of F: scrutinees that do not mention [r1] are destructed on both sides;
   a scrutinee that mentions [r1] is a sub-call: show it is not Fail ErrFuel, rewrite the rec2
   version in the goal with [tac], destruct. Leaves that are not closed are left to the caller. *)
Ltac go H r1 tac :=
  first
    [ reflexivity
    | solve [auto]
    | lazymatch type of H with
      | (match ?X0 with _ => _ end) <> _ =>
          let X := head_scrut X0 in
          lazymatch X with
          | context [r1] =>
              let E := fresh "E" in
              assert (E : X <> Fail ErrFuel) by side H;
              tac E; clear E; destruct X; go H r1 tac
          | _ => destruct X eqn:?; go H r1 tac
          end
      | _ => idtac
      end ].

(* ---- with_frame does not mention rec, but its body does ---- *)
Lemma with_frame_le {A} i (b1 b2 : nid -> nid -> nat -> state -> outcome A) st :
  (forall f p n s, b1 f p n s <> Fail ErrFuel -> b2 f p n s = b1 f p n s) ->
  with_frame i b1 st <> Fail ErrFuel -> with_frame i b2 st = with_frame i b1 st.
Proof.
  intros Hb H. unfold with_frame in H |- *.
  go H b1 ltac:(fun E => rewrite (Hb _ _ _ _ E)).
Qed.

Section Mono.
  Variable prog : program.
  Variables rec1 rec2 : callee -> state -> outcome N.
  Hypothesis L : rec_le rec1 rec2.

  Lemma invoke_functor_le f arg st :
    invoke_functor rec1 f arg st <> Fail ErrFuel ->
    invoke_functor rec2 f arg st = invoke_functor rec1 f arg st.
  Proof.
    intros H. unfold invoke_functor in H |- *.
    destruct (f_fwd f) as [g|].
    - apply L. exact H.
    - go H rec1 ltac:(fun E => rewrite (L _ _ E)).
  Qed.

  Lemma invoke_at_le l arg st :
    invoke_at rec1 l arg st <> Fail ErrFuel ->
    invoke_at rec2 l arg st = invoke_at rec1 l arg st.
  Proof.
    intros H. unfold invoke_at in H |- *.
    destruct (get_rep l st) as [r|]; [|reflexivity].
    destruct (r_fn r) as [f|]; [|reflexivity].
    apply invoke_functor_le. exact H.
  Qed.

  Lemma emit_loop_le fuel : forall i cur ph arg last st,
    emit_loop rec1 fuel i cur ph arg last st <> Fail ErrFuel ->
    emit_loop rec2 fuel i cur ph arg last st = emit_loop rec1 fuel i cur ph arg last st.
  Proof.
    induction fuel as [|n IH]; intros i cur ph arg last st H.
    - reflexivity.
    - cbn [emit_loop] in H |- *.
      go H rec1 ltac:(fun E => rewrite (invoke_at_le _ _ _ E)).
  Qed.

  Lemma cur_deref_le i arg c st :
    cur_deref rec1 i arg c st <> Fail ErrFuel ->
    cur_deref rec2 i arg c st = cur_deref rec1 i arg c st.
  Proof.
    intros H. unfold cur_deref in H |- *.
    go H rec1 ltac:(fun E => rewrite (invoke_at_le _ _ _ E)).
  Qed.

  Lemma acc_walk_le fuel : forall i arg lastpos z c a st,
    acc_walk rec1 fuel i arg lastpos z c a st <> Fail ErrFuel ->
    acc_walk rec2 fuel i arg lastpos z c a st = acc_walk rec1 fuel i arg lastpos z c a st.
  Proof.
    induction fuel as [|n IH]; intros i arg lastpos z c a st H.
    - reflexivity.
    - cbn [acc_walk] in H |- *.
      go H rec1 ltac:(fun E => rewrite (cur_deref_le _ _ _ _ E)).
  Qed.

  Lemma acc_walk_rev_le fuel : forall i arg firstpos c a st,
    acc_walk_rev rec1 fuel i arg firstpos c a st <> Fail ErrFuel ->
    acc_walk_rev rec2 fuel i arg firstpos c a st = acc_walk_rev rec1 fuel i arg firstpos c a st.
  Proof.
    induction fuel as [|n IH]; intros i arg firstpos c a st H.
    - reflexivity.
    - cbn [acc_walk_rev] in H |- *.
      go H rec1 ltac:(fun E => rewrite (cur_deref_le _ _ _ _ E)).
  Qed.

  Lemma acc_run_le n i arg fc lc ops : forall cs a st,
    acc_run rec1 n i arg fc lc ops cs a st <> Fail ErrFuel ->
    acc_run rec2 n i arg fc lc ops cs a st = acc_run rec1 n i arg fc lc ops cs a st.
  Proof.
    induction ops as [|o rest IH]; intros cs a st H.
    - reflexivity.
    - destruct o; cbn [acc_run] in H |- *;
        go H rec1 ltac:(fun E =>
          first [ rewrite (cur_deref_le _ _ _ _ E)
                | rewrite (acc_walk_le _ _ _ _ _ _ _ _ E)
                | rewrite (acc_walk_rev_le _ _ _ _ _ _ _ E) ]).
  Qed.

  Lemma emit_sig_le g arg st :
    emit_sig prog rec1 g arg st <> Fail ErrFuel ->
    emit_sig prog rec2 g arg st = emit_sig prog rec1 g arg st.
  Proof.
    intros H. unfold emit_sig in H |- *.
    destruct (live_sig g st) as [go|]; [|reflexivity].
    destruct (gk_acc (g_kind go)) as [a|].
    - destruct (g_impl go) as [i|].
      + apply with_frame_le; [|exact H].
        intros f p n s Hb. apply acc_run_le. exact Hb.
      + apply acc_run_le. exact H.
    - destruct (g_impl go) as [i|]; [|reflexivity].
      destruct (aget i (impls st)) as [im|]; [|reflexivity].
      destruct (i_nodes im); [reflexivity|].
      apply with_frame_le; [|exact H].
      intros f p n0 s Hb. apply emit_loop_le. exact Hb.
  Qed.

  Lemma step_le o st :
    step prog rec1 o st <> Fail ErrFuel ->
    step prog rec2 o st = step prog rec1 o st.
  Proof.
    intros H. destruct o; try reflexivity.
    - (* OSCall *)
      cbv beta iota delta [step] in H |- *.
      go H rec1 ltac:(fun E => rewrite (invoke_at_le _ _ _ E)).
    - (* OGEmit *)
      cbv beta iota delta [step] in H |- *.
      go H rec1 ltac:(fun E => rewrite (emit_sig_le _ _ _ E)).
  Qed.

  Lemma run_ops_le ops : forall st,
    run_ops prog rec1 ops st <> Fail ErrFuel ->
    run_ops prog rec2 ops st = run_ops prog rec1 ops st.
  Proof.
    induction ops as [|o r IH]; intros st H.
    - reflexivity.
    - cbn [run_ops] in H |- *.
      go H rec1 ltac:(fun E => rewrite (step_le _ _ E)).
  Qed.

  Lemma run_callee_le c st :
    run_callee prog rec1 c st <> Fail ErrFuel ->
    run_callee prog rec2 c st = run_callee prog rec1 c st.
  Proof.
    intros H. destruct c as [b arg|g arg]; cbv beta iota delta [run_callee] in H |- *.
    - go H rec1 ltac:(fun E => rewrite (run_ops_le _ _ E)).
    - apply emit_sig_le. exact H.
  Qed.
End Mono.

(* ---- the knot ---- *)

Lemma run_callee_fuel_S p f c st :
  run_callee_fuel p (S f) c st = run_callee p (run_callee_fuel p f) c st.
Proof. reflexivity. Qed.

Lemma rec_le_fuel_S p f : rec_le (run_callee_fuel p f) (run_callee_fuel p (S f)).
Proof.
  induction f as [|f IH]; intros c st H.
  - exfalso. apply H. reflexivity.
  - rewrite (run_callee_fuel_S p (S f)). rewrite (run_callee_fuel_S p f) in H |- *.
    apply run_callee_le; [exact IH | exact H].
Qed.

Lemma rec_le_fuel p f f' : (f <= f')%nat -> rec_le (run_callee_fuel p f) (run_callee_fuel p f').
Proof.
  intros Hle. induction Hle as [|m Hle IH].
  - apply rec_le_refl.
  - eapply rec_le_trans; [exact IH | apply rec_le_fuel_S].
Qed.

Lemma fuel_monotone_callee : S_fuel_monotone_callee.
Proof.
  intros p fuel fuel' c st r Hle Hr Hne. subst r.
  apply (rec_le_fuel p fuel fuel' Hle). exact Hne.
Qed.

(* top level, in one statement *)
Lemma run_top_le p fuel fuel' ops : (fuel <= fuel')%nat -> forall st,
  run_top p fuel ops st <> Err ErrFuel -> run_top p fuel' ops st = run_top p fuel ops st.
Proof.
  intros Hle. pose proof (rec_le_fuel p fuel fuel' Hle) as L.
  induction ops as [|o r IH]; intros st H.
  - reflexivity.
  - cbn [run_top] in H |- *.
    assert (E : step p (run_callee_fuel p fuel) o st <> Fail ErrFuel).
    { intro X. rewrite X in H. apply H. reflexivity. }
    rewrite (step_le p _ _ L o st E).
    destruct (step p (run_callee_fuel p fuel) o st) as [st1 u|st1|e]; [| |reflexivity].
    + unfold rbind in H |- *. destruct (gc_shared p st1) as [st2|e]; [|reflexivity].
      apply IH. exact H.
    + unfold rbind in H |- *. destruct (gc_shared p (emit_ev EExn st1)) as [st2|e]; [|reflexivity].
      apply IH. exact H.
Qed.

Lemma fuel_monotone : S_fuel_monotone.
Proof.
  intros p fuel fuel' ops st Hle. split.
  - intros st' H. rewrite (run_top_le p fuel fuel' ops Hle st); [exact H|].
    rewrite H. discriminate.
  - intros e H Hne. rewrite (run_top_le p fuel fuel' ops Hle st); [exact H|].
    rewrite H. intro X. apply Hne. injection X as X. exact X.
Qed.

Lemma reachable_mono : S_reachable_mono.
Proof.
  intros p fuel fuel' st Hle [ops H]. exists ops.
  exact (proj1 (fuel_monotone p fuel fuel' ops st0 Hle) st H).
Qed.

Print Assumptions fuel_monotone_callee.
Print Assumptions fuel_monotone.
Print Assumptions reachable_mono.
