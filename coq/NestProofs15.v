(* NestProofs15.v -- NSNew and the assignments; the step theorem *)
From Coq Require Import List NArith Bool Arith Lia Permutation.
Import ListNotations.
Require Import Util NestModel NestSpec NestProofs1 NestProofs2 NestProofs3 NestProofs4 NestProofs5 NestProofs6 NestProofs7 NestProofs8 NestProofs9 NestProofs10 NestProofs11 NestProofs12 NestProofs13 NestProofs14.
Local Open Scope N_scope.

(* ---- NSNew ---- *)
Lemma step_snew : forall st s items, NInv st -> exists st', nstep (NSNew s items) st = NOk st' /\ NInv st'.
Proof.
  intros st s items H. cbn [nstep].
  destruct (fresh_var s st && forallb (ispec_ok st) items) eqn:Hc; [|apply nskip_ok; exact H].
  apply andb_true_iff in Hc. destruct Hc as [Hfresh Hok].
  destruct (build_items_ok items None [] st H) as (its & stb & Eb & HGb & Fb & Nb & Hpb & Htb & Hsb).
  { intros p Hp. apply ispec_ok_live. rewrite forallb_forall in Hok. apply Hok. exact Hp. }
  rewrite Eb. cbn [nbind fst snd].
  set (tmp := mkRep 0 true (Some its) None).
  assert (Hreps : reps_of tmp = tmp :: RL (kids its)).
  { rewrite reps_of_eq. cbn [items_of tmp r_fn]. rewrite reps_items_kids. reflexivity. }
  assert (Hcl : cl_ok stb tmp).
  { intros x Hx. rewrite Hreps in Hx. destruct Hx as [<-|Hx].
    - split; [intros _; discriminate|]. cbn [items_of tmp r_fn]. split.
      + intros t Ht. apply (VFrame_live_tr st stb t Fb). apply Htb. exact Ht.
      + intros s0 Hs0. apply (VFrame_live_var st stb s0 Fb). apply Hsb. exact Hs0.
    - destruct Nb as (_ & _ & _ & N4). split; [intros _; exact (proj2 (N4 x Hx))|]. split.
      + intros t Ht. apply (gi_btrack_live _ _ _ _ HGb (r_id x) t). apply in_or_app. left. apply in_bindings. exists x. repeat split; assumption.
      + intros s0 Hs0. apply (gi_bref_live _ _ _ _ HGb (r_id x) s0). apply in_or_app. left. apply in_bindings. exists x. repeat split; assumption. }
  destruct (clone_rep_ok tmp None _ stb HGb eq_refl Hcl) as (c & stc & Ec & HGc & Fc & Nc & _ & Hpc & _).
  rewrite Ec. cbn [nbind fst snd].
  rewrite drop_rep_unbind, Hreps. cbn [bindings flat_map]. fold (bindings (RL (kids its))). unfold binds_of at 1. cbn [r_id tmp items_of r_fn].
  rewrite unbind_list_app.
  destruct (unbind_zero_ok its None [] _ stc HGc) as (stz & Ez & HGz & Fz).
  { intros t Ht. apply (VFrame_live_tr stb stc t Fc). apply (VFrame_live_tr st stb t Fb). apply Htb. exact Ht. }
  { intros s0 Hs0. apply (VFrame_live_var stb stc s0 Fc). apply (VFrame_live_var st stb s0 Fb). apply Hsb. exact Hs0. }
  rewrite Ez. cbn [nbind].
  assert (HGz' : GInv None [] (bindings (RL (kids its)) ++ bindings (reps_of c)) stz).
  { eapply ginv_perm; [|exact HGz]. rewrite app_nil_r. apply Permutation_app_comm. }
  destruct (unbind_list_ok2 None [] _ _ stz HGz') as (st2 & E2 & HG2 & F2).
  rewrite E2. cbn [nbind]. eexists. split; [reflexivity|].
  pose proof (VFrame_trans _ _ _ (if_v _ _ Fz) (if_v _ _ F2)) as Fc2.
  pose proof (VFrame_trans _ _ _ Fc Fc2) as Fb2.
  pose proof (VFrame_trans _ _ _ Fb Fb2) as F02.
  apply (ginv_insert' None [] st2 s c).
  - rewrite app_nil_r. exact HG2.
  - apply (vkind_cur_reps s st st2 (vf_v _ _ F02)). apply fresh_cur_reps. exact Hfresh.
  - eapply (wfnew_of_NewF None [] _ stb st2); [exact HGb | exact Nc | apply N.le_refl | | exact (vf_ids _ _ Fb2)].
    rewrite (if_next _ _ F2), (if_next _ _ Fz). apply N.le_refl.
  - intros p Hp. rewrite Hpc in Hp. discriminate.
Qed.

(* ---- replacing the rep of a variable (slot_base::operator=) ---- *)
Lemma bindings_reps_spk : forall p c, bindings (reps_of (set_parent p c)) = bindings (reps_of c).
Proof. intros p c. rewrite reps_of_spk, (reps_of_eq c). reflexivity. Qed.

Lemma cur_reps_set_null : forall d st, cur_reps d (set_var d (Some None) st) = [].
Proof. intros d st. unfold cur_reps, set_var. cbn [vars with_vars]. rewrite aget_aset_same. reflexivity. Qed.

Lemma replace_ok : forall st1 d old newrep,
  GInv None [] (bindings (reps_of newrep) ++ []) st1 -> live_var d st1 = Some (Some old) -> WfNew st1 newrep ->
  exists st', drop_rep old (set_var d (Some (Some (set_parent (r_parent old) newrep))) st1) = NOk st' /\ NInv st'.
Proof.
  intros st1 d old newrep HG1 Hd Hwf.
  set (newrep' := set_parent (r_parent old) newrep).
  set (stm := set_var d (Some None) st1).
  pose proof (ginv_remove None [] _ st1 d old (Some None) HG1 Hd (or_intror eq_refl)) as HGm.
  assert (HGm' : GInv None [] (bindings (reps_of newrep') ++ bindings (reps_of old)) stm).
  { unfold newrep'. rewrite bindings_reps_spk. eapply ginv_perm; [|apply HGm; intros; discriminate].
    rewrite app_nil_r. apply Permutation_app_comm. }
  pose proof (gi_nodup _ _ _ _ HG1) as Hnd1.
  destruct (all_reps_set_var d st1) as (L1 & L2 & EU & EU'). rewrite (cur_reps_live d st1 old Hd) in EU.
  specialize (EU' (Some None)). cbn [vreps app] in EU'. fold stm in EU'.
  assert (Hincl : incl (ids (all_reps stm)) (ids (all_reps st1))).
  { rewrite EU, EU'. rewrite !ids_app. intros i Hi. apply in_app_or in Hi. apply in_or_app.
    destruct Hi as [Hi|Hi]; [left; exact Hi | right; apply in_or_app; right; exact Hi]. }
  assert (Hwf' : WfNew stm newrep').
  { apply wfnew_set_parent. eapply wfnew_frame; [exact Hwf | exact Hincl | apply N.le_refl]. }
  assert (Hins : GInv None [] (bindings (reps_of old)) (set_var d (Some (Some newrep')) stm)).
  { apply (ginv_insert' None _ stm d newrep' HGm' (cur_reps_set_null d st1) Hwf').
    intros p Hp. unfold newrep' in Hp. cbn [set_parent r_parent] in Hp.
    pose proof (live_var_in _ _ _ Hd) as Hold_in.
    destruct (gi_parent _ _ _ _ HG1 old p Hold_in Hp) as [(q & Hq & Hw)|(s' & Hs' & Hw)].
    - destruct Hw as [Hw|(s' & Hs' & Hw)].
      + exfalso. destruct (lk_some _ _ _ Hq) as [Hq_in _]. exact (top_not_kid st1 d old q old Hnd1 Hd Hq_in Hw eq_refl).
      + assert (s' = d) by (eapply (var_inj st1 s' d old old); try eassumption; reflexivity). subst s'.
        destruct (lk_some _ _ _ Hq) as [_ Hq_id].
        pose proof (lk_mid p L1 (reps_of old) L2) as Hmid. rewrite <- EU in Hmid. specialize (Hmid Hnd1). rewrite Hq in Hmid.
        destruct Hmid as [(HqD & _ & _)|(_ & HlkS & _)].
        * right. apply in_or_app. right. apply in_bindings. exists q. repeat split; assumption.
        * left. exists q. rewrite EU'. split; assumption.
    - assert (s' = d) by (eapply (var_inj st1 s' d old old); try eassumption; reflexivity). subst s'.
      right. apply in_or_app. left. unfold newrep'. rewrite bindings_reps_spk. rewrite app_nil_r in Hs'. exact Hs'. }
  unfold stm in Hins. rewrite set_var_twice in Hins.
  assert (Hins' : GInv None [] (bindings (reps_of old) ++ []) (set_var d (Some (Some newrep')) st1)) by (rewrite app_nil_r; exact Hins).
  destruct (drop_rep_ok2 None [] [] _ old Hins') as (st' & E & HG' & _). exists st'. split; [exact E | exact HG'].
Qed.

(* both assignments; the flag mv says whether a move is allowed *)
Definition assign_body (mv : bool) (d s : N) (st : nstate) : nres nstate :=
  match live_var d st, live_var s st with
  | Some dst, Some src =>
      let same := match dst, src with
                  | None, None => true
                  | Some a, Some b => N.eqb (r_id a) (r_id b)
                  | _, _ => false
                  end in
      if same then NOk st
      else
        let src_empty := match src with None => true | Some r => negb (r_valid r) end in
        if src_empty then
          match dst with
          | None => NOk st
          | Some r =>
              st1 <-- disconnect_rep (nfuel st) (r_id r) st ;;;
              match live_var d st1 with
              | Some (Some r1) =>
                  if N.eqb (r_id r1) (r_id r)
                  then drop_rep r1 (set_var d (Some None) st1)
                  else NErr NErrUAF
              | _ => NErr NErrUAF
              end
          end
        else
          match src with
          | None => NOk st
          | Some rs =>
              let really_move := if mv then match r_parent rs with None => true | Some _ => false end else false in
              nr <-- (if really_move then NOk (rs, set_var s (Some None) st) else clone_rep rs st) ;;;
              let (newrep, st1) := nr in
              match live_var d st1 with
              | Some (Some old) =>
                  let newrep' := set_parent (r_parent old) newrep in
                  drop_rep old (set_var d (Some (Some newrep')) st1)
              | Some None => NOk (set_var d (Some (Some newrep)) st1)
              | None => NErr NErrUAF
              end
          end
  | _, _ => nskip st
  end.

Lemma nstep_assign : forall d s st, nstep (NSAssign d s) st = assign_body false d s st.
Proof. reflexivity. Qed.
Lemma nstep_move_assign : forall d s st, nstep (NSMoveAssign d s) st = assign_body true d s st.
Proof. reflexivity. Qed.

Lemma put_new_ok : forall st1 d newrep dst,
  GInv None [] (bindings (reps_of newrep) ++ []) st1 -> WfNew st1 newrep -> r_parent newrep = None ->
  live_var d st1 = Some dst ->
  exists st', match live_var d st1 with
              | Some (Some old) => drop_rep old (set_var d (Some (Some (set_parent (r_parent old) newrep))) st1)
              | Some None => NOk (set_var d (Some (Some newrep)) st1)
              | None => NErr NErrUAF
              end = NOk st' /\ NInv st'.
Proof.
  intros st1 d newrep dst HG1 Hwf Hp Hd. rewrite Hd. destruct dst as [old|].
  - apply replace_ok; assumption.
  - eexists. split; [reflexivity|]. apply (ginv_insert' None [] st1 d newrep HG1); [|exact Hwf|].
    + unfold live_var in Hd. unfold cur_reps. destruct (aget d (vars st1)) as [[[x|]|]|]; try discriminate; reflexivity.
    + intros p Hp'. rewrite Hp in Hp'. discriminate.
Qed.

Lemma assign_ok : forall mv st d s, NInv st -> exists st', assign_body mv d s st = NOk st' /\ NInv st'.
Proof.
  intros mv st d s H. unfold assign_body.
  destruct (live_var d st) as [dst|] eqn:Hd; [|apply nskip_ok; exact H].
  destruct (live_var s st) as [src|] eqn:Hs; [|apply nskip_ok; exact H].
  cbv zeta.
  destruct (match dst with Some a => match src with Some b => N.eqb (r_id a) (r_id b) | None => false end
                         | None => match src with Some _ => false | None => true end end) eqn:Hsame.
  { exists st. split; [reflexivity | exact H]. }
  destruct (match src with Some r => negb (r_valid r) | None => true end) eqn:Hempty.
  - (* the source is empty: delete_rep_with_check *)
    destruct dst as [r|]; [|exists st; split; [reflexivity | exact H]].
    destruct (disconnect_ok (nfuel st) (r_id r) None st H (np_le st)) as (st1 & E1 & HG1 & F1).
    { rewrite (lk_in _ r (gi_nodup _ _ _ _ H) (live_var_in _ _ _ Hd)). discriminate. }
    rewrite E1. cbn [nbind].
    assert (Hk : vkind d st1 = Some (Some (Some (r_id r)))).
    { rewrite (vf_v _ _ (if_v _ _ F1) d). apply live_var_kind_rep. exists r. split; [exact Hd | reflexivity]. }
    apply live_var_kind_rep in Hk. destruct Hk as (r1 & Hd1 & Eid). rewrite Hd1. rewrite Eid, N.eqb_refl.
    assert (HGm : GInv None [] (bindings (reps_of r1) ++ []) (set_var d (Some None) st1)).
    { apply (ginv_remove None [] [] st1 d r1 (Some None) HG1 Hd1 (or_intror eq_refl)). intros; discriminate. }
    destruct (drop_rep_ok2 None [] [] _ r1 HGm) as (st' & E & HG' & _). exists st'. split; [exact E | exact HG'].
  - destruct src as [rs|]; [|discriminate]. apply negb_false_iff in Hempty.
    pose proof (live_var_in _ _ _ Hs) as Hrs_in.
    destruct (if mv then match r_parent rs with None => true | Some _ => false end else false) eqn:Hmv.
    + (* really move *)
      cbn [nbind].
      assert (Hprs : r_parent rs = None) by (destruct mv; [destruct (r_parent rs); [discriminate | reflexivity] | discriminate]).
      assert (Hds : d <> s).
      { intros ->. rewrite Hs in Hd. injection Hd as <-. rewrite N.eqb_refl in Hsame. discriminate. }
      assert (HG1 : GInv None [] (bindings (reps_of rs) ++ []) (set_var s (Some None) st)).
      { apply (ginv_remove None [] [] st s rs (Some None) H Hs (or_intror eq_refl)). intros; discriminate. }
      assert (Hd1 : live_var d (set_var s (Some None) st) = Some dst).
      { rewrite live_var_set_var. assert (E : N.eqb d s = false) by (apply N.eqb_neq; exact Hds). rewrite E. exact Hd. }
      eapply put_new_ok; [exact HG1 | | exact Hprs | exact Hd1].
      eapply wfnew_of_removed; [exact H | exact Hs | right; reflexivity].
    + destruct (clone_rep_ok rs None [] st H Hempty (cl_ok_of_ginv _ _ _ _ rs H Hrs_in)) as (c & st1 & E1 & HG1 & F1 & N1 & _ & Hpc & _).
      rewrite E1. cbn [nbind].
      assert (Hd1 : exists dst1, live_var d st1 = Some dst1).
      { destruct (live_var d st1) as [x|] eqn:E; [exists x; reflexivity|]. exfalso.
        apply (proj2 (VFrame_live_var st st1 d F1)); [rewrite Hd; discriminate | exact E]. }
      destruct Hd1 as (dst1 & Hd1).
      eapply put_new_ok; [exact HG1 | | exact Hpc | exact Hd1].
      eapply (wfnew_of_NewF None [] [] st st1); [exact H | exact N1 | apply N.le_refl | apply N.le_refl | exact (vf_ids _ _ F1)].
Qed.

(* ---- every operation ---- *)
Theorem step_ok : forall st o, NInv st -> user_ok o st = true -> exists st', nstep o st = NOk st' /\ NInv st'.
Proof.
  intros st o H Hu. destruct o as [t|t|s items|s|d s|d s|d s|d s|s|s|s].
  - apply step_tnew; exact H.
  - destruct (live_tr t st) as [x|] eqn:Hx.
    + destruct (step_tdel_live st t x H Hx) as (st2 & E & HG' & _). eexists. split; [exact E | exact HG'].
    + cbn [nstep]. rewrite Hx. apply nskip_ok. exact H.
  - apply step_snew; exact H.
  - apply step_sempty; exact H.
  - apply step_scopy; exact H.
  - apply step_smove; exact H.
  - rewrite nstep_assign. apply assign_ok; exact H.
  - rewrite nstep_move_assign. apply assign_ok; exact H.
  - apply step_sdisc; exact H.
  - apply step_sdel; assumption.
  - apply step_squery; exact H.
Qed.

Lemma ninv0 : NInv nst0.
Proof.
  constructor; cbn; try (intros; contradiction); try constructor; try discriminate.
  all: try (intros; discriminate).
Qed.

Theorem nreach_inv : forall st, nreach st -> NInv st.
Proof.
  intros st H. induction H as [|st o st' Hr IH Hu Hs]; [exact ninv0|].
  destruct (step_ok st o IH Hu) as (st'' & E & HG). rewrite Hs in E. injection E as <-. exact HG.
Qed.
