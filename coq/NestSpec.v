(* NestSpec.v -- statements about NestModel.v (slots holding / referring to other slots).
   Statements only; proofs are in NestProofs.v; registered under Properties_C09 / C02 / C06. *)
From Coq Require Import List NArith Bool.
Import ListNotations.
Require Import Util NestModel.
Local Open Scope N_scope.

(* every rep of the forest: a rep, then the reps of the slots its functor holds by value *)
Fixpoint reps_of (r : rep) : list rep :=
  r :: match r_fn r with
       | None => []
       | Some l => (fix go (l : list item) : list rep :=
                      match l with
                      | [] => []
                      | IVal (Some r') :: tl => reps_of r' ++ go tl
                      | _ :: tl => go tl
                      end) l
       end.
Definition all_reps (st : nstate) : list rep :=
  flat_map (fun kv => match kv with (_, Some (Some r)) => reps_of r | _ => [] end) (vars st).
Definition items_of (r : rep) : list item := match r_fn r with Some l => l | None => [] end.

(* some functor still refers to slot variable s through std::ref *)
Definition referenced (s : N) (st : nstate) : bool :=
  existsb (fun r => existsb (fun it => match it with IRef s' => N.eqb s s' | _ => false end) (items_of r)) (all_reps st).

(* the one rule the user of std::ref has to keep: a slot variable is not destroyed while a functor refers to it *)
Definition user_ok (o : nop) (st : nstate) : bool :=
  match o with NSDel s => negb (referenced s st) | _ => true end.

Inductive nreach : nstate -> Prop :=
| nreach0 : nreach nst0
| nreach_step : forall st o st', nreach st -> user_ok o st = true -> nstep o st = NOk st' -> nreach st'.

(* r's functor refers to trackable t, directly or through slots held by value, to any depth *)
Fixpoint refers_val (t : N) (r : rep) : bool :=
  match r_fn r with
  | None => false
  | Some l => (fix go (l : list item) : bool :=
                 match l with
                 | [] => false
                 | ITrack t' :: tl => N.eqb t t' || go tl
                 | IVal (Some r') :: tl => refers_val t r' || go tl
                 | _ :: tl => go tl
                 end) l
  end.

Definition direct_refs (t : N) (r : rep) : nat :=
  length (filter (fun it => match it with ITrack t' => N.eqb t t' | _ => false end) (items_of r)).

(* --- C06 / C02 "never reads or writes a destroyed object": every operation of every history that
   keeps the std::ref rule succeeds -- no callback into a deleted slot_rep, no parent_ pointing to a
   deleted slot_rep, no unbinding from a destroyed trackable, and the parent chain always ends *)
Definition S_nest_safe : Prop :=
  forall st o, nreach st -> user_ok o st = true -> exists st', nstep o st = NOk st'.

(* --- ids are unique in the forest (a parent_ / callback data_ denotes one rep) *)
Definition S_nest_ids_unique : Prop :=
  forall st, nreach st -> NoDup (map r_id (all_reps st)) /\ (forall r, In r (all_reps st) -> r_id r < next_id st).

(* --- registration exactness (C07 "nothing left behind", C09 "tied to every trackable"): at every
   operation boundary the callback list of a live trackable holds exactly one armed entry per reference
   held by a functor, and nothing else *)
Definition S_nest_regs_exact : Prop :=
  forall st t x, nreach st -> live_tr t st = Some x ->
    t_clearing x = false /\
    (forall e, In e (t_regs x) -> snd e = true) /\
    (forall id, count_occ N.eq_dec (map fst (t_regs x)) id =
                match find_rep id st with Some r => direct_refs t r | None => O end).

(* --- parents are exact: a parent_ always denotes a live rep whose functor holds or refers to the child *)
Definition S_nest_parent_exact : Prop :=
  forall st r p, nreach st -> In r (all_reps st) -> r_parent r = Some p ->
    exists q, find_rep p st = Some q /\
      (In (IVal (Some r)) (items_of q) \/
       exists s, In (IRef s) (items_of q) /\ live_var s st = Some (Some r)).

(* --- a slot held by value always has its holder as parent (so its invalidation reaches the holder) *)
Definition S_nest_value_child_parent : Prop :=
  forall st q r, nreach st -> In q (all_reps st) -> In (IVal (Some r)) (items_of q) -> r_parent r = Some (r_id q).

(* --- C02 / C09: after a trackable has been destroyed no functor refers to it any more, at any depth
   of by-value nesting, and every slot whose functor did is empty *)
Definition S_nest_tdel : Prop :=
  forall st t st', nreach st -> live_tr t st <> None -> nstep (NTDel t) st = NOk st' ->
    (forall r, In r (all_reps st') -> refers_val t r = false) /\
    (forall s r, live_var s st = Some (Some r) -> refers_val t r = true ->
       exists r', live_var s st' = Some (Some r') /\ r_id r' = r_id r /\ r_valid r' = false /\ r_fn r' = None).

(* --- C09 through std::ref: the slot that adopted a referenced slot variable is invalidated with it *)
Definition S_nest_tdel_adopter : Prop :=
  forall st t st' s r p, nreach st -> live_tr t st <> None -> nstep (NTDel t) st = NOk st' ->
    live_var s st = Some (Some r) -> refers_val t r = true -> r_parent r = Some p ->
    forall q, find_rep p st' = Some q -> r_valid q = false.

(* --- C09 "destroying the slot first leaves no trace of it": after a slot variable has been
   destroyed no callback entry and no parent_ denotes any rep that lived in it *)
Definition S_nest_sdel_no_trace : Prop :=
  forall st s r st', nreach st -> user_ok (NSDel s) st = true -> live_var s st = Some (Some r) ->
    nstep (NSDel s) st = NOk st' ->
    forall r', In r' (reps_of r) ->
      (forall t x, live_tr t st' = Some x -> ~ In (r_id r') (map fst (t_regs x))) /\
      (forall q, In q (all_reps st') -> r_parent q <> Some (r_id r')).

(* --- C15: a copy is an independent slot: copying creates fresh reps only and changes no existing rep
   except that a referenced slot variable without a parent is adopted *)
Definition S_nest_copy_fresh : Prop :=
  forall st d s st', nreach st -> nstep (NSCopy d s) st = NOk st' -> fresh_var d st = true ->
    forall r, In r (all_reps st) ->
      exists r', In r' (all_reps st') /\ r_id r' = r_id r /\ r_valid r' = r_valid r /\
                 map (fun it => match it with IVal _ => 0 | ITrack t => 1 + t | IRef x => 1000 + x end) (items_of r') =
                 map (fun it => match it with IVal _ => 0 | ITrack t => 1 + t | IRef x => 1000 + x end) (items_of r) /\
                 (r_parent r' = r_parent r \/ (r_parent r = None /\ exists p, r_parent r' = Some p /\ next_id st <= p)).
