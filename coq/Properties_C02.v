(* Properties_C02.v -- Destroying a trackable invalidates and disconnects every slot that refers to it.
   Statements only: each Prop is defined in SigSpec.v (or spelled out here) and closed by a lemma of
   SigSafe.v, SigConn.v, SigQuiesce.v; Print Assumptions follows each. *)
From Coq Require Import List NArith Bool.
Import ListNotations.
Require Import Util SigCore SigLemmas SigInv SigSafe SigSpec SigConn SigExtra.
Local Open Scope N_scope.

(* after the destruction no functor refers to the object, every slot that did is empty and without functor, and (outside an emission) is gone from its list *)
Theorem C02_trackable_death : S_trackable_death.
Proof. exact trackable_death_attached. Qed.
Print Assumptions C02_trackable_death.

(* an invalidated slot is empty and is skipped by every emission and direct call *)
Theorem C02_invalid_never_invoked : S_invalid_never_invoked.
Proof. exact invalid_never_invoked. Qed.
Print Assumptions C02_invalid_never_invoked.

(* binding to / unbinding from a destroyed trackable is ErrUAF in the model: it never happens, for any program *)
Theorem C02_never_touches_destroyed_object : forall (fuel : nat) (p : program), match run_program fuel p with Ok _ => True | Err e => safe_err e end.
Proof. exact ll_safe. Qed.
Print Assumptions C02_never_touches_destroyed_object.

(* assignment to / explicit notify_callbacks() on a trackable invalidate the slots referring to it
   just like destruction does (the object itself stays alive) *)
Theorem C02_notify_invalidates : S_trackable_notify_invalidates.
Proof. exact trackable_notify_invalidates. Qed.
Print Assumptions C02_notify_invalidates.

(* ---- slots that hold other slots by value or refer to slot variables through std::ref (NestModel.v) ---- *)
Require NestSpec NestProofs.

(* after a trackable has died no functor refers to it at any depth of by-value nesting, and every slot variable whose functor did is empty *)
Theorem C02_nested_trackable_death : NestSpec.S_nest_tdel.
Proof. exact NestProofs.nest_tdel. Qed.
Print Assumptions C02_nested_trackable_death.

(* no operation of any history calls back into a deleted slot_rep, follows a parent_ to a deleted slot_rep or unbinds from a destroyed trackable *)
Theorem C02_nested_never_touches_destroyed : NestSpec.S_nest_safe.
Proof. exact NestProofs.nest_safe. Qed.
Print Assumptions C02_nested_never_touches_destroyed.
