(* TrackSpec.v -- the statements of property C16 over TrackModel (definitions only, no proofs). *)
From Coq Require Import List NArith Bool.
Import ListNotations.
Require Import TrackModel.
Local Open Scope N_scope.

(* All registrations currently held by live trackables. *)
Definition all_regs (w : world) : list reg :=
  flat_map (fun '(_, c) => match c with Some l => l | None => [] end) (trs w).

(* A registration is pending when it sits in a live list with its function still set. *)
Definition pending (w : world) (r : N) : Prop :=
  exists e, In e (all_regs w) /\ rid e = r /\ rset e = true.

Definition was_delivered (w : world) (r : N) : Prop := In r (delivered w).
Definition was_removed_first (w : world) (r : N) : Prop := In r (removed_pending w).

(* Events that the statement names as delivering the notifications of trackable t. *)
Definition triggers (o : top) (t : N) : bool :=
  match o with
  | TDestroy t' => N.eqb t t'
  | TNotify t' => N.eqb t t'
  | TAssign td ts => N.eqb t td && negb (N.eqb td ts)
  | TMoveAssign td ts => (N.eqb t td || N.eqb t ts) && negb (N.eqb td ts)
  | TMoveCtor _ told => N.eqb t told
  | _ => false
  end.

(* The registrations held by variable t. *)
Definition regs_of (w : world) (t : N) : list reg :=
  match lookup t (trs w) with Some (Some l) => l | _ => [] end.

(* The step is "effective" when its operand variables exist (otherwise it is a no-op by
   the totalisation convention of the model). *)
Definition effective (w : world) (o : top) : bool :=
  match o with
  | TNew t => negb (present t w)
  | TCopyCtor tn to | TMoveCtor tn to => negb (present tn w) && present to w
  | TAssign td ts | TMoveAssign td ts => present td w && present ts w
  | TNotify t | TDestroy t => present t w
  | TAdd t _ _ | TRemove t _ => present t w
  end.
