(* Properties_C06.v -- Library objects can be destroyed in any order without dangling access.
   Statements only: each Prop is defined in SigSpec.v (or spelled out here) and closed by a lemma of
   SigSafe.v, SigQuiesce.v; Print Assumptions follows each. *)
From Coq Require Import List NArith Bool.
Import ListNotations.
Require Import Util SigCore SigLemmas SigInv SigSafe SigSpec SigQuiesce.
Local Open Scope N_scope.

(* programs destroy every kind of object at every point: none of them reaches a use-after-free / double erase *)
Theorem C06_any_order_any_point_memory_safe : forall (fuel : nat) (p : program), match run_program fuel p with Ok _ => True | Err e => safe_err e end.
Proof. exact ll_safe. Qed.
Print Assumptions C06_any_order_any_point_memory_safe.

Theorem C06_invariant_after_every_operation : forall p fuel ops st, WF_top st -> match run_top p fuel ops st with Ok st' => WF_top st' | Err e => safe_err e end.
Proof. exact run_top_safe. Qed.
Print Assumptions C06_invariant_after_every_operation.

(* once every variable is destroyed nothing is left and nothing leaked *)
Theorem C06_teardown_complete : S_teardown_complete.
Proof. exact teardown_complete. Qed.
Print Assumptions C06_teardown_complete.

(* ---- slots that hold other slots by value or refer to slot variables through std::ref (NestModel.v) ---- *)
Require NestSpec NestProofs.

(* every operation of every history that keeps the std::ref rule succeeds: no dangling parent_, no stale callback entry, the parent chain always ends *)
Theorem C06_nested_any_order_memory_safe : NestSpec.S_nest_safe.
Proof. exact NestProofs.nest_safe. Qed.
Print Assumptions C06_nested_any_order_memory_safe.

(* a parent_ always denotes a live slot_rep whose functor holds or refers to the child *)
Theorem C06_nested_parent_denotes_live_holder : NestSpec.S_nest_parent_exact.
Proof. exact NestProofs.nest_parent_exact. Qed.
Print Assumptions C06_nested_parent_denotes_live_holder.

(* a parent_ or a callback entry denotes one slot_rep *)
Theorem C06_nested_ids_unique : NestSpec.S_nest_ids_unique.
Proof. exact NestProofs.nest_ids_unique. Qed.
Print Assumptions C06_nested_ids_unique.
