(* Properties_C12.v -- Blocking suspends a slot without disconnecting it.
   Statements only: each Prop is defined in SigSpec.v (or spelled out here) and closed by a lemma of
   SigSafe.v, SigValues.v, SigSnapshot.v; Print Assumptions follows each. *)
From Coq Require Import List NArith Bool.
Import ListNotations.
Require Import Util SigCore SigLemmas SigInv SigSafe SigSpec SigValues SigSnapshot.
Local Open Scope N_scope.

Theorem C12_slot_block_returns_old_affects_only_target : S_slot_block_only_target.
Proof. exact slot_block_only_target. Qed.
Print Assumptions C12_slot_block_returns_old_affects_only_target.

Theorem C12_connection_block_returns_old_affects_only_target : S_conn_block_only_target.
Proof. exact conn_block_only_target. Qed.
Print Assumptions C12_connection_block_returns_old_affects_only_target.

Theorem C12_blocked_call_returns_default : S_blocked_call_default.
Proof. exact blocked_call_default. Qed.
Print Assumptions C12_blocked_call_returns_default.

Theorem C12_signal_block_sets_current_slots : S_signal_block_sets_current.
Proof. exact signal_block_sets_current. Qed.
Print Assumptions C12_signal_block_sets_current_slots.

(* spec_loop skips an element that is blocked when its turn comes, and keeps it in the list *)
Theorem C12_blocked_skipped_at_its_turn : S_emit_is_snapshot_fuel.
Proof. exact emit_is_snapshot_fuel. Qed.
Print Assumptions C12_blocked_skipped_at_its_turn.
