(* NestProofs13.v -- every operation preserves the invariant and succeeds *)
From Coq Require Import List NArith Bool Arith Lia Permutation.
Import ListNotations.
Require Import Util NestModel NestSpec NestProofs1 NestProofs2 NestProofs3 NestProofs4 NestProofs5 NestProofs6 NestProofs7 NestProofs8 NestProofs9 NestProofs10 NestProofs11 NestProofs12.
Local Open Scope N_scope.

Definition NInv (st : nstate) : Prop := GInv None [] [] st.

Definition orep_list (v : option rep) : list rep := match v with Some c => [c] | None => [] end.

Lemma copy_of_ok : forall T B st src, GInv T [] B st -> (forall r, src = Some r -> In r (all_reps st)) ->
  exists v st', copy_of src st = NOk (v, st') /\ GInv T [] (bindings (RL (orep_list v)) ++ B) st' /\ VFrame st st' /\
    NewF (next_id st) (next_id st') (orep_list v) /\ (forall c, v = Some c -> r_parent c = None) /\ CRel (next_id st) st st'.
Proof.
  intros T B st src HG Hin. unfold copy_of.
  assert (Hnone : exists v st', NOk (A := option rep * nstate) (None, st) = NOk (v, st') /\ GInv T [] (bindings (RL (orep_list v)) ++ B) st' /\ VFrame st st' /\
    NewF (next_id st) (next_id st') (orep_list v) /\ (forall c, v = Some c -> r_parent c = None) /\ CRel (next_id st) st st').
  { exists None, st. split; [reflexivity|]. split; [exact HG|]. split; [apply VFrame_refl|]. split; [apply NewF_nil|]. split; [intros c H; discriminate | apply CRel_refl]. }
  destruct src as [r|]; [|exact Hnone]. destruct (r_valid r) eqn:Hv; [|exact Hnone].
  destruct (clone_rep_ok r T B st HG Hv (cl_ok_of_ginv _ _ _ _ r HG (Hin r eq_refl))) as (c & st' & E & HG' & F' & N' & _ & Hp' & C').
  rewrite E. cbn [nbind fst snd]. exists (Some c), st'. split; [reflexivity|]. cbn [orep_list]. rewrite RL_cons. cbn [RL flat_map]. rewrite app_nil_r.
  split; [exact HG'|]. split; [exact F'|]. split; [exact N'|]. split; [|exact C']. intros c' H. injection H as <-. exact Hp'.
Qed.

Definition ispec_live (st : nstate) (p : ispec) : Prop :=
  match p with NPTrack t => live_tr t st <> None | NPRef s | NPVal s => live_var s st <> None end.

Lemma ispec_ok_live : forall st p, ispec_ok st p = true -> ispec_live st p.
Proof.
  intros st [t|s|s] H; cbn [ispec_ok ispec_live] in *.
  - destruct (live_tr t st); [discriminate | discriminate].
  - destruct (live_var s st); [discriminate | discriminate].
  - destruct (live_var s st); [discriminate | discriminate].
Qed.

Lemma ispec_live_frame : forall st st' p, VFrame st st' -> ispec_live st p -> ispec_live st' p.
Proof.
  intros st st' [t|s|s] F H; cbn [ispec_live] in *.
  - apply (VFrame_live_tr st st' t F). exact H.
  - apply (VFrame_live_var st st' s F). exact H.
  - apply (VFrame_live_var st st' s F). exact H.
Qed.

Lemma kids_cons_val : forall v l, kids (IVal v :: l) = orep_list v ++ kids l.
Proof. intros [c|] l; reflexivity. Qed.

Lemma NewF_app1 : forall a b d v F, NewF a b (orep_list v) -> NewF b d F -> a <= b -> b <= d -> NewF a d (orep_list v ++ F).
Proof.
  intros a b d [c|] F H1 H2 Hab Hbd; cbn [orep_list app].
  - eapply NewF_cons; eassumption.
  - eapply NewF_weaken; [exact H2 | exact Hab | apply N.le_refl].
Qed.

Lemma build_items_ok : forall l T B st, GInv T [] B st -> (forall p, In p l -> ispec_live st p) ->
  exists its st', build_items l st = NOk (its, st') /\ GInv T [] (bindings (RL (kids its)) ++ B) st' /\ VFrame st st' /\
    NewF (next_id st) (next_id st') (kids its) /\ (forall k, In k (kids its) -> r_parent k = None) /\
    (forall t, In (ITrack t) its -> live_tr t st <> None) /\ (forall s, In (IRef s) its -> live_var s st <> None).
Proof.
  induction l as [|p tl IH]; intros T B st HG Hlive.
  - exists [], st. split; [reflexivity|]. split; [exact HG|]. split; [apply VFrame_refl|]. split; [apply NewF_nil|].
    split; [intros k []|]. split; [intros t [] | intros s []].
  - pose proof (Hlive p (or_introl eq_refl)) as Hp. destruct p as [t|s|s]; cbn [build_items ispec_live] in *.
    + destruct (live_tr t st) as [x|] eqn:Hx; [|contradiction].
      destruct (IH T B st HG (fun p Hp' => Hlive p (or_intror Hp'))) as (its & st' & E & HG' & F' & N' & Hpk & Ht & Hs).
      rewrite E. cbn [nbind fst snd]. exists (ITrack t :: its), st'. split; [reflexivity|]. cbn [kids].
      split; [exact HG'|]. split; [exact F'|]. split; [exact N'|]. split; [exact Hpk|]. split.
      * intros t' [H|H]; [injection H as <-; rewrite Hx; discriminate | apply Ht; exact H].
      * intros s' [H|H]; [discriminate | apply Hs; exact H].
    + destruct (live_var s st) as [x|] eqn:Hx; [|contradiction].
      destruct (IH T B st HG (fun p Hp' => Hlive p (or_intror Hp'))) as (its & st' & E & HG' & F' & N' & Hpk & Ht & Hs).
      rewrite E. cbn [nbind fst snd]. exists (IRef s :: its), st'. split; [reflexivity|]. cbn [kids].
      split; [exact HG'|]. split; [exact F'|]. split; [exact N'|]. split; [exact Hpk|]. split.
      * intros t' [H|H]; [discriminate | apply Ht; exact H].
      * intros s' [H|H]; [injection H as <-; rewrite Hx; discriminate | apply Hs; exact H].
    + destruct (live_var s st) as [src|] eqn:Hx; [|contradiction].
      destruct (copy_of_ok T B st src HG) as (v & st1 & E1 & HG1 & F1 & N1 & Hp1 & _).
      { intros r ->. eapply live_var_in. exact Hx. }
      rewrite E1. cbn [nbind fst snd].
      destruct (IH T (bindings (RL (orep_list v)) ++ B) st1 HG1) as (its & st' & E & HG' & F' & N' & Hpk & Ht & Hs).
      { intros p Hp'. apply (ispec_live_frame st st1 p F1). apply Hlive. right. exact Hp'. }
      rewrite E. cbn [nbind fst snd]. exists (IVal v :: its), st'. split; [reflexivity|]. rewrite kids_cons_val.
      split; [|split; [eapply VFrame_trans; eassumption | split; [|split; [|split]]]].
      * rewrite RL_app, bindings_app, <- app_assoc. eapply ginv_perm; [|exact HG']. rewrite !app_assoc. apply Permutation_app_tail. apply Permutation_app_comm.
      * eapply NewF_app1; [exact N1 | exact N' | exact (vf_next _ _ F1) | exact (vf_next _ _ F')].
      * intros k Hk. apply in_app_or in Hk. destruct Hk as [Hk|Hk]; [|apply Hpk; exact Hk].
        destruct v as [c|]; [|destruct Hk]. destruct Hk as [<-|[]]. apply Hp1. reflexivity.
      * intros t' [H|H]; [discriminate|]. apply (VFrame_live_tr st st1 t' F1). apply Ht. exact H.
      * intros s' [H|H]; [discriminate|]. apply (VFrame_live_var st st1 s' F1). apply Hs. exact H.
Qed.

(* unbinding the caller's temporary functor (id 0, never bound) changes nothing that matters *)
Lemma bcount_zero_absent : forall t i B, (forall b, In b B -> fst b <> i) -> bcount t i B = O.
Proof.
  intros t i B H. induction B as [|b tl IH]; [reflexivity|]. rewrite bcount_cons.
  assert (E : N.eqb (fst b) i = false) by (apply N.eqb_neq; apply H; left; reflexivity). rewrite E. cbn [andb].
  apply IH. intros b' Hb'. apply H. right. exact Hb'.
Qed.

Lemma unbind_zero_item_ok : forall it T P B st, GInv T P B st ->
  (forall t, it = ITrack t -> live_tr t st <> None) -> (forall s, it = IRef s -> live_var s st <> None) ->
  exists st', unbind_item 0 it st = NOk st' /\ GInv T P B st' /\ IFrame st st'.
Proof.
  intros it T P B st HG Ht Hs. destruct it as [t|s|v]; cbn [unbind_item].
  - unfold track_remove. destruct (live_tr t st) as [x|] eqn:Hx; [|exfalso; exact (Ht t eq_refl Hx)].
    eexists. split; [reflexivity|].
    assert (Hz : acount 0 (t_regs x) = O).
    { rewrite (gi_regs _ _ _ _ HG t x 0 Hx). rewrite bcount_zero_absent.
      - rewrite drefs_absent; [reflexivity|]. intros Hin. unfold ids in Hin. apply in_map_iff in Hin. destruct Hin as (u & Eu & Hu).
        destruct (gi_idpos _ _ _ _ HG u Hu). lia.
      - intros b Hb. pose proof (gi_bpos _ _ _ _ HG b Hb). lia. }
    assert (E : forall i, acount i (if t_clearing x then disarm_first 0 (t_regs x)
                          else remove_first (fun e : N * bool => N.eqb (fst e) 0 && snd e) (t_regs x)) = acount i (t_regs x)).
    { intros i. assert (E0 : acount i (if t_clearing x then disarm_first 0 (t_regs x)
                          else remove_first (fun e : N * bool => N.eqb (fst e) 0 && snd e) (t_regs x)) =
                (acount i (t_regs x) - (if N.eqb 0 i then 1 else 0))%nat).
      { destruct (t_clearing x); [apply acount_disarm_first | apply acount_remove_first]. }
      rewrite E0. destruct (N.eqb 0 i) eqn:Ei; [|lia]. apply N.eqb_eq in Ei. subst i. lia. }
    split.
    + apply (ginv_set_regs T P B B st t x _ HG Hx).
      * reflexivity.
      * cbn [t_regs t_clearing]. intros Hc e He. rewrite Hc in He. apply remove_first_in in He. exact (gi_armed _ _ _ _ HG t x Hx Hc e He).
      * intros i. cbn [t_regs]. rewrite E. exact (gi_regs _ _ _ _ HG t x i Hx).
      * reflexivity.
      * reflexivity.
      * exact (gi_btrack_live _ _ _ _ HG).
      * exact (gi_bpos _ _ _ _ HG).
    + eapply iframe_set_regs; [exact Hx | reflexivity|]. cbn [t_regs]. intros Hc. rewrite Hc. apply RegsLe_disarm.
  - destruct (live_var s st) as [[r|]|] eqn:Hx; [| |exfalso; exact (Hs s eq_refl Hx)].
    + destruct (r_parent r) as [p|] eqn:Hp.
      * assert (Hp0 : N.eqb p 0 = false).
        { apply N.eqb_neq. intros ->. destruct (gi_parent _ _ _ _ HG r 0 (live_var_in _ _ _ Hx) Hp) as [(q & Hq & _)|(s' & Hs' & _)].
          - destruct (lk_some _ _ _ Hq) as [Hq1 Hq2]. destruct (gi_idpos _ _ _ _ HG q Hq1). lia.
          - pose proof (gi_bpos _ _ _ _ HG _ Hs'). cbn in H. lia. }
        rewrite Hp0. exists st. split; [reflexivity|]. split; [exact HG | apply IFrame_refl].
      * exists st. split; [reflexivity|]. split; [exact HG | apply IFrame_refl].
    + exists st. split; [reflexivity|]. split; [exact HG | apply IFrame_refl].
  - exists st. split; [reflexivity|]. split; [exact HG | apply IFrame_refl].
Qed.

Lemma unbind_zero_ok : forall its T P B st, GInv T P B st ->
  (forall t, In (ITrack t) its -> live_tr t st <> None) -> (forall s, In (IRef s) its -> live_var s st <> None) ->
  exists st', unbind_list (map (pair 0) its) st = NOk st' /\ GInv T P B st' /\ IFrame st st'.
Proof.
  induction its as [|it tl IH]; intros T P B st HG Ht Hs.
  - exists st. split; [reflexivity|]. split; [exact HG | apply IFrame_refl].
  - cbn [map unbind_list].
    destruct (unbind_zero_item_ok it T P B st HG) as (st1 & E1 & HG1 & F1).
    { intros t ->. apply Ht. left. reflexivity. }
    { intros s ->. apply Hs. left. reflexivity. }
    rewrite E1. cbn [nbind].
    destruct (IH T P B st1 HG1) as (st' & E & HG' & F').
    { intros t Hin. apply (VFrame_live_tr st st1 t (if_v _ _ F1)). apply Ht. right. exact Hin. }
    { intros s Hin. apply (VFrame_live_var st st1 s (if_v _ _ F1)). apply Hs. right. exact Hin. }
    exists st'. split; [exact E|]. split; [exact HG' | eapply IFrame_trans; eassumption].
Qed.
