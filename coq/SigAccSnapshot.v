(* SigAccSnapshot.v -- C13: the cursors of an accumulated emission (node ids moved with
   node_next/node_prev in whatever the list has become) range exactly over the snapshot of node ids
   taken at frame entry: acc_run is ic_run over snapshot indices. *)
From Coq Require Import List NArith Bool Lia Arith Permutation.
Import ListNotations.
Require Import Util SigCore SigLemmas SigInv SigSafe SigSpec SigSnapshot.
Local Open Scope N_scope.

(* ------------------------------------------------------------------ *)
(* generic helpers                                                      *)

(* two outcomes agree on the state and are related on the value *)
Definition osim {A B} (R : state -> A -> B -> Prop) (x : outcome A) (y : outcome B) : Prop :=
  match x, y with
  | Done s a, Done s' b => s = s' /\ R s a b
  | Thrown s, Thrown s' => s = s'
  | Fail e, Fail e' => e = e'
  | _, _ => False
  end.

Lemma nodup_pos_eqb (blk : list nid) a b x y : NoDup blk ->
  nth_error blk a = Some x -> nth_error blk b = Some y -> nid_eqb x y = Nat.eqb a b.
Proof.
  intros Hnd Ha Hb. destruct (nid_eqb_spec x y) as [E|Hne].
  - subst y. symmetry. apply Nat.eqb_eq.
    apply (proj1 (NoDup_nth_error blk) Hnd); [apply nth_error_Some; congruence|congruence].
  - symmetry. apply Nat.eqb_neq. intro E. subst b. congruence.
Qed.

Lemma nth_error_snoc_end {A} (l : list A) x : nth_error (l ++ [x]) (length l) = Some x.
Proof. rewrite nth_error_app2 by lia. rewrite Nat.sub_diag. reflexivity. Qed.

Lemma nth_error_snoc_lt {A} (l : list A) x k y : nth_error (l ++ [x]) k = Some y -> (k < length l)%nat ->
  nth_error l k = Some y.
Proof. intros H Hlt. rewrite nth_error_app1 in H by exact Hlt. exact H. Qed.

Lemma nth_error_snoc_bound {A} (l : list A) x k y : nth_error (l ++ [x]) k = Some y -> (k <= length l)%nat.
Proof.
  intro H. assert (k < length (l ++ [x]))%nat by (apply nth_error_Some; congruence).
  rewrite app_length in *. cbn [length] in *. lia.
Qed.

(* ------------------------------------------------------------------ *)
(* the simulation                                                       *)

Section AccSim.
  Variable prog : program.
  Variable rec : callee -> state -> outcome N.
  Hypothesis rec_ok : forall c st, WF st -> out_ok st (rec c st).

  Variable i : N.
  Variable snap : list nid.
  Variable ph : nid.
  Variable st1 : state.
  Variable arg : N.
  Hypothesis Op : Open i (snap ++ [ph]) ph st1.

  Let blk := snap ++ [ph].

  (* a node-id cursor and an index cursor denote the same position of the block *)
  Definition crel (c : cursor) (ic : icursor) : Prop :=
    nth_error blk (ic_pos ic) = Some (c_pos c) /\ c_invoked c = ic_invoked ic /\ c_buf c = ic_buf ic.

  Definition wrel (s : state) (x : cursor * N) (y : icursor * N) : Prop :=
    crel (fst x) (fst y) /\ snd x = snd y /\ Guar st1 s.

  Lemma blk_nodup : NoDup blk.
  Proof. exact (op_nodup _ _ _ _ Op). Qed.

  Lemma crel_bound c ic : crel c ic -> (ic_pos ic <= length snap)%nat.
  Proof. intros (H & _). exact (nth_error_snoc_bound _ _ _ _ H). Qed.

  Lemma crel_eqb c ic c' ic' : crel c ic -> crel c' ic' ->
    nid_eqb (c_pos c) (c_pos c') = Nat.eqb (ic_pos ic) (ic_pos ic').
  Proof. intros (H & _) (H' & _). exact (nodup_pos_eqb blk _ _ _ _ blk_nodup H H'). Qed.

  Lemma crel_end_eqb c ic : crel c ic -> nid_eqb (c_pos c) ph = Nat.eqb (ic_pos ic) (length snap).
  Proof.
    intros (H & _). apply (nodup_pos_eqb blk _ _ _ _ blk_nodup H). apply nth_error_snoc_end.
  Qed.

  Lemma deref_sim c ic st : crel c ic -> (ic_pos ic < length snap)%nat -> Guar st1 st ->
    osim (fun s c' ic' => crel c' ic' /\ ic_pos ic' = ic_pos ic /\ Guar st1 s)
         (cur_deref rec i arg c st) (ic_deref rec i snap arg ic st).
  Proof.
    intros (Hp & Hi & Hb) Hlt G. unfold cur_deref, ic_deref.
    rewrite (nth_error_snoc_lt _ _ _ _ Hp Hlt).
    destruct (get_sb (LNode i (c_pos c)) st) as [sb|] eqn:Hsb; [|reflexivity].
    rewrite Hi.
    destruct (negb (sb_empty sb) && negb (sb_blocked sb) && negb (ic_invoked ic)) eqn:Hc.
    - apply andb_true_iff in Hc. destruct Hc as [Hc _]. apply andb_true_iff in Hc. destruct Hc as [Hc _].
      apply negb_true_iff in Hc.
      pose proof (invoke_at_ok rec rec_ok (LNode i (c_pos c)) arg st sb (proj1 G) Hsb Hc) as X.
      destruct (invoke_at rec (LNode i (c_pos c)) arg st) as [st' v|st'|e]; cbn [out_ok osim] in *.
      + split; [reflexivity|]. split; [|split; [reflexivity|eapply Guar_trans; eauto]].
        unfold crel. cbn [c_pos c_invoked c_buf ic_pos ic_invoked ic_buf]. auto.
      + reflexivity.
      + reflexivity.
    - cbn [osim]. split; [reflexivity|]. split; [|split; [reflexivity|exact G]].
      unfold crel. auto.
  Qed.

  Lemma inc_sim c ic st : crel c ic -> (ic_pos ic < length snap)%nat -> Guar st1 st ->
    exists c', cur_inc i c st = Ok c' /\ crel c' (mkIC (S (ic_pos ic)) false (ic_buf ic)).
  Proof.
    intros (Hp & Hi & Hb) Hlt G. unfold cur_inc.
    assert (Hlt' : (S (ic_pos ic) < length blk)%nat).
    { unfold blk. rewrite app_length. cbn [length]. lia. }
    destruct (node_next_block _ _ _ _ _ (Open_block _ _ _ _ _ Op G) Hp Hlt') as (nx & En & Hnx).
    rewrite En. cbn [rbind]. eexists. split; [reflexivity|].
    unfold crel. cbn [c_pos c_invoked c_buf ic_pos ic_invoked ic_buf]. auto.
  Qed.

  Lemma dec_sim c ic st k : crel c ic -> ic_pos ic = S k -> Guar st1 st ->
    exists c', cur_dec i c st = Ok c' /\ crel c' (mkIC k false (ic_buf ic)).
  Proof.
    intros (Hp & Hi & Hb) Ek G. unfold cur_dec. rewrite Ek in Hp.
    destruct (node_prev_block _ _ _ _ _ (Open_block _ _ _ _ _ Op G) Hp) as (pv & En & Hpv).
    rewrite En. cbn [rbind]. eexists. split; [reflexivity|].
    unfold crel. cbn [c_pos c_invoked c_buf ic_pos ic_invoked ic_buf]. auto.
  Qed.

  Lemma walk_sim z : forall fuel c ic a st, crel c ic -> Guar st1 st ->
    osim wrel (acc_walk rec fuel i arg ph z c a st) (ic_walk rec fuel i snap arg z ic a st).
  Proof.
    induction fuel as [|fuel IH]; intros c ic a st R G.
    - cbn [acc_walk ic_walk]. rewrite (crel_end_eqb _ _ R).
      destruct (Nat.eqb (ic_pos ic) (length snap)); cbn [osim]; [|reflexivity].
      split; [reflexivity|]. unfold wrel. cbn [fst snd]. auto.
    - cbn [acc_walk ic_walk]. rewrite (crel_end_eqb _ _ R).
      destruct (Nat.eqb_spec (ic_pos ic) (length snap)) as [E|Hne]; cbn [osim].
      { split; [reflexivity|]. unfold wrel. cbn [fst snd]. auto. }
      assert (Hlt : (ic_pos ic < length snap)%nat) by (pose proof (crel_bound _ _ R); lia).
      pose proof (deref_sim c ic st R Hlt G) as X.
      destruct (cur_deref rec i arg c st) as [s c1|s|e], (ic_deref rec i snap arg ic st) as [s' ic1|s'|e'];
        cbn [osim] in X; try contradiction; [|subst; reflexivity|subst; reflexivity].
      destruct X as (<- & R1 & Ep & G1).
      assert (Hlt1 : (ic_pos ic1 < length snap)%nat) by lia.
      destruct (inc_sim c1 ic1 s R1 Hlt1 G1) as (c2 & E2 & R2). rewrite E2.
      destruct R1 as (_ & _ & Hb1). rewrite Hb1.
      destruct (match z with Some zz => N.ltb zz (ic_buf ic1) | None => false end).
      + cbn [osim]. split; [reflexivity|]. unfold wrel. cbn [fst snd]. auto.
      + apply IH; assumption.
  Qed.

  Lemma walk_rev_sim first : nth_error blk 0 = Some first ->
    forall fuel c ic a st, crel c ic -> Guar st1 st ->
    osim wrel (acc_walk_rev rec fuel i arg first c a st) (ic_walk_rev rec fuel i snap arg ic a st).
  Proof.
    intro Hfirst.
    assert (Htest : forall c ic, crel c ic -> nid_eqb (c_pos c) first = Nat.eqb (ic_pos ic) 0).
    { intros c ic (H & _). exact (nodup_pos_eqb blk _ _ _ _ blk_nodup H Hfirst). }
    induction fuel as [|fuel IH]; intros c ic a st R G.
    - cbn [acc_walk_rev ic_walk_rev]. rewrite (Htest _ _ R).
      destruct (ic_pos ic) as [|k]; cbn [Nat.eqb osim]; [|reflexivity].
      split; [reflexivity|]. unfold wrel. cbn [fst snd]. auto.
    - cbn [acc_walk_rev ic_walk_rev]. rewrite (Htest _ _ R).
      destruct (ic_pos ic) as [|k] eqn:Ek; cbn [Nat.eqb osim].
      { split; [reflexivity|]. unfold wrel. cbn [fst snd]. auto. }
      destruct (dec_sim c ic st k R Ek G) as (c1 & E1 & R1). rewrite E1.
      assert (Hlt : (ic_pos (mkIC k false (ic_buf ic)) < length snap)%nat).
      { cbn [ic_pos]. pose proof (crel_bound _ _ R). lia. }
      pose proof (deref_sim c1 _ st R1 Hlt G) as X.
      destruct (cur_deref rec i arg c1 st) as [s c2|s|e],
               (ic_deref rec i snap arg (mkIC k false (ic_buf ic)) st) as [s' ic2|s'|e'];
        cbn [osim] in X; try contradiction; [|subst; reflexivity|subst; reflexivity].
      destruct X as (<- & R2 & _ & G2).
      destruct R2 as (Hp2 & Hi2 & Hb2). rewrite Hb2. apply IH; [|exact G2].
      unfold crel. auto.
  Qed.

  (* cursor tables *)
  Definition csrel (cs : list (N * cursor)) (ics : list (N * icursor)) : Prop :=
    forall k, match aget k cs, aget k ics with
              | Some c, Some ic => crel c ic
              | None, None => True
              | _, _ => False
              end.

  Lemma csrel_aset cs ics k c ic : csrel cs ics -> crel c ic -> csrel (aset k c cs) (aset k ic ics).
  Proof.
    intros H R k'. rewrite !aget_aset. destruct (N.eqb k' k); [exact R|apply H].
  Qed.

  Lemma getc_rel fc lc ifc ilc cs ics k : crel fc ifc -> crel lc ilc -> csrel cs ics ->
    crel (if N.eqb k 0 then fc else if N.eqb k 1 then lc else get_cur k cs fc) (ic_get k ifc ilc ics).
  Proof.
    intros Rf Rl Rc. unfold ic_get, get_cur. destruct (N.eqb k 0); [exact Rf|]. destruct (N.eqb k 1); [exact Rl|].
    specialize (Rc k). destruct (aget k cs), (aget k ics); try contradiction; assumption.
  Qed.

  Lemma run_sim fc lc ifc ilc n : crel fc ifc -> crel lc ilc -> ic_pos ifc = O -> ic_pos ilc = length snap ->
    forall ops cs ics a st, csrel cs ics -> Guar st1 st ->
      acc_run rec n i arg fc lc ops cs a st = ic_run rec n i snap arg ifc ilc ops ics a st.
  Proof.
    intros Rf Rl Ef El.
    assert (Hlc : c_pos lc = ph).
    { destruct Rl as (H & _). rewrite El in H. unfold blk in H. rewrite nth_error_snoc_end in H. congruence. }
    assert (Hfirst : nth_error blk 0 = Some (c_pos fc)).
    { destruct Rf as (H & _). rewrite Ef in H. exact H. }
    induction ops as [|o ops IH]; intros cs ics a st Rc G; cbn [acc_run ic_run]; [reflexivity|].
    destruct o as [k j|k|k|k|k|k|k z].
    - (* ACopy *)
      destruct (writable k); [|apply IH; assumption].
      apply IH; [|exact G]. apply csrel_aset; [exact Rc|]. apply getc_rel; assumption.
    - (* AInc *)
      pose proof (getc_rel fc lc ifc ilc cs ics k Rf Rl Rc) as Rk.
      set (ck := if N.eqb k 0 then fc else if N.eqb k 1 then lc else get_cur k cs fc) in *.
      rewrite (crel_eqb _ _ _ _ Rk Rl).
      destruct (writable k); cbn [andb]; [|apply IH; assumption].
      destruct (Nat.eqb_spec (ic_pos (ic_get k ifc ilc ics)) (ic_pos ilc)) as [E|Hne]; cbn [negb]; [apply IH; assumption|].
      assert (Hlt : (ic_pos (ic_get k ifc ilc ics) < length snap)%nat) by (pose proof (crel_bound _ _ Rk); lia).
      destruct (inc_sim ck _ st Rk Hlt G) as (c' & E' & R'). rewrite E'.
      apply IH; [|exact G]. apply csrel_aset; assumption.
    - (* ADec *)
      pose proof (getc_rel fc lc ifc ilc cs ics k Rf Rl Rc) as Rk.
      set (ck := if N.eqb k 0 then fc else if N.eqb k 1 then lc else get_cur k cs fc) in *.
      rewrite (crel_eqb _ _ _ _ Rk Rf).
      destruct (writable k); cbn [andb]; [|apply IH; assumption].
      destruct (Nat.eqb_spec (ic_pos (ic_get k ifc ilc ics)) (ic_pos ifc)) as [E|Hne]; cbn [negb]; [apply IH; assumption|].
      destruct (ic_pos (ic_get k ifc ilc ics)) as [|kk] eqn:Ek; [lia|].
      destruct (dec_sim ck _ st kk Rk Ek G) as (c' & E' & R'). rewrite E'. cbn [pred].
      apply IH; [|exact G]. apply csrel_aset; assumption.
    - (* ADeref *)
      pose proof (getc_rel fc lc ifc ilc cs ics k Rf Rl Rc) as Rk.
      set (ck := if N.eqb k 0 then fc else if N.eqb k 1 then lc else get_cur k cs fc) in *.
      rewrite (crel_eqb _ _ _ _ Rk Rl).
      destruct (writable k); cbn [andb]; [|apply IH; assumption].
      destruct (Nat.eqb_spec (ic_pos (ic_get k ifc ilc ics)) (ic_pos ilc)) as [E|Hne]; cbn [negb]; [apply IH; assumption|].
      assert (Hlt : (ic_pos (ic_get k ifc ilc ics) < length snap)%nat) by (pose proof (crel_bound _ _ Rk); lia).
      pose proof (deref_sim ck _ st Rk Hlt G) as X.
      destruct (cur_deref rec i arg ck st) as [s c1|s|e],
               (ic_deref rec i snap arg (ic_get k ifc ilc ics) st) as [s' ic1|s'|e'];
        cbn [osim] in X; try contradiction; [|subst; reflexivity|subst; reflexivity].
      destruct X as (<- & R1 & _ & G1).
      pose proof R1 as (_ & _ & Hb1). rewrite Hb1.
      apply IH; [|exact G1]. apply csrel_aset; assumption.
    - (* AWalk *)
      pose proof (getc_rel fc lc ifc ilc cs ics k Rf Rl Rc) as Rk.
      set (ck := if N.eqb k 0 then fc else if N.eqb k 1 then lc else get_cur k cs fc) in *.
      destruct (writable k); [|apply IH; assumption].
      rewrite Hlc.
      pose proof (walk_sim None n ck _ a st Rk G) as X.
      destruct (acc_walk rec n i arg ph None ck a st) as [s [c1 a1]|s|e],
               (ic_walk rec n i snap arg None (ic_get k ifc ilc ics) a st) as [s' [ic1 a1']|s'|e'];
        cbn [osim] in X; try contradiction; [|subst; reflexivity|subst; reflexivity].
      destruct X as (<- & R1 & Ea & G1). cbn [fst snd] in R1, Ea. subst a1'.
      apply IH; [|exact G1]. apply csrel_aset; assumption.
    - (* AWalkRev *)
      destruct (writable k); [|apply IH; assumption].
      assert (Rl' : crel (mkCur (c_pos lc) false (c_buf lc)) (mkIC (ic_pos ilc) false (ic_buf ilc))).
      { destruct Rl as (A & _ & C). unfold crel. cbn [c_pos c_invoked c_buf ic_pos ic_invoked ic_buf]. auto. }
      pose proof (walk_rev_sim (c_pos fc) Hfirst n _ _ a st Rl' G) as X.
      destruct (acc_walk_rev rec n i arg (c_pos fc) (mkCur (c_pos lc) false (c_buf lc)) a st) as [s [c1 a1]|s|e],
               (ic_walk_rev rec n i snap arg (mkIC (ic_pos ilc) false (ic_buf ilc)) a st) as [s' [ic1 a1']|s'|e'];
        cbn [osim] in X; try contradiction; [|subst; reflexivity|subst; reflexivity].
      destruct X as (<- & R1 & Ea & G1). cbn [fst snd] in R1, Ea. subst a1'.
      apply IH; [|exact G1]. apply csrel_aset; assumption.
    - (* AWalkUntil *)
      pose proof (getc_rel fc lc ifc ilc cs ics k Rf Rl Rc) as Rk.
      set (ck := if N.eqb k 0 then fc else if N.eqb k 1 then lc else get_cur k cs fc) in *.
      destruct (writable k); [|apply IH; assumption].
      rewrite Hlc.
      pose proof (walk_sim (Some z) n ck _ a st Rk G) as X.
      destruct (acc_walk rec n i arg ph (Some z) ck a st) as [s [c1 a1]|s|e],
               (ic_walk rec n i snap arg (Some z) (ic_get k ifc ilc ics) a st) as [s' [ic1 a1']|s'|e'];
        cbn [osim] in X; try contradiction; [|subst; reflexivity|subst; reflexivity].
      destruct X as (<- & R1 & Ea & G1). cbn [fst snd] in R1, Ea. subst a1'.
      apply IH; [|exact G1]. apply csrel_aset; assumption.
  Qed.
End AccSim.

(* ------------------------------------------------------------------ *)
(* a signal object without impl: every cursor is the null iterator      *)

Section NoImpl.
  Variable rec : callee -> state -> outcome N.

  Lemma acc_run_noimpl_done arg ops : forall cs a st,
    (forall k c, aget k cs = Some c -> c_pos c = Ph 0) ->
    acc_run rec O 0 arg (mkCur (Ph 0) false 0) (mkCur (Ph 0) false 0) ops cs a st = Done st a.
  Proof.
    set (c0 := mkCur (Ph 0) false 0).
    assert (Hget : forall cs k, (forall k c, aget k cs = Some c -> c_pos c = Ph 0) ->
               c_pos (if N.eqb k 0 then c0 else if N.eqb k 1 then c0 else get_cur k cs c0) = Ph 0).
    { intros cs k Hcs. destruct (N.eqb k 0); [reflexivity|]. destruct (N.eqb k 1); [reflexivity|].
      unfold get_cur. destruct (aget k cs) eqn:E; [eapply Hcs; eauto|reflexivity]. }
    assert (Hset : forall cs k c, c_pos c = Ph 0 -> (forall k c, aget k cs = Some c -> c_pos c = Ph 0) ->
               forall k' c', aget k' (aset k c cs) = Some c' -> c_pos c' = Ph 0).
    { intros cs k c Hc Hcs k' c' H. rewrite aget_aset in H. destruct (N.eqb k' k); [inversion H; subst; exact Hc|eauto]. }
    induction ops as [|o ops IH]; intros cs a st Hcs; cbn [acc_run]; [reflexivity|].
    destruct o as [k j|k|k|k|k|k|k z].
    - destruct (writable k); [|apply IH; exact Hcs]. apply IH. apply Hset; [apply Hget; exact Hcs|exact Hcs].
    - rewrite (Hget cs k Hcs). cbn [c_pos c0 nid_eqb N.eqb negb]. rewrite andb_false_r. apply IH; exact Hcs.
    - rewrite (Hget cs k Hcs). cbn [c_pos c0 nid_eqb N.eqb negb]. rewrite andb_false_r. apply IH; exact Hcs.
    - rewrite (Hget cs k Hcs). cbn [c_pos c0 nid_eqb N.eqb negb]. rewrite andb_false_r. apply IH; exact Hcs.
    - destruct (writable k); [|apply IH; exact Hcs]. cbn [acc_walk]. rewrite (Hget cs k Hcs).
      cbn [c_pos c0 nid_eqb N.eqb]. apply IH. apply Hset; [apply Hget; exact Hcs|exact Hcs].
    - destruct (writable k); [|apply IH; exact Hcs]. cbn [acc_walk_rev c_pos c0 nid_eqb N.eqb].
      apply IH. apply Hset; [reflexivity|exact Hcs].
    - destruct (writable k); [|apply IH; exact Hcs]. cbn [acc_walk]. rewrite (Hget cs k Hcs).
      cbn [c_pos c0 nid_eqb N.eqb]. apply IH. apply Hset; [apply Hget; exact Hcs|exact Hcs].
  Qed.

  Lemma ic_run_noimpl_done arg ops : forall ics a st,
    (forall k c, aget k ics = Some c -> ic_pos c = O) ->
    ic_run rec O 0 [] arg (mkIC O false 0) (mkIC O false 0) ops ics a st = Done st a.
  Proof.
    set (c0 := mkIC O false 0).
    assert (Hget : forall ics k, (forall k c, aget k ics = Some c -> ic_pos c = O) ->
               ic_pos (ic_get k c0 c0 ics) = O).
    { intros ics k Hcs. unfold ic_get. destruct (N.eqb k 0); [reflexivity|]. destruct (N.eqb k 1); [reflexivity|].
      destruct (aget k ics) eqn:E; [eapply Hcs; eauto|reflexivity]. }
    assert (Hset : forall ics k c, ic_pos c = O -> (forall k c, aget k ics = Some c -> ic_pos c = O) ->
               forall k' c', aget k' (aset k c ics) = Some c' -> ic_pos c' = O).
    { intros ics k c Hc Hcs k' c' H. rewrite aget_aset in H. destruct (N.eqb k' k); [inversion H; subst; exact Hc|eauto]. }
    induction ops as [|o ops IH]; intros ics a st Hcs; cbn [ic_run]; [reflexivity|].
    destruct o as [k j|k|k|k|k|k|k z].
    - destruct (writable k); [|apply IH; exact Hcs]. apply IH. apply Hset; [apply Hget; exact Hcs|exact Hcs].
    - rewrite (Hget ics k Hcs). cbn [ic_pos c0 Nat.eqb negb]. rewrite andb_false_r. apply IH; exact Hcs.
    - rewrite (Hget ics k Hcs). cbn [ic_pos c0 Nat.eqb negb]. rewrite andb_false_r. apply IH; exact Hcs.
    - rewrite (Hget ics k Hcs). cbn [ic_pos c0 Nat.eqb negb]. rewrite andb_false_r. apply IH; exact Hcs.
    - destruct (writable k); [|apply IH; exact Hcs]. cbn [ic_walk]. rewrite (Hget ics k Hcs).
      cbn [length Nat.eqb]. apply IH. apply Hset; [apply Hget; exact Hcs|exact Hcs].
    - destruct (writable k); [|apply IH; exact Hcs]. cbn [ic_walk_rev ic_pos c0].
      apply IH. apply Hset; [reflexivity|exact Hcs].
    - destruct (writable k); [|apply IH; exact Hcs]. cbn [ic_walk]. rewrite (Hget ics k Hcs).
      cbn [length Nat.eqb]. apply IH. apply Hset; [apply Hget; exact Hcs|exact Hcs].
  Qed.
End NoImpl.

(* ------------------------------------------------------------------ *)
(* C13                                                                  *)

Lemma acc_emit_is_snapshot : S_acc_emit_is_snapshot.
Proof.
  intros prog rec rec_ok g arg st go a W Hl Ha. unfold emit_sig, spec_emit_acc. rewrite Hl, Ha.
  set (ops := match aget a (p_accs prog) with Some l => l | None => [] end).
  destruct (g_impl go) as [i|].
  2:{ rewrite acc_run_noimpl_done by (intros k c X; discriminate).
      rewrite ic_run_noimpl_done by (intros k c X; discriminate). reflexivity. }
  destruct (aget i (impls st)) as [im|] eqn:Hi.
  2:{ unfold with_frame, frame_enter. rewrite Hi. reflexivity. }
  unfold with_frame.
  destruct (frame_enter_ok i im st W Hi) as (first & ph & st1 & im1 & E & W1 & Fr & Hfirst).
  rewrite E.
  pose proof (Framed_Open i im ph st st1 im1 W1 Fr) as Op.
  pose proof (fr_ids _ _ _ _ _ _ Fr) as Fids. unfold ids in Fids, Hfirst, Op. rewrite Fids in Hfirst, Op.
  assert (Hrun : acc_run rec (length (i_nodes im1)) i arg (mkCur first false 0) (mkCur ph false 0) ops [] 0 st1 =
                 ic_run rec (length (i_nodes im1)) i (map n_id (i_nodes im)) arg (mkIC O false 0)
                        (mkIC (length (map n_id (i_nodes im))) false 0) ops [] 0 st1).
  { apply (run_sim rec rec_ok i (map n_id (i_nodes im)) ph st1 arg Op).
    - unfold crel. cbn [c_pos c_invoked c_buf ic_pos ic_invoked ic_buf]. auto.
    - unfold crel. cbn [c_pos c_invoked c_buf ic_pos ic_invoked ic_buf]. rewrite nth_error_snoc_end. auto.
    - reflexivity.
    - reflexivity.
    - intro k. exact I.
    - apply Guar_refl. exact W1. }
  rewrite Hrun. reflexivity.
Qed.

Print Assumptions acc_emit_is_snapshot.
