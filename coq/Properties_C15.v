(* Properties_C15.v -- Slots are values: copies are independent, moves empty the source.
   Statements only: each Prop is defined in SigSpec.v (or spelled out here) and closed by a lemma of
   SigSafe.v, SigValues.v; Print Assumptions follows each. *)
From Coq Require Import List NArith Bool.
Import ListNotations.
Require Import Util SigCore SigLemmas SigInv SigSafe SigSpec SigValues SigExtra.
Local Open Scope N_scope.

Theorem C15_default_slot_empty_call_default : S_default_slot_empty.
Proof. exact default_slot_empty. Qed.
Print Assumptions C15_default_slot_empty_call_default.

Theorem C15_copy_independent : S_copy_independent.
Proof. exact copy_independent. Qed.
Print Assumptions C15_copy_independent.

Theorem C15_move_empties_source : S_move_empties_source.
Proof. exact move_empties_source. Qed.
Print Assumptions C15_move_empties_source.

Theorem C15_disconnect_empties : S_disconnect_empties.
Proof. exact disconnect_empties. Qed.
Print Assumptions C15_disconnect_empties.

Theorem C15_operations_on_one_slot_leave_others_alone : S_slot_ops_frame.
Proof. exact slot_ops_frame. Qed.
Print Assumptions C15_operations_on_one_slot_leave_others_alone.

(* assignment: the four branches *)
Theorem C15_assign_copies : S_slot_assign_copies.
Proof. exact slot_assign_copies. Qed.
Print Assumptions C15_assign_copies.
Theorem C15_assign_from_empty_or_invalid_empties : S_slot_assign_from_empty.
Proof. exact slot_assign_from_empty. Qed.
Theorem C15_self_assignment_keeps_the_slot : S_slot_self_assign.
Proof. exact slot_self_assign. Qed.
Theorem C15_move_assign_transfers : S_slot_move_assign.
Proof. exact slot_move_assign. Qed.
Print Assumptions C15_move_assign_transfers.

(* ---- slots that hold other slots by value or refer to slot variables through std::ref (NestModel.v) ---- *)
Require NestSpec NestProofs.

(* copying creates fresh slot_reps only; an existing one changes at most by being adopted when it had no parent *)
Theorem C15_nested_copy_is_fresh : NestSpec.S_nest_copy_fresh.
Proof. exact NestProofs.nest_copy_fresh. Qed.
Print Assumptions C15_nested_copy_is_fresh.
