(* SigInv.v -- the well-formedness invariant of SigCore states and its preservation by the
   primitives that do not run user code. *)
From Coq Require Import List NArith Bool Lia Arith Permutation.
Import ListNotations.
Require Import Util SigCore SigLemmas.
Local Open Scope N_scope.

Definition safe_err (e : error) : Prop :=
  e <> ErrUAF /\ e <> ErrDangling /\ e <> ErrDoubleErase /\ e <> ErrLoop.

Lemma safe_unsupported : safe_err ErrUnsupported.
Proof. repeat split; discriminate. Qed.
Lemma safe_fuel : safe_err ErrFuel.
Proof. repeat split; discriminate. Qed.

(* ------------------------------------------------------------------ *)
(* The invariant                                                        *)

Definition nid_is_ph (n : nid) : bool := match n with Ph _ => true | Real _ => false end.
Definition phc (l : list nid) : nat := length (filter nid_is_ph l).
Definition nid_ok (st : state) (n : nid) : Prop :=
  match n with Real k => k < next_nid st | Ph k => k < next_ph st end.

Definition impl_nodes_ok (st : state) (im : impl) : Prop :=
  NoDup (ids (i_nodes im)) /\ Forall (nid_ok st) (ids (i_nodes im)).

Definition rep_good (st : state) (r : rep) : Prop :=
  r_id r < next_rid st /\ (r_valid r = true -> r_fn r <> None).
Definition rep_detached (r : rep) : Prop := r_attached r = false /\ r_watch r = [].

Record WFstruct (st : state) : Prop := mkWFstruct
  { ws_keys_slots : NoDup (akeys (slots st))
  ; ws_keys_impls : NoDup (akeys (impls st))
  ; ws_iid : forall i, In i (akeys (impls st)) -> i < next_iid st
  ; ws_nodes : forall i im, aget i (impls st) = Some im -> impl_nodes_ok st im
  ; ws_rids : NoDup (map r_id (all_reps st))
  ; ws_good : Forall (rep_good st) (all_reps st)
  ; ws_vars : Forall rep_detached (var_reps st) }.

Definition tl_of (tr : trackable) : list (N * bool) :=
  match t_list tr with Some l => l | None => [] end.

Definition regs (D : demand) (st : state) : Prop :=
  (forall t rid, (0 < dem t rid D)%nat -> live_track t st <> None) /\
  (forall t tr, live_track t st = Some tr -> forall rid, cnt rid (tl_of tr) = dem t rid D).

Definition sig_ok (st : state) : Prop :=
  (forall g, (live_track (trackable_of_sig g) st <> None <->
              exists go, live_sig g st = Some go /\ gk_track (g_kind go) = true) /\
             (aget g (sigs st) = None -> aget (trackable_of_sig g) (tracks st) = None)) /\
  (forall g go i, live_sig g st = Some go -> g_impl go = Some i -> aget i (impls st) <> None).

Definition target_ok (w : wref) (i : N) (n : nid) (st : state) : Prop :=
  exists sb r, get_sb (LNode i n) st = Some sb /\ sb_rep sb = Some r /\ In w (r_watch r).

(* connection pointers are registered at their target, except possibly those in [ex] *)
Definition watch_ok_ex (ex : list wref) (st : state) : Prop :=
  forall w i n, get_connptr w st = Some (Some (i, n)) -> In w ex \/ target_ok w i n st.
Definition watch_ok := watch_ok_ex [].

Record WFc (st : state) : Prop := mkWFc
  { wc_struct : WFstruct st
  ; wc_regs : regs (dem_of (all_reps st)) st
  ; wc_sig : sig_ok st
  ; wc_watch : watch_ok st }.

Definition noclear (st : state) : Prop :=
  forall t tr, live_track t st = Some tr -> t_clearing tr = false.
Definition flags_ok (st : state) : Prop :=
  forall i im, aget i (impls st) = Some im ->
    i_dying im = false /\ (i_exec im = 0 -> i_deferred im = false) /\
    N.of_nat (phc (ids (i_nodes im))) <= i_exec im.

(* the keys of the shared table: user trackables (never the trackable base of a signal), or
   signal objects g < 1000 under the key 2000 + g, or connection objects c < 1000 under the key 4000 + c *)
Definition shkey (k : N) : Prop := k < 1000 \/ (2000 <= k /\ k < 3000) \/ (4000 <= k /\ k < 5000).
Definition shared_ok (st : state) : Prop := Forall (fun e => shkey (fst e)) (shared st).

Record WF (st : state) : Prop := mkWF
  { wf_c : WFc st
  ; wf_noclear : noclear st
  ; wf_flags : flags_ok st
  ; wf_shared : shared_ok st }.

Definition quiescent (st : state) : Prop :=
  forall i im, aget i (impls st) = Some im ->
    i_exec im = 0 /\ i_deferred im = false /\ i_holders im = 0 /\ i_dying im = false /\
    (forall nd n, In nd (i_nodes im) -> n_id nd <> Ph n).

Definition WF_top (st : state) : Prop := WF st /\ quiescent st.

Lemma WF_st0 : WF st0.
Proof.
  constructor; [constructor|..].
  - constructor; cbn; try constructor; try (intros; contradiction); try discriminate.
  - split; [intros t rid H; cbn in H; lia|]. intros t tr H. discriminate.
  - split; [intro g; split; [split|]|].
    + intro H. exfalso. apply H. reflexivity.
    + intros (go & H & _). discriminate.
    + reflexivity.
    + intros g go i H. discriminate.
  - intros w i n H. destruct w; discriminate.
  - intros t tr H. discriminate.
  - intros i im H. discriminate.
  - constructor.
Qed.

Lemma WF_top_st0 : WF_top st0.
Proof. split; [exact WF_st0|]. intros i im H. discriminate. Qed.

(* ------------------------------------------------------------------ *)
(* Frames                                                               *)

(* slots, sigs, impls and the counters are untouched *)
Record same_heavy (st st' : state) : Prop := mkSH
  { sh_slots : slots st' = slots st
  ; sh_sigs : sigs st' = sigs st
  ; sh_impls : impls st' = impls st
  ; sh_rid : next_rid st' = next_rid st
  ; sh_nid : next_nid st' = next_nid st
  ; sh_iid : next_iid st' = next_iid st
  ; sh_ph : next_ph st' = next_ph st
  ; sh_shared : shared st' = shared st }.

Lemma same_heavy_refl st : same_heavy st st.
Proof. constructor; reflexivity. Qed.

Lemma same_heavy_trans a b c : same_heavy a b -> same_heavy b c -> same_heavy a c.
Proof. intros [] []. constructor; congruence. Qed.

(* effect of nulling entries of a callback list that is being walked *)
Definition nulled (l l' : list (N * bool)) : Prop :=
  length l' = length l /\
  forall j d f, nth_error l j = Some (d, f) -> exists f', nth_error l' j = Some (d, f') /\ (f = false -> f' = false).

Lemma nulled_refl l : nulled l l.
Proof. split; [reflexivity|]. intros j d f H. exists f. auto. Qed.

Lemma nulled_trans a b c : nulled a b -> nulled b c -> nulled a c.
Proof.
  intros [L1 H1] [L2 H2]. split; [congruence|]. intros j d f H.
  destruct (H1 _ _ _ H) as (f1 & E1 & F1). destruct (H2 _ _ _ E1) as (f2 & E2 & F2).
  exists f2. split; [exact E2|auto].
Qed.

Definition tlive_same (st st' : state) : Prop :=
  forall t, (aget t (tracks st') = None <-> aget t (tracks st) = None) /\
            option_map t_clearing (live_track t st') = option_map t_clearing (live_track t st) /\
            (forall tr, live_track t st = Some tr -> t_clearing tr = true ->
               exists tr', live_track t st' = Some tr' /\ nulled (tl_of tr) (tl_of tr')).

Lemma tlive_same_refl st : tlive_same st st.
Proof.
  intro t. split; [reflexivity|]. split; [reflexivity|]. intros tr H _. exists tr. split; [exact H|apply nulled_refl].
Qed.

Lemma tlive_same_trans a b c : tlive_same a b -> tlive_same b c -> tlive_same a c.
Proof.
  intros H1 H2 t. destruct (H1 t) as (A1 & B1 & C1), (H2 t) as (A2 & B2 & C2).
  split; [tauto|]. split; [congruence|]. intros tr Hl Hc.
  destruct (C1 tr Hl Hc) as (tr1 & Hl1 & N1).
  assert (Hc1 : t_clearing tr1 = true).
  { rewrite Hl, Hl1 in B1. cbn [option_map] in B1. congruence. }
  destruct (C2 tr1 Hl1 Hc1) as (tr2 & Hl2 & N2). exists tr2. split; [exact Hl2|eapply nulled_trans; eauto].
Qed.

Lemma tlive_live st st' t : tlive_same st st' -> (live_track t st' <> None <-> live_track t st <> None).
Proof.
  intro H. destruct (H t) as (_ & E & _).
  destruct (live_track t st'), (live_track t st); cbn [option_map] in E; split; intro X; congruence.
Qed.

Lemma tlive_noclear st st' : tlive_same st st' -> noclear st -> noclear st'.
Proof.
  intros T Hnc t' tr' Hl'. destruct (T t') as (_ & E & _). rewrite Hl' in E. cbn [option_map] in E.
  destruct (live_track t' st) as [tr0|] eqn:Hl0; cbn [option_map] in E; [|discriminate].
  inversion E as [E2]. rewrite E2. exact (Hnc _ _ Hl0).
Qed.

Lemma tlive_tracks_eq st st' : tracks st' = tracks st -> tlive_same st st'.
Proof.
  intros E t. unfold live_track. rewrite E. split; [reflexivity|]. split; [reflexivity|].
  intros tr H _. exists tr. split; [exact H|apply nulled_refl].
Qed.

Lemma all_reps_heavy st st' : same_heavy st st' -> all_reps st' = all_reps st.
Proof. intros []. unfold all_reps, var_reps, node_reps. congruence. Qed.

Lemma var_reps_heavy st st' : same_heavy st st' -> var_reps st' = var_reps st.
Proof. intros []. unfold var_reps. congruence. Qed.

Lemma WFstruct_heavy st st' : same_heavy st st' -> WFstruct st -> WFstruct st'.
Proof.
  intros Hh [ws_keys_slots0 ws_keys_impls0 ws_iid0 ws_nodes0 ws_rids0 ws_good0 ws_vars0]. pose proof (all_reps_heavy _ _ Hh) as Ea. pose proof (var_reps_heavy _ _ Hh) as Ev.
  destruct Hh as [sh_slots0 sh_sigs0 sh_impls0 sh_rid0 sh_nid0 sh_iid0 sh_ph0 sh_shared0]. constructor; rewrite ?Ea, ?Ev; try congruence.
  - rewrite sh_impls0, sh_iid0. assumption.
  - rewrite sh_impls0. intros i im Hi. destruct (ws_nodes0 i im Hi) as (A & B).
    split; [exact A|].
    eapply Forall_impl; [|exact B]. intros [k|k]; unfold nid_ok; congruence.
  - eapply Forall_impl; [|exact ws_good0]. unfold rep_good. intros r. rewrite sh_rid0. tauto.
Qed.

Lemma get_sb_node_impls st st' i n : impls st' = impls st -> get_sb (LNode i n) st' = get_sb (LNode i n) st.
Proof. intro E. rewrite !get_sb_node, E. reflexivity. Qed.

Lemma sig_ok_transfer st st' : sigs st' = sigs st -> tlive_same st st' ->
  (forall i, aget i (impls st) <> None -> aget i (impls st') <> None) ->
  sig_ok st -> sig_ok st'.
Proof.
  intros Es Ht Hi [H1 H2]. split.
  - intro g. destruct (H1 g) as [A B]. unfold live_sig in *. rewrite Es. split.
    + rewrite (tlive_live _ _ _ Ht). exact A.
    + intro X. apply (Ht (trackable_of_sig g)). auto.
  - intros g go i Hl Hg. unfold live_sig in *. rewrite Es in Hl. apply Hi. eapply H2; eauto.
Qed.

Lemma regs_dem_eq D D' st : (forall t rid, dem t rid D = dem t rid D') -> regs D st -> regs D' st.
Proof.
  intros E [H1 H2]. split.
  - intros t rid H. rewrite <- E in H. eauto.
  - intros t tr H rid. rewrite <- E. eauto.
Qed.

Lemma regs_perm D D' st : Permutation D D' -> regs D st -> regs D' st.
Proof. intro P. apply regs_dem_eq. intros. apply dem_perm. exact P. Qed.

Lemma regs_tracks_eq D st st' : tracks st' = tracks st -> regs D st -> regs D st'.
Proof. intros E [H1 H2]. unfold regs, live_track. rewrite E. split; assumption. Qed.

(* ------------------------------------------------------------------ *)
(* trackable callback lists                                             *)

Lemma live_set_track t t' tr st :
  live_track t' (set_track t tr st) = if N.eqb t' t then Some tr else live_track t' st.
Proof.
  unfold live_track, set_track. cbn [tracks with_tracks]. rewrite aget_aset.
  destruct (N.eqb t' t); reflexivity.
Qed.

Lemma set_track_heavy t tr st : same_heavy st (set_track t tr st).
Proof. constructor; reflexivity. Qed.

Lemma set_track_tlive t tr tr0 st : live_track t st = Some tr0 -> t_clearing tr = t_clearing tr0 ->
  (t_clearing tr0 = true -> nulled (tl_of tr0) (tl_of tr)) ->
  tlive_same st (set_track t tr st).
Proof.
  intros Hl Hc Hn t'. split; [|split].
  - unfold set_track. cbn [tracks with_tracks]. rewrite aget_aset. destruct (N.eqb_spec t' t) as [->|Hne]; [|reflexivity].
    unfold live_track in Hl. destruct (aget t (tracks st)) as [[x|]|]; try discriminate. split; discriminate.
  - rewrite live_set_track. destruct (N.eqb_spec t' t) as [->|Hne]; [|reflexivity].
    rewrite Hl. cbn [option_map]. congruence.
  - intros tr1 Hl1 Hc1. rewrite live_set_track. destruct (N.eqb_spec t' t) as [->|Hne].
    + exists tr. split; [reflexivity|]. rewrite Hl in Hl1. inversion Hl1; subst tr1. auto.
    + exists tr1. split; [exact Hl1|apply nulled_refl].
Qed.

Lemma dem_cons t rid rid' refs D :
  dem t rid ((rid', refs) :: D) = ((if N.eqb rid' rid then count_occ N.eq_dec refs t else O) + dem t rid D)%nat.
Proof. reflexivity. Qed.

Lemma track_add_ok t rid D st tr : live_track t st = Some tr -> t_clearing tr = false -> regs D st ->
  exists st', track_add t rid st = Ok st' /\ regs ((rid, [t]) :: D) st' /\
              same_heavy st st' /\ tlive_same st st' /\ conns st' = conns st /\ sconns st' = sconns st.
Proof.
  intros Hl Hc [R1 R2]. unfold track_add. rewrite Hl, Hc. eexists. split; [reflexivity|].
  split; [|split; [apply set_track_heavy|split; [eapply set_track_tlive; eauto; intro X; congruence|split; reflexivity]]].
  split.
  - intros t' rid' H. rewrite live_set_track. destruct (N.eqb_spec t' t) as [->|Hn]; [discriminate|].
    rewrite dem_cons in H. cbn [count_occ] in H. destruct (N.eq_dec t t'); [congruence|].
    apply (R1 t' rid'). destruct (N.eqb rid rid'); cbn [Nat.add] in H; exact H.
  - intros t' tr' H rid'. rewrite live_set_track in H. rewrite dem_cons. cbn [count_occ].
    destruct (N.eqb_spec t' t) as [->|Hn].
    + inversion H; subst tr'. unfold tl_of at 1. cbn [t_list]. rewrite cnt_app. fold (tl_of tr).
      rewrite (R2 t tr Hl rid'). rewrite cnt_cons. unfold cnt at 1. cbn [filter length].
      destruct (N.eq_dec t t); [|congruence]. rewrite andb_true_r. destruct (N.eqb rid rid'); lia.
    + destruct (N.eq_dec t t'); [congruence|]. rewrite (R2 t' tr' H rid'). destruct (N.eqb rid rid'); lia.
Qed.

Lemma track_remove_ok t rid refs D st :
  regs ((rid, t :: refs) :: D) st ->
  exists st', track_remove t rid st = Ok st' /\ regs ((rid, refs) :: D) st' /\
              same_heavy st st' /\ tlive_same st st' /\ conns st' = conns st /\ sconns st' = sconns st.
Proof.
  intros [R1 R2].
  assert (Hpos : (0 < dem t rid ((rid, t :: refs) :: D))%nat).
  { rewrite dem_cons, N.eqb_refl. cbn [count_occ]. destruct (N.eq_dec t t); [lia|congruence]. }
  destruct (live_track t st) as [tr|] eqn:Hl; [|exfalso; exact (R1 _ _ Hpos Hl)].
  unfold track_remove. rewrite Hl.
  set (l := match t_list tr with Some l => l | None => [] end).
  assert (Hgen : forall l', (forall rid', cnt rid' l' = if N.eqb rid' rid then pred (cnt rid l) else cnt rid' l) ->
     forall c, c = t_clearing tr -> (c = true -> nulled l l') ->
     regs ((rid, refs) :: D) (set_track t (mkTr (Some l') c) st) /\
     same_heavy st (set_track t (mkTr (Some l') c) st) /\
     tlive_same st (set_track t (mkTr (Some l') c) st)).
  { intros l' Hl' c Hc Hnl. split; [|split; [apply set_track_heavy|eapply set_track_tlive; eauto; cbn [t_clearing]; intro X; apply Hnl; congruence]].
    split.
    - intros t' rid' H. rewrite live_set_track. destruct (N.eqb_spec t' t) as [->|Hn]; [discriminate|].
      apply (R1 t' rid'). rewrite dem_cons in *. cbn [count_occ]. destruct (N.eq_dec t t'); [congruence|]. exact H.
    - intros t' tr' H rid'. rewrite live_set_track in H. destruct (N.eqb_spec t' t) as [->|Hn].
      + inversion H; subst tr'. unfold tl_of at 1. cbn [t_list]. rewrite Hl'.
        pose proof (R2 t tr Hl rid') as E1. pose proof (R2 t tr Hl rid) as E2. fold l in E1, E2. unfold tl_of in E1, E2. fold l in E1, E2.
        rewrite dem_cons in *. cbn [count_occ] in *. destruct (N.eq_dec t t); [|congruence].
        rewrite N.eqb_refl in E2. destruct (N.eqb_spec rid' rid) as [->|Hn].
        * rewrite N.eqb_refl. rewrite E2. lia.
        * destruct (N.eqb_spec rid rid'); [congruence|]. destruct (N.eqb_spec rid rid'); [congruence|]. exact E1.
      + rewrite (R2 t' tr' H rid'). rewrite !dem_cons. cbn [count_occ]. destruct (N.eq_dec t t'); [congruence|]. reflexivity. }
  destruct (t_clearing tr) eqn:Hc; eexists; (split; [reflexivity|]).
  - assert (Hnl : nulled l (cb_null_first rid l)).
    { split; [apply null_length|]. intros j d f Hj. apply null_nth. exact Hj. }
    destruct (Hgen (cb_null_first rid l) (fun r => cnt_null rid r l) true eq_refl (fun _ => Hnl)) as (A & B & C).
    split; [exact A|split; [exact B|split; [exact C|split; reflexivity]]].
  - assert (Hnl : false = true -> nulled l (cb_erase_first rid l)) by discriminate.
    destruct (Hgen (cb_erase_first rid l) (fun r => cnt_erase rid r l) false eq_refl Hnl) as (A & B & C).
    split; [exact A|split; [exact B|split; [exact C|split; reflexivity]]].
Qed.

Lemma regs_drop_nil rid D st : regs ((rid, []) :: D) st -> regs D st.
Proof.
  apply regs_dem_eq. intros t r. rewrite dem_cons. cbn [count_occ]. destruct (N.eqb rid r); reflexivity.
Qed.

Lemma unbind_all_ok rid refs : forall D st,
  regs ((rid, refs) :: D) st ->
  exists st', unbind_all rid refs st = Ok st' /\ regs D st' /\
              same_heavy st st' /\ tlive_same st st' /\ conns st' = conns st /\ sconns st' = sconns st.
Proof.
  induction refs as [|t refs IH]; intros D st H; cbn [unbind_all].
  - exists st. split; [reflexivity|]. split; [eapply regs_drop_nil; eauto|].
    split; [apply same_heavy_refl|split; [apply tlive_same_refl|split; reflexivity]].
  - destruct (track_remove_ok _ _ _ _ _ H) as (st1 & E1 & R1 & H1 & T1 & C1 & K1).
    rewrite E1. cbn [rbind]. destruct (IH D st1 R1) as (st2 & E2 & R2 & H2 & T2 & C2 & K2).
    exists st2. split; [exact E2|]. split; [exact R2|].
    split; [eapply same_heavy_trans; eauto|split; [eapply tlive_same_trans; eauto|split; congruence]].
Qed.

Lemma bind_all_ok rid refs : forall D st,
  regs D st -> noclear st -> (forall t, In t refs -> live_track t st <> None) ->
  exists st', bind_all rid refs st = Ok st' /\ regs ((rid, refs) :: D) st' /\
              same_heavy st st' /\ tlive_same st st' /\ conns st' = conns st /\ sconns st' = sconns st.
Proof.
  induction refs as [|t refs IH]; intros D st H Hnc Hlive; cbn [bind_all].
  - exists st. split; [reflexivity|]. split.
    + eapply regs_dem_eq; [|exact H]. intros t r. rewrite dem_cons. cbn [count_occ]. destruct (N.eqb rid r); reflexivity.
    + split; [apply same_heavy_refl|split; [apply tlive_same_refl|split; reflexivity]].
  - destruct (live_track t st) as [tr|] eqn:Hl; [|exfalso; apply (Hlive t); [left; reflexivity|exact Hl]].
    destruct (track_add_ok t rid D st tr Hl (Hnc _ _ Hl) H) as (st1 & E1 & R1 & H1 & T1 & C1 & K1).
    rewrite E1. cbn [rbind].
    assert (Hnc1 : noclear st1) by (eapply tlive_noclear; eauto).
    assert (Hlive1 : forall t', In t' refs -> live_track t' st1 <> None).
    { intros t' Hi. apply (tlive_live _ _ _ T1). apply Hlive. right; exact Hi. }
    destruct (IH _ st1 R1 Hnc1 Hlive1) as (st2 & E2 & R2 & H2 & T2 & C2 & K2).
    exists st2. split; [exact E2|]. split.
    + eapply regs_dem_eq; [|exact R2]. intros t' r. rewrite !dem_cons. cbn [count_occ].
      destruct (N.eqb rid r); destruct (N.eq_dec t t'); lia.
    + split; [eapply same_heavy_trans; eauto|split; [eapply tlive_same_trans; eauto|split; congruence]].
Qed.

(* ------------------------------------------------------------------ *)
(* WFstruct under elementary updates                                    *)

Lemma NoDup_map_replace {A B} (f : A -> B) a x x' b :
  NoDup (map f (a ++ x ++ b)) -> NoDup (map f x') ->
  (forall y, In y x' -> In (f y) (map f x) \/ ~ In (f y) (map f (a ++ x ++ b))) ->
  NoDup (map f (a ++ x' ++ b)).
Proof.
  rewrite !map_app. intros H Hx' Hy.
  apply NoDup_app_iff in H. destruct H as (Ha & Hxb & Hd1).
  apply NoDup_app_iff in Hxb. destruct Hxb as (Hx & Hb & Hd2).
  assert (Hfresh : forall z, In z (map f x') -> ~ In z (map f a) /\ ~ In z (map f b)).
  { intros z Hz. apply in_map_iff in Hz. destruct Hz as (y & <- & Hyi).
    destruct (Hy y Hyi) as [Hin|Hnin].
    - split.
      + intro Hi. apply (Hd1 _ Hi). apply in_or_app. left; exact Hin.
      + apply Hd2. exact Hin.
    - split; intro Hi; apply Hnin; rewrite !in_app_iff; auto. }
  apply NoDup_app_iff. split; [exact Ha|]. split.
  - apply NoDup_app_iff. split; [exact Hx'|]. split; [exact Hb|].
    intros z Hz. apply (Hfresh z Hz).
  - intros z Hz Hz'. apply in_app_or in Hz'. destruct Hz' as [Hz'|Hz'].
    + destruct (Hfresh z Hz') as [X _]. exact (X Hz).
    + apply (Hd1 z Hz). apply in_or_app. right; exact Hz'.
Qed.

Lemma Forall_replace {A} (P : A -> Prop) a x x' b :
  Forall P (a ++ x ++ b) -> Forall P x' -> Forall P (a ++ x' ++ b).
Proof.
  rewrite !Forall_app. intros (Ha & _ & Hb) Hx'. auto.
Qed.

Definition reps_upd_ok (st : state) (Y Y' : list rep) : Prop :=
  NoDup (map r_id Y') /\ Forall (rep_good st) Y' /\
  (forall r', In r' Y' -> In (r_id r') (map r_id Y) \/ ~ In (r_id r') (map r_id (all_reps st))).

Lemma reps_upd_nil st Y : reps_upd_ok st Y [].
Proof. split; [constructor|]. split; [constructor|]. intros r' []. Qed.

Lemma reps_upd_same_ids st L Y Y' R :
  all_reps st = L ++ Y ++ R -> NoDup (map r_id (all_reps st)) ->
  map r_id Y' = map r_id Y -> Forall (rep_good st) Y' -> reps_upd_ok st Y Y'.
Proof.
  intros E Hnd Hm Hg. split; [|split; [exact Hg|]].
  - rewrite Hm. rewrite E, !map_app in Hnd. apply NoDup_app_r in Hnd. apply NoDup_app_l in Hnd. exact Hnd.
  - intros r' Hi. left. rewrite <- Hm. apply in_map. exact Hi.
Qed.

Lemma reps_upd_refl st L Y R :
  all_reps st = L ++ Y ++ R -> NoDup (map r_id (all_reps st)) -> Forall (rep_good st) (all_reps st) ->
  reps_upd_ok st Y Y.
Proof.
  intros E Hnd Hg. eapply reps_upd_same_ids; eauto.
  rewrite E, !Forall_app in Hg. tauto.
Qed.

Lemma reps_replace st st' L Y Y' R :
  all_reps st = L ++ Y ++ R -> all_reps st' = L ++ Y' ++ R -> next_rid st' = next_rid st ->
  reps_upd_ok st Y Y' -> NoDup (map r_id (all_reps st)) -> Forall (rep_good st) (all_reps st) ->
  NoDup (map r_id (all_reps st')) /\ Forall (rep_good st') (all_reps st').
Proof.
  intros E E' En (U1 & U2 & U3) Hnd Hg. rewrite E'. split.
  - rewrite E in Hnd. eapply NoDup_map_replace; eauto. intros y Hy. rewrite <- E. auto.
  - assert (X : forall r, rep_good st r -> rep_good st' r) by (unfold rep_good; intro r; rewrite En; tauto).
    rewrite E in Hg. eapply Forall_impl; [exact X|]. eapply Forall_replace; eauto.
Qed.

Lemma nid_ok_mono st st' n : next_nid st <= next_nid st' -> next_ph st <= next_ph st' ->
  nid_ok st n -> nid_ok st' n.
Proof. destruct n; unfold nid_ok; lia. Qed.

Lemma WFstruct_mono st st' : slots st' = slots st -> impls st' = impls st ->
  next_rid st <= next_rid st' -> next_nid st <= next_nid st' -> next_iid st <= next_iid st' ->
  next_ph st <= next_ph st' -> WFstruct st -> WFstruct st'.
Proof.
  intros Es Ei Hr Hn Hi Hp [ws_keys_slots0 ws_keys_impls0 ws_iid0 ws_nodes0 ws_rids0 ws_good0 ws_vars0].
  assert (Ea : all_reps st' = all_reps st) by (unfold all_reps, var_reps, node_reps; congruence).
  assert (Ev : var_reps st' = var_reps st) by (unfold var_reps; congruence).
  constructor; rewrite ?Ea, ?Ev, ?Es, ?Ei; try assumption.
  - intros i Hin. specialize (ws_iid0 i Hin). lia.
  - intros i im Hg. destruct (ws_nodes0 i im Hg) as (A & B). split; [exact A|].
    eapply Forall_impl; [|exact B]. intro n. apply nid_ok_mono; assumption.
  - eapply Forall_impl; [|exact ws_good0]. unfold rep_good. intros r (A & B). split; [lia|exact B].
Qed.

(* replacing a block of nodes of impl i *)
Lemma set_impl_nodes_reps st i im im' P Y Y' Q :
  aget i (impls st) = Some im -> i_nodes im = P ++ Y ++ Q -> i_nodes im' = P ++ Y' ++ Q ->
  exists L R, all_reps st = L ++ nodes_reps Y ++ R /\
              all_reps (set_impl i im' st) = L ++ nodes_reps Y' ++ R.
Proof.
  intros Hi En En'. destruct (node_reps_present _ _ _ Hi) as (A & B & H1 & H2 & _).
  exists (var_reps st ++ A ++ nodes_reps P), (nodes_reps Q ++ B).
  unfold all_reps, node_reps, set_impl. cbn [impls with_impls]. rewrite H1, H2, En, En'.
  rewrite !nodes_reps_app, <- !app_assoc. split; reflexivity.
Qed.

Lemma WFstruct_set_impl st i im im' P Y Y' Q :
  WFstruct st -> aget i (impls st) = Some im ->
  i_nodes im = P ++ Y ++ Q -> i_nodes im' = P ++ Y' ++ Q ->
  NoDup (ids (i_nodes im')) -> Forall (nid_ok st) (ids Y') ->
  reps_upd_ok st (nodes_reps Y) (nodes_reps Y') ->
  WFstruct (set_impl i im' st).
Proof.
  intros [ws_keys_slots0 ws_keys_impls0 ws_iid0 ws_nodes0 ws_rids0 ws_good0 ws_vars0] Hi En En' Hnd Hok Hup.
  destruct (set_impl_nodes_reps _ _ _ _ _ _ _ _ Hi En En') as (L & R & E & E').
  destruct (reps_replace _ _ _ _ _ _ E E' eq_refl Hup ws_rids0 ws_good0) as (N1 & N2).
  constructor; try assumption.
  - unfold set_impl. cbn [impls with_impls]. apply nodup_keys_aset. exact ws_keys_impls0.
  - unfold set_impl. cbn [impls with_impls next_iid]. intros j Hj. apply in_keys_aset in Hj.
    destruct Hj as [->|Hj]; [|auto]. apply ws_iid0. eapply aget_some_in_keys; eauto.
  - unfold set_impl. cbn [impls with_impls]. intros j imj. rewrite aget_aset.
    destruct (N.eqb_spec j i) as [->|Hn]; [|apply ws_nodes0].
    intro H. inversion H; subst imj. split; [exact Hnd|].
    destruct (ws_nodes0 i im Hi) as (_ & B). rewrite En in B. rewrite En'.
    unfold ids in *. rewrite !map_app, !Forall_app in *. tauto.
Qed.

Lemma set_slot_reps st s o o' :
  aget s (slots st) = Some o ->
  exists L R, all_reps st = L ++ slot_reps o ++ R /\
              all_reps (with_slots (aset s o' (slots st)) st) = L ++ slot_reps o' ++ R /\
              exists L', var_reps st = L ++ slot_reps o ++ L' /\
                         var_reps (with_slots (aset s o' (slots st)) st) = L ++ slot_reps o' ++ L'.
Proof.
  intro H. destruct (var_reps_present _ _ _ H) as (A & B & H1 & H2).
  exists A, (B ++ node_reps st). unfold all_reps, var_reps, node_reps. cbn [slots impls with_slots].
  rewrite H1, H2, <- !app_assoc. split; [reflexivity|]. split; [reflexivity|].
  exists B. split; reflexivity.
Qed.

Lemma WFstruct_set_slot st s o o' :
  WFstruct st -> aget s (slots st) = Some o ->
  reps_upd_ok st (slot_reps o) (slot_reps o') -> Forall rep_detached (slot_reps o') ->
  WFstruct (with_slots (aset s o' (slots st)) st).
Proof.
  intros [ws_keys_slots0 ws_keys_impls0 ws_iid0 ws_nodes0 ws_rids0 ws_good0 ws_vars0] Hs Hup Hdet.
  destruct (set_slot_reps st s o o' Hs) as (L & R & E & E' & L' & V & V').
  destruct (reps_replace _ _ _ _ _ _ E E' eq_refl Hup ws_rids0 ws_good0) as (N1 & N2).
  constructor; try assumption.
  - cbn [slots with_slots]. apply nodup_keys_aset. exact ws_keys_slots0.
  - rewrite V'. rewrite V in ws_vars0. eapply Forall_replace; eauto.
Qed.

Lemma WFstruct_new_slot st s o' :
  WFstruct st -> aget s (slots st) = None ->
  reps_upd_ok st [] (slot_reps o') -> Forall rep_detached (slot_reps o') ->
  WFstruct (with_slots (aset s o' (slots st)) st).
Proof.
  intros [ws_keys_slots0 ws_keys_impls0 ws_iid0 ws_nodes0 ws_rids0 ws_good0 ws_vars0] Hs Hup Hdet.
  assert (V' : var_reps (with_slots (aset s o' (slots st)) st) = var_reps st ++ slot_reps o').
  { unfold var_reps. cbn [slots with_slots]. apply var_reps_absent. exact Hs. }
  assert (E : all_reps st = var_reps st ++ [] ++ node_reps st) by reflexivity.
  assert (E' : all_reps (with_slots (aset s o' (slots st)) st) = var_reps st ++ slot_reps o' ++ node_reps st).
  { unfold all_reps at 1. rewrite V'. rewrite <- app_assoc. reflexivity. }
  destruct (reps_replace _ _ _ _ _ _ E E' eq_refl Hup ws_rids0 ws_good0) as (N1 & N2).
  constructor; try assumption.
  - cbn [slots with_slots]. apply nodup_keys_aset. exact ws_keys_slots0.
  - rewrite V'. apply Forall_app. split; assumption.
Qed.

Lemma WFstruct_new_impl st :
  WFstruct st ->
  WFstruct (set_impl (next_iid st) (mkImpl [] 0 false 0 false) (with_next_iid (next_iid st + 1) st)).
Proof.
  intros [ws_keys_slots0 ws_keys_impls0 ws_iid0 ws_nodes0 ws_rids0 ws_good0 ws_vars0].
  assert (Hn : aget (next_iid st) (impls st) = None).
  { apply aget_none_iff. intro Hin. specialize (ws_iid0 _ Hin). lia. }
  assert (Ea : all_reps (set_impl (next_iid st) (mkImpl [] 0 false 0 false) (with_next_iid (next_iid st + 1) st)) = all_reps st).
  { unfold all_reps, var_reps, node_reps, set_impl. cbn [slots impls with_impls with_next_iid].
    rewrite (node_reps_absent _ _ _ Hn). cbn [i_nodes nodes_reps flat_map]. rewrite app_nil_r. reflexivity. }
  constructor; rewrite ?Ea; try assumption.
  - unfold set_impl. cbn [impls with_impls]. apply nodup_keys_aset. exact ws_keys_impls0.
  - unfold set_impl. cbn [impls with_impls next_iid with_next_iid]. intros j Hj. apply in_keys_aset in Hj.
    destruct Hj as [->|Hj]; [lia|]. specialize (ws_iid0 j Hj). lia.
  - unfold set_impl. cbn [impls with_impls with_next_iid]. intros j imj. rewrite aget_aset.
    destruct (N.eqb_spec j (next_iid st)) as [->|Hne].
    + intro H. inversion H; subst imj. split; cbn [i_nodes ids map]; constructor.
    + intro H. destruct (ws_nodes0 j imj H) as (A & B). split; [exact A|exact B].
Qed.

Lemma WFstruct_del_impl st i im :
  WFstruct st -> aget i (impls st) = Some im -> i_nodes im = [] ->
  WFstruct (with_impls (adel i (impls st)) st).
Proof.
  intros [ws_keys_slots0 ws_keys_impls0 ws_iid0 ws_nodes0 ws_rids0 ws_good0 ws_vars0] Hi Hn.
  assert (Ea : all_reps (with_impls (adel i (impls st)) st) = all_reps st).
  { unfold all_reps, var_reps, node_reps. cbn [slots impls with_impls].
    destruct (node_reps_present _ _ _ Hi) as (A & B & H1 & _ & H3). rewrite H1, H3, Hn. reflexivity. }
  constructor; rewrite ?Ea; try assumption.
  - cbn [impls with_impls]. apply nodup_keys_adel. exact ws_keys_impls0.
  - cbn [impls with_impls next_iid]. intros j Hj. apply ws_iid0. eapply in_keys_adel; eauto.
  - cbn [impls with_impls]. intros j imj Hj. destruct (N.eq_dec j i) as [->|Hne].
    + rewrite aget_adel_same in Hj by assumption. discriminate.
    + rewrite aget_adel_other in Hj by assumption. exact (ws_nodes0 j imj Hj).
Qed.

(* ------------------------------------------------------------------ *)
(* The frame of library-internal cascades                               *)

Definition impl_same (im im' : impl) : Prop :=
  i_exec im' = i_exec im /\ i_holders im' = i_holders im /\ i_dying im' = i_dying im /\
  (0 < i_exec im -> exists pre post, ids (i_nodes im') = pre ++ ids (i_nodes im) ++ post) /\
  (i_exec im = 0 -> i_deferred im' = i_deferred im) /\
  (phc (ids (i_nodes im')) <= phc (ids (i_nodes im)))%nat.

Lemma impl_same_ids im im' :
  i_exec im' = i_exec im -> i_holders im' = i_holders im -> i_dying im' = i_dying im ->
  ids (i_nodes im') = ids (i_nodes im) -> (i_exec im = 0 -> i_deferred im' = i_deferred im) ->
  impl_same im im'.
Proof.
  intros H1 H2 H3 H4 H5. split; [exact H1|]. split; [exact H2|]. split; [exact H3|]. split; [|split; [exact H5|]].
  - intros _. exists [], []. rewrite H4, app_nil_r. reflexivity.
  - rewrite H4. lia.
Qed.

Lemma impl_same_refl im : impl_same im im.
Proof. apply impl_same_ids; auto. Qed.

Lemma impl_same_trans a b c : impl_same a b -> impl_same b c -> impl_same a c.
Proof.
  intros (A1 & A2 & A3 & A4 & A5 & A6) (B1 & B2 & B3 & B4 & B5 & B6).
  split; [congruence|]. split; [congruence|]. split; [congruence|]. split; [|split].
  - intro H. destruct (A4 H) as (p1 & q1 & E1). destruct B4 as (p2 & q2 & E2); [lia|].
    exists (p2 ++ p1), (q1 ++ q2). rewrite E2, E1, <- !app_assoc. reflexivity.
  - intro H. rewrite B5 by lia. auto.
  - lia.
Qed.

Record Casc (st st' : state) : Prop := mkCasc
  { ca_sigs : sigs st' = sigs st
  ; ca_iid : next_iid st' = next_iid st
  ; ca_shared : shared st' = shared st
  ; ca_tracks : tlive_same st st'
  ; ca_impls : forall i, match aget i (impls st), aget i (impls st') with
                         | Some im, Some im' => impl_same im im'
                         | None, None => True
                         | _, _ => False
                         end }.

Lemma Casc_refl st : Casc st st.
Proof.
  constructor; [reflexivity|reflexivity|reflexivity|apply tlive_same_refl|].
  intro i. destruct (aget i (impls st)); [apply impl_same_refl|exact I].
Qed.

Lemma Casc_trans a b c : Casc a b -> Casc b c -> Casc a c.
Proof.
  intros [S1 N1 X1 T1 I1] [S2 N2 X2 T2 I2]. constructor; [congruence|congruence|congruence|eapply tlive_same_trans; eauto|].
  intro i. specialize (I1 i). specialize (I2 i).
  destruct (aget i (impls a)), (aget i (impls b)), (aget i (impls c)); try tauto.
  eapply impl_same_trans; eauto.
Qed.

Lemma Casc_heavy st st' : same_heavy st st' -> tlive_same st st' -> Casc st st'.
Proof.
  intros [sh_slots0 sh_sigs0 sh_impls0 sh_rid0 sh_nid0 sh_iid0 sh_ph0 sh_shared0] T. constructor; [assumption|assumption|assumption|assumption|].
  intro i. rewrite sh_impls0. destruct (aget i (impls st)); [apply impl_same_refl|exact I].
Qed.

Lemma Casc_impl_present st st' i : Casc st st' -> (aget i (impls st) <> None <-> aget i (impls st') <> None).
Proof.
  intros [ca_sigs0 ca_iid0 ca_shared0 ca_tracks0 ca_impls0]. specialize (ca_impls0 i).
  destruct (aget i (impls st)), (aget i (impls st')); try tauto; split; congruence.
Qed.

(* ------------------------------------------------------------------ *)
(* watchers                                                             *)

Lemma get_connptr_eq st st' w : conns st' = conns st -> sconns st' = sconns st ->
  get_connptr w st' = get_connptr w st.
Proof. intros E1 E2. destruct w; unfold get_connptr; rewrite ?E1, ?E2; reflexivity. Qed.

Lemma target_ok_impls st st' w i n : impls st' = impls st -> target_ok w i n st -> target_ok w i n st'.
Proof.
  intros E (sb & r & H1 & H2 & H3). exists sb, r. rewrite (get_sb_node_impls _ _ _ _ E). auto.
Qed.

Lemma watch_ok_ex_transfer st st' ex : impls st' = impls st -> conns st' = conns st ->
  sconns st' = sconns st -> watch_ok_ex ex st -> watch_ok_ex ex st'.
Proof.
  intros Ei Ec Ek H w i n Hg. rewrite (get_connptr_eq _ _ _ Ec Ek) in Hg.
  destruct (H w i n Hg) as [X|X]; [left; exact X|right; eapply target_ok_impls; eauto].
Qed.

Lemma watch_ok_ex_weaken ex ex' st : incl ex ex' -> watch_ok_ex ex st -> watch_ok_ex ex' st.
Proof. intros Hi H w i n Hg. destruct (H w i n Hg) as [X|X]; [left; apply Hi; exact X|right; exact X]. Qed.

Lemma null_watchers_ok ws ex st : watch_ok_ex (ws ++ ex) st -> watch_ok_ex ex (null_watchers ws st).
Proof.
  intros H w i n Hg. rewrite get_connptr_null_watchers in Hg.
  destruct (existsb (wref_eqb w) ws) eqn:E; [destruct (get_connptr w st); discriminate|].
  destruct (H w i n Hg) as [X|X].
  - apply in_app_or in X. destruct X as [X|X]; [|left; exact X].
    apply existsb_wref in X. congruence.
  - right. eapply target_ok_impls; [|exact X].
    destruct (null_watchers_fields ws st) as (_ & _ & Ei & _). exact Ei.
Qed.

Lemma null_watchers_heavy ws st : same_heavy st (null_watchers ws st).
Proof.
  destruct (null_watchers_fields ws st) as (H1 & H2 & H3 & H4 & H5 & H6 & H7 & H8).
  constructor; try assumption. apply null_watchers_shared.
Qed.

Lemma null_watchers_tracks ws st : tracks (null_watchers ws st) = tracks st.
Proof. destruct (null_watchers_fields ws st) as (H1 & H2 & H3 & H4 & _). exact H4. Qed.

(* `delete rep` of a rep value taken out of its owner *)
Lemma rep_delete_ok r D ex st :
  regs ((r_id r, refs_of r) :: D) st -> watch_ok_ex (r_watch r ++ ex) st ->
  exists st', rep_delete r st = Ok st' /\ regs D st' /\ watch_ok_ex ex st' /\
              same_heavy st st' /\ tlive_same st st'.
Proof.
  intros HR HW. unfold rep_delete.
  set (st0 := if r_attached r then with_leaked (leaked st + 1) st else st).
  assert (H0 : same_heavy st st0 /\ tracks st0 = tracks st /\ conns st0 = conns st /\ sconns st0 = sconns st).
  { unfold st0. destruct (r_attached r); repeat split. }
  destruct H0 as (Hh0 & Et0 & Ec0 & Ek0).
  assert (HR0 : regs ((r_id r, refs_of r) :: D) st0) by (eapply regs_tracks_eq; eauto).
  assert (Hu : exists st1, match r_fn r with Some f => unbind_all (r_id r) (f_refs f) st0 | None => Ok st0 end = Ok st1 /\
             regs D st1 /\ same_heavy st0 st1 /\ tlive_same st0 st1 /\ conns st1 = conns st0 /\ sconns st1 = sconns st0).
  { unfold refs_of in HR0. destruct (r_fn r) as [f|].
    - apply unbind_all_ok. exact HR0.
    - exists st0. split; [reflexivity|]. split; [eapply regs_drop_nil; eauto|].
      split; [apply same_heavy_refl|split; [apply tlive_same_refl|split; reflexivity]]. }
  destruct Hu as (st1 & E1 & R1 & H1 & T1 & C1 & K1). rewrite E1. cbn [rbind].
  eexists. split; [reflexivity|].
  split; [eapply regs_tracks_eq; [apply null_watchers_tracks|exact R1]|].
  split.
  - apply null_watchers_ok. eapply watch_ok_ex_transfer; [| | |exact HW].
    + destruct H1, Hh0. congruence.
    + congruence.
    + congruence.
  - split.
    + eapply same_heavy_trans; [exact Hh0|]. eapply same_heavy_trans; [exact H1|apply null_watchers_heavy].
    + eapply tlive_same_trans; [apply tlive_tracks_eq; exact Et0|].
      eapply tlive_same_trans; [exact T1|]. apply tlive_tracks_eq. apply null_watchers_tracks.
Qed.

(* ------------------------------------------------------------------ *)
(* set_impl basics                                                      *)

Lemma aget_set_impl i j im' st :
  aget j (impls (set_impl i im' st)) = if N.eqb j i then Some im' else aget j (impls st).
Proof. unfold set_impl. cbn [impls with_impls]. apply aget_aset. Qed.

Lemma get_sb_set_impl_node i j m im' st :
  get_sb (LNode j m) (set_impl i im' st) =
  if N.eqb j i then option_map n_sb (find_node m (i_nodes im')) else get_sb (LNode j m) st.
Proof.
  rewrite !get_sb_node, aget_set_impl. destruct (N.eqb j i); reflexivity.
Qed.

Lemma set_impl_present i im' st j : aget j (impls st) <> None -> aget j (impls (set_impl i im' st)) <> None.
Proof. rewrite aget_set_impl. destruct (N.eqb j i); [discriminate|auto]. Qed.

Lemma sig_ok_set_impl i im' st : sig_ok st -> sig_ok (set_impl i im' st).
Proof.
  apply sig_ok_transfer; [reflexivity|apply tlive_tracks_eq; reflexivity|].
  intros j. apply set_impl_present.
Qed.

Lemma WFc_build st1 st' :
  WFstruct st1 -> sig_ok st1 -> same_heavy st1 st' -> tlive_same st1 st' ->
  regs (dem_of (all_reps st1)) st' -> watch_ok st' -> WFc st'.
Proof.
  intros Hs Hg Hh Ht Hr Hw. constructor.
  - eapply WFstruct_heavy; eauto.
  - rewrite (all_reps_heavy _ _ Hh). exact Hr.
  - eapply sig_ok_transfer; [| | |exact Hg].
    + destruct Hh; assumption.
    + exact Ht.
    + destruct Hh as [sh_slots0 sh_sigs0 sh_impls0 sh_rid0 sh_nid0 sh_iid0 sh_ph0 sh_shared0]. rewrite sh_impls0. auto.
  - exact Hw.
Qed.

Lemma sb_reps_dem sb : dem_of (sb_reps sb) =
  match sb_rep sb with Some r => [(r_id r, refs_of r)] | None => [] end.
Proof. unfold sb_reps. destruct (sb_rep sb); reflexivity. Qed.

Lemma regs_mid_out L Y R st : regs (dem_of (L ++ Y ++ R)) st -> regs (dem_of Y ++ dem_of (L ++ R)) st.
Proof.
  apply regs_perm. rewrite !dem_of_app. rewrite app_assoc.
  apply Permutation_trans with ((dem_of Y ++ dem_of L) ++ dem_of R).
  - apply Permutation_app_tail. apply Permutation_app_comm.
  - rewrite <- app_assoc. apply Permutation_refl.
Qed.

Lemma erase_node_ok i n st im nd :
  WFc st -> aget i (impls st) = Some im -> find_node n (i_nodes im) = Some nd ->
  exists st', erase_node i n st = Ok st' /\ WFc st' /\
     same_heavy (set_impl i (with_nodes (del_node n (i_nodes im)) im) st) st' /\ tlive_same st st'.
Proof.
  intros [Hs Hr Hg Hw] Hi Hf. unfold erase_node. rewrite Hi, Hf.
  set (st1 := set_impl i (with_nodes (del_node n (i_nodes im)) im) st).
  destruct (find_node_split _ _ _ Hf) as (l1 & l2 & En & Hn1 & Hid).
  assert (Ed : del_node n (i_nodes im) = l1 ++ [] ++ l2).
  { rewrite En. rewrite (del_node_split _ _ _ _ Hn1 Hid). reflexivity. }
  assert (En' : i_nodes im = l1 ++ [nd] ++ l2) by (rewrite En; reflexivity).
  assert (Hs1 : WFstruct st1).
  { eapply (WFstruct_set_impl st i im _ l1 [nd] [] l2); eauto.
    - cbn [i_nodes with_nodes]. rewrite Ed. cbn [app].
      destruct (ws_nodes _ Hs i im Hi) as (A & _). rewrite En in A. unfold ids in *.
      rewrite map_app in *. cbn [map] in A. apply NoDup_remove_1 in A. exact A.
    - constructor.
    - apply reps_upd_nil. }
  destruct (set_impl_nodes_reps st i im (with_nodes (del_node n (i_nodes im)) im) l1 [nd] [] l2 Hi En' Ed)
    as (L & R & Ea & Ea1). fold st1 in Ea1. cbn [nodes_reps flat_map app] in Ea, Ea1. rewrite app_nil_r in Ea.
  assert (Hr1 : regs (dem_of (sb_reps (n_sb nd)) ++ dem_of (all_reps st1)) st1).
  { rewrite Ea1. apply regs_mid_out. rewrite <- Ea. eapply regs_tracks_eq; [|exact Hr]. reflexivity. }
  assert (Hg1 : sig_ok st1) by (apply sig_ok_set_impl; exact Hg).
  assert (Hw1 : watch_ok_ex (flat_map r_watch (sb_reps (n_sb nd)) ++ []) st1).
  { intros w i' n' Hp. destruct (Hw w i' n' Hp) as [[]|(sb & r & G1 & G2 & G3)].
    destruct (N.eqb_spec i' i) as [->|Hni].
    - destruct (nid_eqb_spec n' n) as [->|Hnn].
      + left. rewrite get_sb_node, Hi, Hf in G1. cbn [option_map] in G1. inversion G1; subst sb.
        unfold sb_reps. rewrite G2. cbn [optl flat_map]. rewrite !app_nil_r. exact G3.
      + right. exists sb, r. split; [|auto]. unfold st1. rewrite get_sb_set_impl_node, N.eqb_refl.
        cbn [i_nodes with_nodes]. rewrite find_node_del_other by assumption.
        rewrite get_sb_node, Hi in G1. exact G1.
    - right. exists sb, r. split; [|auto]. unfold st1. rewrite get_sb_set_impl_node.
      destruct (N.eqb_spec i' i); [contradiction|]. exact G1. }
  unfold sb_delete. rewrite sb_reps_dem in Hr1. unfold sb_reps in Hw1.
  destruct (sb_rep (n_sb nd)) as [r|] eqn:Hrep.
  - cbn [optl flat_map app] in Hw1. rewrite app_nil_r in Hw1. cbn [app] in Hr1.
    destruct (rep_delete_ok r _ [] st1 Hr1 Hw1) as (st' & E' & R' & W' & H' & T').
    exists st'. split; [exact E'|]. split; [eapply WFc_build; eauto|]. split; [exact H'|].
    eapply tlive_same_trans; [apply tlive_tracks_eq|exact T']. reflexivity.
  - exists st1. split; [reflexivity|]. split.
    + eapply WFc_build; eauto using same_heavy_refl, tlive_same_refl.
    + split; [apply same_heavy_refl|apply tlive_tracks_eq; reflexivity].
Qed.

(* ------------------------------------------------------------------ *)
(* updates that keep the node lists                                     *)

Lemma WFc_set_impl_flags st i im im' :
  WFc st -> aget i (impls st) = Some im -> i_nodes im' = i_nodes im -> WFc (set_impl i im' st).
Proof.
  intros [Hs Hr Hg Hw] Hi En.
  assert (E1 : i_nodes im = i_nodes im ++ [] ++ []) by (rewrite !app_nil_r; reflexivity).
  assert (E2 : i_nodes im' = i_nodes im ++ [] ++ []) by (rewrite !app_nil_r; exact En).
  destruct (set_impl_nodes_reps st i im im' _ _ _ _ Hi E1 E2) as (L & R & Ea & Ea').
  constructor.
  - eapply (WFstruct_set_impl st i im im' (i_nodes im) [] [] []); eauto.
    + rewrite En. exact (proj1 (ws_nodes _ Hs i im Hi)).
    + constructor.
    + apply reps_upd_nil.
  - rewrite Ea', <- Ea. eapply regs_tracks_eq; [|exact Hr]. reflexivity.
  - apply sig_ok_set_impl. exact Hg.
  - intros w j m Hp. destruct (Hw w j m Hp) as [[]|(sb & r & G1 & G2 & G3)]. right.
    exists sb, r. split; [|auto]. rewrite get_sb_set_impl_node. destruct (N.eqb_spec j i) as [->|]; [|exact G1].
    rewrite En. rewrite get_sb_node, Hi in G1. exact G1.
Qed.

Lemma Casc_set_sb l sb' st : Casc st (set_sb l sb' st).
Proof.
  destruct (set_sb_other_fields l sb' st) as (H1 & H2 & H3 & H4 & H5 & H6 & H7 & H8).
  constructor; [exact H1|exact H7|apply set_sb_shared|apply tlive_tracks_eq; exact H2|].
  intro j. destruct l as [s|i n]; unfold set_sb.
  - cbn [impls with_slots]. destruct (aget j (impls st)); [apply impl_same_refl|exact I].
  - destruct (aget i (impls st)) as [im|] eqn:Hi.
    + rewrite aget_set_impl. destruct (N.eqb_spec j i) as [->|Hn].
      * rewrite Hi. apply impl_same_ids; cbn [i_exec i_holders i_dying i_deferred i_nodes with_nodes]; auto.
        apply ids_set_node.
      * destruct (aget j (impls st)); [apply impl_same_refl|exact I].
    + destruct (aget j (impls st)); [apply impl_same_refl|exact I].
Qed.

Lemma set_sb_slots_node i n sb' st : slots (set_sb (LNode i n) sb' st) = slots st.
Proof. unfold set_sb. destruct (aget i (impls st)); reflexivity. Qed.

Lemma set_sb_rep_ok_gen ex st l sb r r' b' :
  WFstruct st -> sig_ok st -> watch_ok_ex ex st -> get_sb l st = Some sb -> sb_rep sb = Some r ->
  r_id r' = r_id r -> (r_valid r' = true -> r_fn r' <> None) ->
  (match l with LVar _ => rep_detached r' | LNode _ _ => True end) ->
  (forall x, In x (r_watch r) -> In x ex \/ In x (r_watch r')) ->
  WFstruct (set_sb l (mkSB (Some r') b') st) /\ sig_ok (set_sb l (mkSB (Some r') b') st) /\
  watch_ok_ex ex (set_sb l (mkSB (Some r') b') st) /\
  (exists A B, all_reps st = A ++ [r] ++ B /\ all_reps (set_sb l (mkSB (Some r') b') st) = A ++ [r'] ++ B).
Proof.
  intros Hs Hg Hw Hget Hrep Hid Hval Hdet Hinc.
  set (sb' := mkSB (Some r') b'). set (st' := set_sb l sb' st).
  destruct (all_reps_set_sb l st sb sb' Hget) as (A & B & Ea & Ea'). fold st' in Ea'.
  unfold sb_reps in Ea, Ea'. rewrite Hrep in Ea. cbn [sb' sb_rep optl] in Ea, Ea'.
  assert (Hgood : Forall (rep_good st) [r']).
  { constructor; [|constructor]. split; [|exact Hval]. rewrite Hid.
    pose proof (ws_good _ Hs) as G. rewrite Ea, !Forall_app in G. destruct G as (_ & G & _).
    inversion G as [|? ? G1 _]; subst. exact (proj1 G1). }
  assert (Hup : forall L R, all_reps st = L ++ [r] ++ R -> reps_upd_ok st [r] [r']).
  { intros L R E. eapply reps_upd_same_ids; eauto using ws_rids. cbn [map]. rewrite Hid. reflexivity. }
  split; [|split; [|split]].
  - destruct l as [s|i n].
    + apply get_sb_var_inv in Hget.
      change st' with (with_slots (aset s (Some sb') (slots st)) st).
      eapply WFstruct_set_slot; eauto.
      * cbn [slot_reps]. unfold sb_reps. rewrite Hrep. cbn [sb' sb_rep optl]. eapply Hup; eauto.
      * cbn [slot_reps sb_reps sb' sb_rep optl]. constructor; [exact Hdet|constructor].
    + destruct (get_sb_node_inv _ _ _ _ Hget) as (im & nd & Hi & Hf & Hsb). subst sb.
      destruct (find_node_split _ _ _ Hf) as (l1 & l2 & En & Hn1 & Hnid).
      unfold st', set_sb. rewrite Hi.
      eapply (WFstruct_set_impl st i im _ l1 [nd] [mkNode n sb'] l2); eauto.
      * cbn [i_nodes with_nodes]. rewrite En. rewrite (set_node_split _ _ _ _ _ Hn1 Hnid). reflexivity.
      * cbn [i_nodes with_nodes]. rewrite ids_set_node. exact (proj1 (ws_nodes _ Hs i im Hi)).
      * cbn [ids map n_id]. constructor; [|constructor].
        destruct (ws_nodes _ Hs i im Hi) as (_ & F). rewrite En in F. unfold ids in F.
        rewrite map_app, Forall_app in F. destruct F as (_ & F). cbn [map] in F. inversion F as [|? ? F1 F2]. rewrite <- Hnid. exact F1.
      * cbn [nodes_reps flat_map n_sb]. rewrite !app_nil_r. unfold sb_reps. rewrite Hrep. cbn [sb' sb_rep optl].
        eapply Hup; eauto.
  - unfold st'. destruct (set_sb_other_fields l sb' st) as (H1 & H2 & _).
    eapply sig_ok_transfer; [exact H1|apply tlive_tracks_eq; exact H2| |exact Hg].
    intro j. apply (Casc_impl_present _ _ j (Casc_set_sb l sb' st)).
  - intros w j m Hp. destruct (set_sb_other_fields l sb' st) as (_ & _ & H3 & H4 & _).
    unfold st' in Hp. rewrite (get_connptr_eq _ _ _ H3 H4) in Hp.
    destruct (Hw w j m Hp) as [X|(sb0 & r0 & G1 & G2 & G3)]; [left; exact X|].
    destruct (loc_eqb_spec (LNode j m) l) as [El|Hnl].
    + subst l. rewrite Hget in G1. inversion G1; subst sb0. rewrite Hrep in G2. inversion G2; subst r0.
      destruct (Hinc w G3) as [X|X]; [left; exact X|right].
      exists sb', r'. split; [apply (get_set_sb_same _ _ _ _ Hget)|]. split; [reflexivity|exact X].
    + right. exists sb0, r0. split; [|auto]. unfold st'. rewrite get_set_sb_other by assumption. exact G1.
  - exists A, B. split; assumption.
Qed.

Lemma set_sb_rep_ok st l sb r r' b' :
  WFc st -> get_sb l st = Some sb -> sb_rep sb = Some r ->
  r_id r' = r_id r -> (r_valid r' = true -> r_fn r' <> None) ->
  (match l with LVar _ => rep_detached r' | LNode _ _ => True end) ->
  incl (r_watch r) (r_watch r') ->
  WFstruct (set_sb l (mkSB (Some r') b') st) /\ sig_ok (set_sb l (mkSB (Some r') b') st) /\
  watch_ok (set_sb l (mkSB (Some r') b') st) /\
  (exists A B, all_reps st = A ++ [r] ++ B /\ all_reps (set_sb l (mkSB (Some r') b') st) = A ++ [r'] ++ B).
Proof.
  intros [Hs Hr Hg Hw] Hget Hrep Hid Hval Hdet Hinc.
  eapply set_sb_rep_ok_gen; eauto.
Qed.

(* a rep update that keeps id, functor and watchers: full WFc *)
Lemma set_sb_benign_ok st l sb r r' b' :
  WFc st -> get_sb l st = Some sb -> sb_rep sb = Some r ->
  r_id r' = r_id r -> r_fn r' = r_fn r -> (r_valid r' = true -> r_valid r = true) ->
  (match l with LVar _ => rep_detached r' | LNode _ _ => True end) ->
  incl (r_watch r) (r_watch r') ->
  WFc (set_sb l (mkSB (Some r') b') st).
Proof.
  intros Hc Hget Hrep Hid Hfn Hval Hdet Hinc.
  assert (Hv : r_valid r' = true -> r_fn r' <> None).
  { intro V. rewrite Hfn. destruct (all_reps_set_sb l st sb sb Hget) as (A & B & Ea & _).
    pose proof (ws_good _ (wc_struct _ Hc)) as G. rewrite Ea, !Forall_app in G. destruct G as (_ & G & _).
    unfold sb_reps in G. rewrite Hrep in G. inversion G as [|? ? G1 _]; subst. apply (proj2 G1). auto. }
  destruct (set_sb_rep_ok st l sb r r' b' Hc Hget Hrep Hid Hv Hdet Hinc) as (S1 & S2 & S3 & A & B & Ea & Ea').
  constructor; auto. rewrite Ea'.
  eapply regs_tracks_eq; [apply (set_sb_other_fields l _ st)|].
  eapply regs_dem_eq; [|exact (wc_regs _ Hc)]. intros t rid. rewrite Ea, !dem_of_app, !dem_app.
  cbn [dem_of map dem]. unfold refs_of. rewrite Hid, Hfn. reflexivity.
Qed.

(* ------------------------------------------------------------------ *)
(* parent_cleanup, rep_disconnect, rep_destroy, rep_invalidated         *)

Lemma phc_del_node n l : (phc (ids (del_node n l)) <= phc (ids l))%nat.
Proof.
  unfold phc, ids. induction l as [|x l IH]; cbn [del_node map filter length]; [lia|].
  destruct (nid_eqb (n_id x) n); cbn [map filter]; destruct (nid_is_ph (n_id x)); cbn [length]; lia.
Qed.

Lemma Casc_of_set_impl st st' i im im' :
  aget i (impls st) = Some im -> impl_same im im' ->
  same_heavy (set_impl i im' st) st' -> tlive_same st st' -> Casc st st'.
Proof.
  intros Hi Hsame [sh_slots0 sh_sigs0 sh_impls0 sh_rid0 sh_nid0 sh_iid0 sh_ph0 sh_shared0] T. cbn [set_impl slots sigs next_rid next_nid next_iid next_ph with_impls] in *.
  constructor; [assumption|assumption|assumption|assumption|].
  intro j. rewrite sh_impls0, aget_set_impl. destruct (N.eqb_spec j i) as [->|Hn].
  - rewrite Hi. exact Hsame.
  - destruct (aget j (impls st)); [apply impl_same_refl|exact I].
Qed.

Lemma WFstruct_keys_ok st : WFstruct st -> keys_ok st.
Proof.
  intros [ws_keys_slots0 ws_keys_impls0 ws_iid0 ws_nodes0 ws_rids0 ws_good0 ws_vars0]. split; [assumption|]. split; [assumption|]. intros i im H. exact (proj1 (ws_nodes0 i im H)).
Qed.

(* "nothing else moved": slot bases at other locations are untouched *)
Definition others_same (l : loc) (st st' : state) : Prop :=
  (forall l', l' <> l -> get_sb l' st' = get_sb l' st) /\
  (forall j, (forall n, l <> LNode j n) -> aget j (impls st') = aget j (impls st)).

Lemma others_same_refl l st : others_same l st st.
Proof. split; intros; reflexivity. Qed.

Lemma get_sb_heavy st st' l : same_heavy st st' -> get_sb l st' = get_sb l st.
Proof. intros [sh_slots0 sh_sigs0 sh_impls0 sh_rid0 sh_nid0 sh_iid0 sh_ph0 sh_shared0]. destruct l; unfold get_sb; rewrite ?sh_slots0, ?sh_impls0; reflexivity. Qed.

Lemma get_sb_set_impl_var i im' st s : get_sb (LVar s) (set_impl i im' st) = get_sb (LVar s) st.
Proof. reflexivity. Qed.

Lemma parent_cleanup_ok i n st :
  WFc st -> (forall im, aget i (impls st) = Some im -> find_node n (i_nodes im) <> None) ->
  exists st', parent_cleanup i n st = Ok st' /\ WFc st' /\ Casc st st' /\ others_same (LNode i n) st st'.
Proof.
  intros Hc Hn. unfold parent_cleanup. destruct (aget i (impls st)) as [im|] eqn:Hi.
  2:{ exists st. split; [reflexivity|]. split; [exact Hc|]. split; [apply Casc_refl|apply others_same_refl]. }
  destruct (i_dying im) eqn:Hd.
  { exists st. split; [reflexivity|]. split; [exact Hc|]. split; [apply Casc_refl|apply others_same_refl]. }
  destruct (N.eqb_spec (i_exec im) 0) as [He|He].
  - destruct (find_node n (i_nodes im)) as [nd|] eqn:Hf; [|exfalso; exact (Hn im eq_refl Hf)].
    destruct (erase_node_ok i n st im nd Hc Hi Hf) as (st' & E & W & Hh & T).
    exists st'. split; [exact E|]. split; [exact W|]. split.
    + eapply Casc_of_set_impl; eauto. unfold impl_same. cbn [i_exec i_holders i_dying i_deferred i_nodes with_nodes].
      repeat split; auto; [lia|apply phc_del_node].
    + split.
      * intros l' Hl'. rewrite (get_sb_heavy _ _ _ Hh). destruct l' as [s|j m]; [reflexivity|].
        rewrite get_sb_set_impl_node. destruct (N.eqb_spec j i) as [->|Hne]; [|reflexivity].
        cbn [i_nodes with_nodes]. rewrite find_node_del_other by congruence.
        rewrite get_sb_node, Hi. reflexivity.
      * intros j Hj. destruct Hh as [sh_slots0 sh_sigs0 sh_impls0 sh_rid0 sh_nid0 sh_iid0 sh_ph0 sh_shared0]. rewrite sh_impls0, aget_set_impl.
        destruct (N.eqb_spec j i) as [->|Hne]; [exfalso; exact (Hj n eq_refl)|reflexivity].
  - eexists. split; [reflexivity|]. split; [eapply WFc_set_impl_flags; eauto|]. split.
    + eapply Casc_of_set_impl; eauto using same_heavy_refl.
      * apply impl_same_ids; cbn [i_exec i_holders i_dying i_deferred i_nodes with_deferred]; auto.
        intro X. contradiction.
      * apply tlive_tracks_eq. reflexivity.
    + split.
      * intros l' _. destruct l' as [s|j m]; [reflexivity|].
        rewrite get_sb_set_impl_node. destruct (N.eqb_spec j i) as [->|Hne]; [|reflexivity].
        cbn [i_nodes with_deferred]. rewrite get_sb_node, Hi. reflexivity.
      * intros j Hj. rewrite aget_set_impl.
        destruct (N.eqb_spec j i) as [->|Hne]; [exfalso; exact (Hj n eq_refl)|reflexivity].
Qed.

Lemma get_rep_inv l st r : get_rep l st = Some r -> exists sb, get_sb l st = Some sb /\ sb_rep sb = Some r.
Proof. unfold get_rep. destruct (get_sb l st) as [sb|]; [|discriminate]. intro H. eauto. Qed.

Lemma var_rep_detached st s sb r : WFstruct st -> get_sb (LVar s) st = Some sb -> sb_rep sb = Some r ->
  rep_detached r.
Proof.
  intros Hs Hg Hr. pose proof (get_sb_in_reps _ _ _ _ Hg Hr) as Hin. cbn in Hin.
  pose proof (ws_vars _ Hs) as F. rewrite Forall_forall in F. exact (F r Hin).
Qed.

Lemma others_same_trans l a b c : others_same l a b -> others_same l b c -> others_same l a c.
Proof.
  intros [H1 I1] [H2 I2]. split.
  - intros l' Hn. rewrite (H2 l' Hn). apply H1. exact Hn.
  - intros j Hj. rewrite (I2 j Hj). apply I1. exact Hj.
Qed.

Lemma others_same_set_sb l sb st : others_same l st (set_sb l sb st).
Proof.
  split.
  - intros l' Hn. apply get_set_sb_other. exact Hn.
  - intros j Hj. destruct l as [s|i n]; unfold set_sb; [reflexivity|].
    destruct (aget i (impls st)) eqn:Hi; [|reflexivity]. rewrite aget_set_impl.
    destruct (N.eqb_spec j i) as [->|Hne]; [exfalso; exact (Hj n eq_refl)|reflexivity].
Qed.

Lemma rep_disconnect_ok l st : WFc st ->
  exists st', rep_disconnect l st = Ok st' /\ WFc st' /\ Casc st st' /\ others_same l st st'.
Proof.
  intro Hc. unfold rep_disconnect. destruct (get_rep l st) as [r|] eqn:Hg.
  2:{ exists st. split; [reflexivity|]. split; [exact Hc|]. split; [apply Casc_refl|apply others_same_refl]. }
  destruct (get_rep_inv _ _ _ Hg) as (sb & Hsb & Hrep).
  unfold set_rep. rewrite Hsb.
  destruct (r_attached r) eqn:Hatt.
  - destruct l as [s|i n].
    + exfalso. destruct (var_rep_detached _ _ _ _ (wc_struct _ Hc) Hsb Hrep) as (X & _). congruence.
    + set (r' := r_with_attached false (r_with_valid false r)).
      assert (Hc1 : WFc (set_sb (LNode i n) (mkSB (Some r') (sb_blocked sb)) st)).
      { eapply set_sb_benign_ok; eauto; try reflexivity; [discriminate|apply incl_refl]. }
      destruct (parent_cleanup_ok i n _ Hc1) as (st' & E & W & C & O).
      { intros im Him. pose proof (get_set_sb_same _ _ _ (mkSB (Some r') (sb_blocked sb)) Hsb) as G.
        rewrite get_sb_node, Him in G. destruct (find_node n (i_nodes im)); discriminate. }
      exists st'. split; [exact E|]. split; [exact W|]. split.
      * eapply Casc_trans; [apply Casc_set_sb|exact C].
      * eapply others_same_trans; [apply others_same_set_sb|exact O].
  - eexists. split; [reflexivity|]. split.
    + eapply set_sb_benign_ok; eauto; try reflexivity; [discriminate| |apply incl_refl].
      destruct l as [s|i n]; [|exact I].
      destruct (var_rep_detached _ _ _ _ (wc_struct _ Hc) Hsb Hrep) as (X & Y). split; assumption.
    + split; [apply Casc_set_sb|apply others_same_set_sb].
Qed.

Definition rid_dead (rid : N) (st : state) : Prop :=
  forall r, In r (all_reps st) -> r_id r = rid -> r_fn r = None.

Lemma NoDup_map_mid_unique {A B} (f : A -> B) a x b y :
  NoDup (map f (a ++ [x] ++ b)) -> In y (a ++ [x] ++ b) -> f y = f x -> y = x.
Proof.
  intros Hnd Hin E. rewrite !map_app in Hnd. cbn [map app] in Hnd.
  pose proof (NoDup_remove_2 _ _ _ Hnd) as Hn.
  rewrite !in_app_iff in Hin. cbn [In] in Hin. destruct Hin as [Hin|[[Hin|[]]|Hin]]; [|auto|];
    exfalso; apply Hn; rewrite <- E; apply in_or_app; [left|right]; apply in_map; exact Hin.
Qed.

Lemma rep_destroy_ok l st : WFc st ->
  exists st', rep_destroy l st = Ok st' /\ WFc st' /\ Casc st st' /\
              (forall r, get_rep l st = Some r -> rid_dead (r_id r) st').
Proof.
  intro Hc. unfold rep_destroy. destruct (get_rep l st) as [r|] eqn:Hg.
  2:{ exists st. split; [reflexivity|]. split; [exact Hc|]. split; [apply Casc_refl|]. intros r H. discriminate. }
  destruct (get_rep_inv _ _ _ Hg) as (sb & Hsb & Hrep).
  unfold set_rep. rewrite Hsb.
  set (r0 := r_with_fn None (r_with_valid false r)).
  set (st1 := set_sb l (mkSB (Some r0) (sb_blocked sb)) st).
  assert (Hdet : match l with LVar _ => rep_detached r0 | LNode _ _ => True end).
  { destruct l as [s|i n]; [|exact I]. exact (var_rep_detached _ _ _ _ (wc_struct _ Hc) Hsb Hrep). }
  assert (Hv0 : r_valid r0 = true -> r_fn r0 <> None) by discriminate.
  destruct (set_sb_rep_ok st l sb r r0 (sb_blocked sb) Hc Hsb Hrep eq_refl Hv0 Hdet (incl_refl _))
    as (S1 & S2 & S3 & A & B & Ea & Ea1).
  fold st1 in S1, S2, S3, Ea1.
  assert (R1 : regs ((r_id r, refs_of r) :: dem_of (all_reps st1)) st1).
  { eapply regs_tracks_eq; [apply (set_sb_other_fields l _ st)|].
    eapply regs_dem_eq; [|exact (wc_regs _ Hc)]. intros t rid. rewrite Ea, Ea1, dem_cons, !dem_of_app, !dem_app.
    cbn [dem_of map dem]. assert (X1 : refs_of r0 = []) by reflexivity. assert (X2 : r_id r0 = r_id r) by reflexivity.
    rewrite X1, X2. cbn [count_occ]. destruct (N.eqb (r_id r) rid); lia. }
  assert (Hu : exists st2, match r_fn r with Some f => unbind_all (r_id r) (f_refs f) st1 | None => Ok st1 end = Ok st2 /\
             regs (dem_of (all_reps st1)) st2 /\ same_heavy st1 st2 /\ tlive_same st1 st2 /\ conns st2 = conns st1 /\ sconns st2 = sconns st1).
  { unfold refs_of in R1. destruct (r_fn r) as [f|].
    - apply unbind_all_ok. exact R1.
    - exists st1. split; [reflexivity|]. split; [eapply regs_drop_nil; eauto|].
      split; [apply same_heavy_refl|split; [apply tlive_same_refl|split; reflexivity]]. }
  destruct Hu as (st2 & E2 & R2 & H2 & T2 & C2 & K2). exists st2. split; [exact E2|].
  split; [|split].
  - eapply WFc_build; eauto. eapply watch_ok_ex_transfer; [| | |exact S3]; [destruct H2|..]; assumption.
  - apply Casc_trans with (b := st1); [unfold st1; apply Casc_set_sb|]. apply Casc_heavy; assumption.
  - intros r1 Hr1 x Hx Hxid. inversion Hr1; subst r1. rewrite (all_reps_heavy _ _ H2), Ea1 in Hx.
    assert (x = r0).
    { eapply (NoDup_map_mid_unique r_id); [|exact Hx|exact Hxid]. rewrite <- Ea1. exact (ws_rids _ S1). }
    subst x. reflexivity.
Qed.

Lemma rep_invalidated_ok rid st : WFc st -> (exists r, In r (all_reps st) /\ r_id r = rid) ->
  exists st', rep_invalidated rid st = Ok st' /\ WFc st' /\ Casc st st' /\ rid_dead rid st'.
Proof.
  intros Hc (r & Hin & Hid). unfold rep_invalidated.
  destruct (find_rep rid st) as [l|] eqn:Hf; [|exfalso; subst rid; exact (find_rep_complete _ _ Hin Hf)].
  destruct (rep_disconnect_ok l st Hc) as (st1 & E1 & W1 & C1 & _). rewrite E1. cbn [rbind].
  destruct (find_rep rid st1) as [l'|] eqn:Hf1.
  - destruct (find_rep_sound _ _ _ (WFstruct_keys_ok _ (wc_struct _ W1)) Hf1) as (sb & r1 & G1 & G2 & G3).
    destruct (rep_destroy_ok l' st1 W1) as (st2 & E2 & W2 & C2 & D2).
    exists st2. split; [exact E2|]. split; [exact W2|]. split; [eapply Casc_trans; eauto|].
    rewrite <- G3. apply D2. unfold get_rep. rewrite G1. exact G2.
  - exists st1. split; [reflexivity|]. split; [exact W1|]. split; [exact C1|].
    intros x Hx Hxid. exfalso. exact (find_rep_none _ _ Hf1 x Hx Hxid).
Qed.

(* ------------------------------------------------------------------ *)
(* track_round, track_notify                                            *)

Lemma regs_rep_exists t rid st : (0 < dem t rid (dem_of (all_reps st)))%nat ->
  exists r, In r (all_reps st) /\ r_id r = rid /\ In t (refs_of r).
Proof.
  intro H. destruct (dem_pos_in _ _ _ H) as (refs & Hin & Ht).
  unfold dem_of in Hin. apply in_map_iff in Hin. destruct Hin as (r & E & Hr). inversion E; subst.
  exists r. auto.
Qed.

Lemma rid_dead_dem t rid st : rid_dead rid st -> dem t rid (dem_of (all_reps st)) = O.
Proof.
  intro Hd. destruct (dem t rid (dem_of (all_reps st))) eqn:E; [reflexivity|].
  destruct (regs_rep_exists t rid st) as (r & Hin & Hid & Ht); [lia|].
  unfold refs_of in Ht. rewrite (Hd r Hin Hid) in Ht. destruct Ht.
Qed.

Lemma track_round_ok fuel : forall i t st tr,
  WFc st -> live_track t st = Some tr -> t_clearing tr = true ->
  length (tl_of tr) = (i + fuel)%nat ->
  (forall j d f, (j < i)%nat -> nth_error (tl_of tr) j = Some (d, f) -> f = false) ->
  exists st', track_round fuel i t st = Ok st' /\ WFc st' /\ Casc st st' /\
     exists tr', live_track t st' = Some tr' /\
                 (forall j d f, nth_error (tl_of tr') j = Some (d, f) -> f = false).
Proof.
  induction fuel as [|fuel IH]; intros i t st tr Hc Hl Hcl Hlen Hpre; cbn [track_round].
  - exists st. split; [reflexivity|]. split; [exact Hc|]. split; [apply Casc_refl|].
    exists tr. split; [exact Hl|]. intros j d f Hj. apply (Hpre j d f); [|exact Hj].
    assert (j < length (tl_of tr))%nat by (apply nth_error_Some; congruence). lia.
  - rewrite Hl. destruct (t_list tr) as [l|] eqn:Hlist.
    2:{ unfold tl_of in Hlen. rewrite Hlist in Hlen. cbn [length] in Hlen. lia. }
    assert (El : tl_of tr = l) by (unfold tl_of; rewrite Hlist; reflexivity). rewrite El in *.
    destruct (nth_error l i) as [[rid f]|] eqn:Hnth.
    2:{ apply nth_error_None in Hnth. lia. }
    destruct f.
    + (* a live entry: deliver *)
      assert (Hex : exists r, In r (all_reps st) /\ r_id r = rid).
      { destruct (regs_rep_exists t rid st) as (r & A & B & _); [|eauto].
        rewrite <- (proj2 (wc_regs _ Hc) t tr Hl rid), El. eapply cnt_pos_nth; eauto. }
      destruct (rep_invalidated_ok rid st Hc Hex) as (st1 & E1 & W1 & C1 & D1).
      rewrite E1. cbn [rbind].
      destruct (ca_tracks _ _ C1 t) as (_ & Eo & Hn). destruct (Hn tr Hl Hcl) as (tr1 & Hl1 & (Nlen & Nnth)).
      rewrite El in Nlen, Nnth.
      assert (Hcl1 : t_clearing tr1 = true).
      { rewrite Hl, Hl1 in Eo. cbn [option_map] in Eo. congruence. }
      destruct (IH (S i) t st1 tr1 W1 Hl1 Hcl1) as (st2 & E2 & W2 & C2 & tr2 & Hl2 & F2).
      * rewrite Nlen. lia.
      * intros j d f Hj Hjn. destruct (Nat.eq_dec j i) as [->|Hne].
        -- destruct (Nnth _ _ _ Hnth) as (f' & Hf' & _). rewrite Hf' in Hjn. inversion Hjn; subst d f'.
           destruct f; [|reflexivity]. exfalso.
           pose proof (cnt_pos_nth _ _ _ Hf') as Hpos.
           rewrite (proj2 (wc_regs _ W1) t tr1 Hl1 rid) in Hpos. rewrite (rid_dead_dem t rid st1 D1) in Hpos. lia.
        -- destruct (nth_error l j) as [[d0 f0]|] eqn:Hj0.
           ++ destruct (Nnth _ _ _ Hj0) as (f' & Hf' & Hff). rewrite Hf' in Hjn. inversion Hjn; subst d f'.
              apply Hff. apply (Hpre j d0 f0); [lia|exact Hj0].
           ++ apply nth_error_None in Hj0. assert (j < length (tl_of tr1))%nat by (apply nth_error_Some; congruence). lia.
      * exists st2. split; [exact E2|]. split; [exact W2|]. split; [eapply Casc_trans; eauto|]. eauto.
    + destruct (IH (S i) t st tr Hc Hl Hcl) as (st2 & E2 & W2 & C2 & X).
      * rewrite El. lia.
      * rewrite El. intros j d f Hj Hjn. destruct (Nat.eq_dec j i) as [->|Hne].
        -- rewrite Hnth in Hjn. inversion Hjn. reflexivity.
        -- apply (Hpre j d f); [lia|exact Hjn].
      * exists st2. auto.
Qed.

Lemma regs_set_track_same D t tr tr' st : live_track t st = Some tr -> tl_of tr' = tl_of tr ->
  regs D st -> regs D (set_track t tr' st).
Proof.
  intros Hl El [R1 R2]. split.
  - intros t' rid H. rewrite live_set_track. destruct (N.eqb t' t); [discriminate|eauto].
  - intros t' tr0 H rid. rewrite live_set_track in H. destruct (N.eqb_spec t' t) as [->|Hn].
    + inversion H; subst tr0. rewrite El. eauto.
    + eauto.
Qed.

Lemma sig_ok_set_track t tr tr0 st : live_track t st = Some tr0 -> sig_ok st -> sig_ok (set_track t tr st).
Proof.
  intros Hl [H1 H2]. split.
  - intro g. destruct (H1 g) as [A B]. split.
    + rewrite live_set_track. destruct (N.eqb_spec (trackable_of_sig g) t) as [E|Hn]; [|exact A].
      split; [intros _|discriminate]. apply A. rewrite E, Hl. discriminate.
    + intro X. unfold set_track. cbn [tracks with_tracks]. rewrite aget_aset.
      destruct (N.eqb_spec (trackable_of_sig g) t) as [E|Hn]; [|auto]. exfalso.
      specialize (B X). rewrite E in B. unfold live_track in Hl. rewrite B in Hl. discriminate.
  - exact H2.
Qed.

Lemma WFc_set_track_same t tr tr' st : WFc st -> live_track t st = Some tr -> tl_of tr' = tl_of tr ->
  WFc (set_track t tr' st).
Proof.
  intros [Hs Hr Hg Hw] Hl El. constructor.
  - eapply WFstruct_heavy; [apply set_track_heavy|exact Hs].
  - rewrite (all_reps_heavy _ _ (set_track_heavy t tr' st)). eapply regs_set_track_same; eauto.
  - eapply sig_ok_set_track; eauto.
  - eapply watch_ok_ex_transfer; [| | |exact Hw]; reflexivity.
Qed.

Lemma track_notify_ok t st : WFc st -> noclear st ->
  exists st', track_notify t st = Ok st' /\ WFc st' /\ Casc st st' /\ noclear st' /\
     (forall rid, dem t rid (dem_of (all_reps st')) = O).
Proof.
  intros Hc Hnc. unfold track_notify. destruct (live_track t st) as [tr|] eqn:Hl.
  2:{ exists st. split; [reflexivity|]. split; [exact Hc|]. split; [apply Casc_refl|]. split; [exact Hnc|].
      intro rid. destruct (dem t rid (dem_of (all_reps st))) eqn:E; [reflexivity|].
      exfalso. apply (proj1 (wc_regs _ Hc) t rid); [lia|exact Hl]. }
  destruct (t_list tr) as [l|] eqn:Hlist.
  2:{ exists st. split; [reflexivity|]. split; [exact Hc|]. split; [apply Casc_refl|]. split; [exact Hnc|].
      intro rid. rewrite <- (proj2 (wc_regs _ Hc) t tr Hl rid). unfold tl_of. rewrite Hlist. reflexivity. }
  set (tr1 := mkTr (Some l) true). set (st1 := set_track t tr1 st).
  assert (El : tl_of tr1 = tl_of tr) by (unfold tl_of; rewrite Hlist; reflexivity).
  assert (Hc1 : WFc st1) by (eapply WFc_set_track_same; eauto).
  assert (Hl1 : live_track t st1 = Some tr1) by (unfold st1; rewrite live_set_track, N.eqb_refl; reflexivity).
  destruct (track_round_ok (length l) 0 t st1 tr1 Hc1 Hl1 eq_refl) as (st2 & E2 & W2 & C2 & tr2 & Hl2 & F2).
  { reflexivity. } { intros j d f Hj. lia. }
  rewrite E2. cbn [rbind]. eexists. split; [reflexivity|].
  assert (Hc' : WFc (set_track t (mkTr None false) st2)).
  { destruct W2 as [Hs Hr Hg Hw]. constructor.
    - eapply WFstruct_heavy; [apply set_track_heavy|exact Hs].
    - rewrite (all_reps_heavy _ _ (set_track_heavy t _ st2)). destruct Hr as [R1 R2]. split.
      + intros t' rid H. rewrite live_set_track. destruct (N.eqb t' t); [discriminate|eauto].
      + intros t' tr0 H rid. rewrite live_set_track in H. destruct (N.eqb_spec t' t) as [->|Hn]; [|eauto].
        inversion H; subst tr0. rewrite <- (R2 t tr2 Hl2 rid). unfold tl_of at 1. cbn [t_list cnt filter length].
        symmetry. apply cnt_zero_all_false. exact F2.
    - eapply sig_ok_set_track; eauto.
    - eapply watch_ok_ex_transfer; [| | |exact Hw]; reflexivity. }
  assert (Hcasc : Casc st (set_track t (mkTr None false) st2)).
  { destruct C2 as [ca_sigs0 ca_iid0 ca_shared0 ca_tracks0 ca_impls0]. constructor; [exact ca_sigs0|exact ca_iid0|exact ca_shared0| |exact ca_impls0].
    intro t'. destruct (ca_tracks0 t') as (A & B & _). split; [|split].
    - unfold set_track. cbn [tracks with_tracks]. rewrite aget_aset. destruct (N.eqb_spec t' t) as [->|Hn].
        * unfold live_track in Hl. destruct (aget t (tracks st)) as [[x|]|]; try discriminate. split; discriminate.
        * rewrite A. unfold st1, set_track. cbn [tracks with_tracks]. rewrite aget_aset_other by assumption. reflexivity.
    - rewrite live_set_track. destruct (N.eqb_spec t' t) as [->|Hn].
        * rewrite Hl. cbn [option_map t_clearing]. rewrite (Hnc _ _ Hl). reflexivity.
        * rewrite B. unfold st1. rewrite live_set_track. destruct (N.eqb_spec t' t); [contradiction|reflexivity].
    - intros tr0 H0 Hcl0. rewrite (Hnc _ _ H0) in Hcl0. discriminate. }
  split; [exact Hc'|]. split; [exact Hcasc|]. split; [eapply tlive_noclear; [exact (ca_tracks _ _ Hcasc)|exact Hnc]|].
  intro rid. rewrite <- (proj2 (wc_regs _ Hc') t (mkTr None false)); [reflexivity|].
  rewrite live_set_track, N.eqb_refl. reflexivity.
Qed.

(* ------------------------------------------------------------------ *)
(* generic set_sb for WFstruct; pending reps                            *)

Lemma WFstruct_set_sb st l sb sb' :
  WFstruct st -> get_sb l st = Some sb ->
  reps_upd_ok st (sb_reps sb) (sb_reps sb') ->
  (match l with LVar _ => Forall rep_detached (sb_reps sb') | LNode _ _ => True end) ->
  WFstruct (set_sb l sb' st).
Proof.
  intros Hs Hget Hup Hdet. destruct l as [s|i n].
  - apply get_sb_var_inv in Hget.
    change (set_sb (LVar s) sb' st) with (with_slots (aset s (Some sb') (slots st)) st).
    eapply WFstruct_set_slot; eauto.
  - destruct (get_sb_node_inv _ _ _ _ Hget) as (im & nd & Hi & Hf & Hsb). subst sb.
    destruct (find_node_split _ _ _ Hf) as (l1 & l2 & En & Hn1 & Hnid).
    unfold set_sb. rewrite Hi.
    eapply (WFstruct_set_impl st i im _ l1 [nd] [mkNode n sb'] l2); eauto.
    + cbn [i_nodes with_nodes]. rewrite En. rewrite (set_node_split _ _ _ _ _ Hn1 Hnid). reflexivity.
    + cbn [i_nodes with_nodes]. rewrite ids_set_node. exact (proj1 (ws_nodes _ Hs i im Hi)).
    + cbn [ids map n_id]. constructor; [|constructor].
      destruct (ws_nodes _ Hs i im Hi) as (_ & F). rewrite En in F. unfold ids in F.
      rewrite map_app, Forall_app in F. destruct F as (_ & F). cbn [map] in F.
      inversion F as [|? ? F1 F2]. rewrite <- Hnid. exact F1.
    + cbn [nodes_reps flat_map n_sb]. rewrite !app_nil_r. exact Hup.
Qed.

Lemma sig_ok_set_sb l sb' st : sig_ok st -> sig_ok (set_sb l sb' st).
Proof.
  intro Hg. destruct (set_sb_other_fields l sb' st) as (H1 & H2 & _).
  eapply sig_ok_transfer; [exact H1|apply tlive_tracks_eq; exact H2| |exact Hg].
  intro j. apply (Casc_impl_present _ _ j (Casc_set_sb l sb' st)).
Qed.

Lemma get_connptr_set_sb l sb' st w : get_connptr w (set_sb l sb' st) = get_connptr w st.
Proof.
  destruct (set_sb_other_fields l sb' st) as (_ & _ & H3 & H4 & _). apply get_connptr_eq; assumption.
Qed.

(* removing / keeping the rep while the watchers of the old rep are excused *)
Lemma watch_set_sb_ex st l sb sb' :
  watch_ok st -> get_sb l st = Some sb ->
  (forall r, sb_rep sb = Some r -> exists r', sb_rep sb' = Some r' /\ incl (r_watch r) (r_watch r')) ->
  watch_ok (set_sb l sb' st).
Proof.
  intros Hw Hget Hk w j m Hp. rewrite get_connptr_set_sb in Hp.
  destruct (Hw w j m Hp) as [[]|(sb0 & r0 & G1 & G2 & G3)]. right.
  destruct (loc_eqb_spec (LNode j m) l) as [El|Hnl].
  - subst l. rewrite Hget in G1. inversion G1; subst sb0. destruct (Hk r0 G2) as (r' & E' & Hinc).
    exists sb', r'. split; [apply (get_set_sb_same _ _ _ _ Hget)|]. split; [exact E'|]. apply Hinc. exact G3.
  - exists sb0, r0. split; [|auto]. rewrite get_set_sb_other by assumption. exact G1.
Qed.

Lemma watch_set_sb_out st l sb sb' :
  watch_ok st -> get_sb l st = Some sb ->
  watch_ok_ex (flat_map r_watch (sb_reps sb)) (set_sb l sb' st).
Proof.
  intros Hw Hget w j m Hp. rewrite get_connptr_set_sb in Hp.
  destruct (Hw w j m Hp) as [[]|(sb0 & r0 & G1 & G2 & G3)].
  destruct (loc_eqb_spec (LNode j m) l) as [El|Hnl].
  - subst l. rewrite Hget in G1. inversion G1; subst sb0. left. unfold sb_reps. rewrite G2.
    cbn [optl flat_map]. rewrite app_nil_r. exact G3.
  - right. exists sb0, r0. split; [|auto]. rewrite get_set_sb_other by assumption. exact G1.
Qed.

Lemma set_sb_blocked_ok st l sb b : WFc st -> get_sb l st = Some sb ->
  WFc (set_sb l (mkSB (sb_rep sb) b) st).
Proof.
  intros Hc Hget. destruct (sb_rep sb) as [r|] eqn:Hrep.
  - eapply set_sb_benign_ok; eauto; try reflexivity; [|apply incl_refl].
    destruct l as [s|i n]; [|exact I]. exact (var_rep_detached _ _ _ _ (wc_struct _ Hc) Hget Hrep).
  - destruct Hc as [Hs Hr Hg Hw].
    destruct (all_reps_set_sb l st sb (mkSB None b) Hget) as (A & B & Ea & Ea').
    unfold sb_reps in Ea, Ea'. rewrite Hrep in Ea. cbn [sb_rep optl] in Ea, Ea'.
    constructor.
    + eapply WFstruct_set_sb; eauto.
      * unfold sb_reps. cbn [sb_rep optl]. apply reps_upd_nil.
      * destruct l; [constructor|exact I].
    + rewrite Ea', <- Ea. eapply regs_tracks_eq; [apply (set_sb_other_fields l _ st)|exact Hr].
    + apply sig_ok_set_sb. exact Hg.
    + eapply watch_set_sb_ex; eauto. intros r Hr0. congruence.
Qed.

(* a slot base value [sb] that is about to be installed in the state *)
Record WFp (sb : slotbase) (st : state) : Prop := mkWFp
  { wp_struct : WFstruct st
  ; wp_regs : regs (dem_of (sb_reps sb) ++ dem_of (all_reps st)) st
  ; wp_sig : sig_ok st
  ; wp_watch : watch_ok st
  ; wp_pend : Forall (fun r => rep_good st r /\ rep_detached r /\ ~ In (r_id r) (map r_id (all_reps st))) (sb_reps sb) }.

Lemma WFp_none st b : WFc st -> WFp (mkSB None b) st.
Proof. intros []. constructor; auto. constructor. Qed.

Lemma WFp_WFc sb st : WFp sb st -> sb_rep sb = None -> WFc st.
Proof. intros [] E. unfold sb_reps in *. rewrite E in *. constructor; auto. Qed.

Record Grow (st st' : state) : Prop := mkGrow
  { gr_sigs : sigs st' = sigs st
  ; gr_impls : impls st' = impls st
  ; gr_nid : next_nid st' = next_nid st
  ; gr_iid : next_iid st' = next_iid st
  ; gr_ph : next_ph st' = next_ph st
  ; gr_shared : shared st' = shared st
  ; gr_rid : next_rid st <= next_rid st'
  ; gr_tracks : tlive_same st st' }.

Lemma Grow_refl st : Grow st st.
Proof. constructor; try reflexivity. apply tlive_same_refl. Qed.

Lemma Grow_trans a b c : Grow a b -> Grow b c -> Grow a c.
Proof. intros [] []. constructor; try congruence; [lia|eapply tlive_same_trans; eauto]. Qed.

Lemma Grow_heavy st st' : same_heavy st st' -> tlive_same st st' -> Grow st st'.
Proof. intros [] T. constructor; try assumption. lia. Qed.

Lemma Grow_Casc st st' : Grow st st' -> Casc st st'.
Proof.
  intros [gr_sigs0 gr_impls0 gr_nid0 gr_iid0 gr_ph0 gr_shared0 gr_rid0 gr_tracks0]. constructor; [assumption|assumption|assumption|assumption|]. intro i. rewrite gr_impls0.
  destruct (aget i (impls st)); [apply impl_same_refl|exact I].
Qed.

Lemma in_all_reps_good st r : WFstruct st -> In r (all_reps st) -> rep_good st r.
Proof. intros Hs Hin. pose proof (ws_good _ Hs) as F. rewrite Forall_forall in F. auto. Qed.

Lemma rep_clone_ok r b st : WFc st -> noclear st -> In r (all_reps st) ->
  exists r' st1, rep_clone r st = Ok (r', st1) /\
     r' = mkRep (next_rid st) (r_valid r) false (r_fn r) [] /\
     WFp (mkSB (Some r') b) st1 /\ Grow st st1 /\ slots st1 = slots st.
Proof.
  intros [Hs Hr Hg Hw] Hnc Hin. unfold rep_clone.
  set (rid := next_rid st). set (st0 := with_next_rid (rid + 1) st).
  assert (Hr0 : regs (dem_of (all_reps st)) st0) by (eapply regs_tracks_eq; [|exact Hr]; reflexivity).
  assert (Hnc0 : noclear st0) by exact Hnc.
  assert (Hb : exists st2, match r_fn r with Some f => bind_all rid (f_refs f) st0 | None => Ok st0 end = Ok st2 /\
      regs ((rid, refs_of r) :: dem_of (all_reps st)) st2 /\ same_heavy st0 st2 /\ tlive_same st0 st2 /\
      conns st2 = conns st0 /\ sconns st2 = sconns st0).
  { unfold refs_of. destruct (r_fn r) as [f|] eqn:Hfn.
    - apply bind_all_ok; auto. intros t Ht. apply (proj1 Hr t (r_id r)).
      eapply dem_in_pos; [|exact Ht]. unfold dem_of. apply in_map_iff. exists r. split; [|exact Hin].
      unfold refs_of. rewrite Hfn. reflexivity.
    - exists st0. split; [reflexivity|]. split.
      + eapply regs_dem_eq; [|exact Hr0]. intros t x. rewrite dem_cons. cbn [count_occ]. destruct (N.eqb rid x); reflexivity.
      + split; [apply same_heavy_refl|split; [apply tlive_same_refl|split; reflexivity]]. }
  destruct Hb as (st2 & E2 & R2 & H2 & T2 & C2 & K2). rewrite E2. cbn [rbind].
  eexists _, st2. split; [reflexivity|]. split; [reflexivity|].
  assert (Hs0 : WFstruct st0).
  { eapply WFstruct_mono; [| | | | | |exact Hs]; cbn [st0 slots impls next_rid next_nid next_iid next_ph with_next_rid]; try reflexivity; lia. }
  assert (Ea : all_reps st2 = all_reps st) by (rewrite (all_reps_heavy _ _ H2); reflexivity).
  assert (Hrid2 : next_rid st2 = rid + 1) by (destruct H2; assumption).
  split; [|split].
  - constructor.
    + eapply WFstruct_heavy; eauto.
    + rewrite Ea. exact R2.
    + eapply sig_ok_transfer; [| | |exact Hg]; [destruct H2; assumption| |destruct H2 as [sh_slots0 sh_sigs0 sh_impls0 sh_rid0 sh_nid0 sh_iid0 sh_ph0 sh_shared0]; rewrite sh_impls0; auto].
      eapply tlive_same_trans; [|exact T2]. apply tlive_tracks_eq. reflexivity.
    + eapply watch_ok_ex_transfer; [| | |exact Hw]; [destruct H2; assumption|rewrite C2; reflexivity|rewrite K2; reflexivity].
    + cbn [sb_reps sb_rep optl]. constructor; [|constructor]. split; [|split].
      * unfold rep_good. cbn [r_id r_valid r_fn]. rewrite Hrid2. split; [lia|].
        exact (proj2 (in_all_reps_good _ _ Hs Hin)).
      * split; reflexivity.
      * cbn [r_id]. rewrite Ea. intro X. apply in_map_iff in X. destruct X as (x & Ex & Hx).
        pose proof (proj1 (in_all_reps_good _ _ Hs Hx)) as Y. fold rid in Y. lia.
  - destruct H2. constructor; try assumption. rewrite Hrid2. unfold rid. lia.
  - destruct H2. assumption.
Qed.

(* ------------------------------------------------------------------ *)
(* slot_base value operations                                           *)

Lemma get_sb_in_all_reps l st sb r : get_sb l st = Some sb -> sb_rep sb = Some r -> In r (all_reps st).
Proof.
  intros H Hr. pose proof (get_sb_in_reps _ _ _ _ H Hr) as X. unfold all_reps. apply in_or_app.
  destruct l; [left|right]; exact X.
Qed.

Lemma aset_same {A} k (v : A) l : aget k l = Some v -> aset k v l = l.
Proof.
  intro H. destruct (aget_split _ _ _ H) as (l1 & l2 & -> & Hn). apply aset_split. exact Hn.
Qed.

Lemma set_sb_var_same s sb st : get_sb (LVar s) st = Some sb -> set_sb (LVar s) sb st = st.
Proof.
  intro H. apply get_sb_var_inv in H. unfold set_sb. rewrite (aset_same _ _ _ H). destruct st; reflexivity.
Qed.

Lemma sb_copy_ok l src st : WFc st -> noclear st -> get_sb l st = Some src ->
  exists sb st1, sb_copy src st = Ok (sb, st1) /\ WFp sb st1 /\ Grow st st1 /\ slots st1 = slots st.
Proof.
  intros Hc Hnc Hget. unfold sb_copy. destruct (sb_rep src) as [r|] eqn:Hrep.
  - destruct (r_valid r).
    + destruct (rep_clone_ok r (sb_blocked src) st Hc Hnc (get_sb_in_all_reps _ _ _ _ Hget Hrep))
        as (r' & st1 & E & _ & W & G & S).
      rewrite E. cbn [rbind]. eexists _, st1. split; [reflexivity|]. auto.
    + eexists _, st. split; [reflexivity|]. split; [apply WFp_none; exact Hc|]. split; [apply Grow_refl|reflexivity].
  - eexists _, st. split; [reflexivity|]. split; [apply WFp_none; exact Hc|]. split; [apply Grow_refl|reflexivity].
Qed.

Lemma Grow_set_sb_var s sb st : Grow st (set_sb (LVar s) sb st).
Proof. constructor; try reflexivity. apply tlive_tracks_eq. reflexivity. Qed.

Lemma sb_move_var_ok s src st : WFc st -> noclear st -> get_sb (LVar s) st = Some src ->
  exists sb src' st1, sb_move src st = Ok (sb, src', st1) /\
     WFp sb (set_sb (LVar s) src' st1) /\ Grow st (set_sb (LVar s) src' st1).
Proof.
  intros Hc Hnc Hget. unfold sb_move. destruct (sb_rep src) as [r|] eqn:Hrep.
  - destruct (var_rep_detached _ _ _ _ (wc_struct _ Hc) Hget Hrep) as (Hatt & Hwat).
    rewrite Hatt, Hwat. cbn [null_watchers].
    eexists _, _, st. split; [reflexivity|]. split; [|apply Grow_set_sb_var].
    destruct Hc as [Hs Hr Hg Hw].
    destruct (all_reps_set_sb (LVar s) st src sb_none Hget) as (A & B & Ea & Ea').
    unfold sb_reps in Ea, Ea'. rewrite Hrep in Ea. cbn [sb_none sb_rep optl] in Ea, Ea'.
    constructor.
    + eapply WFstruct_set_sb; eauto; [apply reps_upd_nil|constructor].
    + cbn [sb_reps sb_rep optl]. rewrite Ea'. cbn [app].
      eapply regs_tracks_eq; [reflexivity|]. rewrite Ea in Hr. apply regs_mid_out in Hr. exact Hr.
    + apply sig_ok_set_sb. exact Hg.
    + pose proof (watch_set_sb_out st (LVar s) src sb_none Hw Hget) as X.
      unfold sb_reps in X. rewrite Hrep in X. cbn [optl flat_map] in X. rewrite Hwat in X. exact X.
    + cbn [sb_reps sb_rep optl]. constructor; [|constructor].
      assert (Hin : In r (all_reps st)) by (rewrite Ea; apply in_or_app; right; left; reflexivity).
      split; [exact (in_all_reps_good _ _ Hs Hin)|]. split; [split; [exact Hatt|reflexivity]|].
      cbn [r_id r_with_watch]. rewrite Ea'. pose proof (ws_rids _ Hs) as N0. rewrite Ea in N0.
      rewrite !map_app in N0. cbn [map app] in N0. apply NoDup_remove_2 in N0. rewrite map_app. exact N0.
  - eexists _, _, st. split; [reflexivity|]. rewrite (set_sb_var_same _ _ _ Hget).
    split; [apply WFp_none; exact Hc|apply Grow_refl].
Qed.

Lemma take_out_delete l sb r b st : WFc st -> get_sb l st = Some sb -> sb_rep sb = Some r ->
  exists st', rep_delete r (set_sb l (mkSB None b) st) = Ok st' /\ WFc st' /\ Casc st st'.
Proof.
  intros [Hs Hr Hg Hw] Hget Hrep. set (st1 := set_sb l (mkSB None b) st).
  destruct (all_reps_set_sb l st sb (mkSB None b) Hget) as (A & B & Ea & Ea'). fold st1 in Ea'.
  unfold sb_reps in Ea, Ea'. rewrite Hrep in Ea. cbn [sb_rep optl] in Ea, Ea'.
  assert (Hs1 : WFstruct st1).
  { eapply WFstruct_set_sb; eauto; [apply reps_upd_nil|]. destruct l; [constructor|exact I]. }
  assert (Hr1 : regs ((r_id r, refs_of r) :: dem_of (all_reps st1)) st1).
  { rewrite Ea'. cbn [app]. eapply regs_tracks_eq; [apply (set_sb_other_fields l _ st)|].
    rewrite Ea in Hr. apply regs_mid_out in Hr. exact Hr. }
  assert (Hw1 : watch_ok_ex (r_watch r ++ []) st1).
  { pose proof (watch_set_sb_out st l sb (mkSB None b) Hw Hget) as X.
    unfold sb_reps in X. rewrite Hrep in X. cbn [optl flat_map] in X. exact X. }
  destruct (rep_delete_ok r _ [] st1 Hr1 Hw1) as (st' & E' & R' & W' & H' & T').
  exists st'. split; [exact E'|]. split.
  - eapply WFc_build; eauto. apply sig_ok_set_sb. exact Hg.
  - apply Casc_trans with (b := st1); [apply Casc_set_sb|apply Casc_heavy; assumption].
Qed.

Lemma delete_rep_with_check_ok l sb st : WFc st -> get_sb l st = Some sb ->
  exists st', delete_rep_with_check l st = Ok st' /\ WFc st' /\ Casc st st'.
Proof.
  intros Hc Hget. unfold delete_rep_with_check. rewrite Hget.
  destruct (sb_rep sb) as [r|] eqn:Hrep.
  2:{ exists st. split; [reflexivity|]. split; [exact Hc|apply Casc_refl]. }
  destruct (rep_disconnect_ok l st Hc) as (st1 & E1 & W1 & C1 & _). rewrite E1. cbn [rbind].
  destruct (find_rep (r_id r) st1) as [l'|] eqn:Hf.
  2:{ exists st1. split; [reflexivity|]. split; [exact W1|exact C1]. }
  destruct (find_rep_sound _ _ _ (WFstruct_keys_ok _ (wc_struct _ W1)) Hf) as (sb1 & r1 & G1 & G2 & G3).
  rewrite G1, G2.
  destruct (take_out_delete l' sb1 r1 (sb_blocked sb1) st1 W1 G1 G2) as (st2 & E2 & W2 & C2).
  exists st2. split; [exact E2|]. split; [exact W2|eapply Casc_trans; eauto].
Qed.

Lemma assign_finish d dst sbn rn r'' b st :
  WFp sbn st -> sb_rep sbn = Some rn -> get_sb (LVar d) st = Some dst ->
  r_id r'' = r_id rn -> r_fn r'' = r_fn rn -> r_valid r'' = r_valid rn -> rep_detached r'' ->
  exists st2, match sb_rep dst with
              | Some old => rep_delete (r_with_attached false old) st
              | None => Ok st
              end = Ok st2 /\
     WFc (set_sb (LVar d) (mkSB (Some r'') b) st2) /\ Grow st (set_sb (LVar d) (mkSB (Some r'') b) st2).
Proof.
  intros [Hs Hr Hg Hw Hp] Hsbn Hget Hid Hfn Hval Hdet.
  unfold sb_reps in Hr, Hp. rewrite Hsbn in Hr, Hp. cbn [optl] in Hr, Hp.
  inversion Hp as [|? ? (Pg & Pd & Pf) _]; subst.
  destruct (all_reps_set_sb (LVar d) st dst dst Hget) as (A & B & Ea & _).
  assert (Hmid : exists st2, match sb_rep dst with
              | Some old => rep_delete (r_with_attached false old) st
              | None => Ok st
              end = Ok st2 /\ regs (dem_of [rn] ++ dem_of (A ++ B)) st2 /\ watch_ok st2 /\
              same_heavy st st2 /\ tlive_same st st2).
  { unfold sb_reps in Ea. destruct (sb_rep dst) as [old|] eqn:Hold; cbn [optl] in Ea.
    - destruct (var_rep_detached _ _ _ _ Hs Hget Hold) as (Oa & Ow).
      assert (R0 : regs ((r_id old, refs_of old) :: dem_of [rn] ++ dem_of (A ++ B)) st).
      { eapply regs_perm; [|exact Hr]. rewrite Ea, !dem_of_app. cbn [dem_of map app].
        apply Permutation_sym. eapply Permutation_trans; [apply perm_swap|]. apply perm_skip.
        apply Permutation_middle. }
      destruct (rep_delete_ok (r_with_attached false old) _ [] st R0) as (st2 & E2 & R2 & W2 & H2 & T2).
      { cbn [r_watch r_with_attached]. rewrite Ow. exact Hw. }
      exists st2. auto.
    - exists st. split; [reflexivity|]. split; [rewrite Ea in Hr; exact Hr|].
      split; [exact Hw|split; [apply same_heavy_refl|apply tlive_same_refl]]. }
  destruct Hmid as (st2 & E2 & R2 & W2 & H2 & T2). exists st2. split; [exact E2|].
  assert (Hget2 : get_sb (LVar d) st2 = Some dst) by (rewrite (get_sb_heavy _ _ _ H2); exact Hget).
  assert (Ea2 : all_reps st2 = all_reps st) by (apply all_reps_heavy; exact H2).
  destruct (all_reps_set_sb (LVar d) st2 dst (mkSB (Some r'') b) Hget2) as (A' & B' & Eb & Eb').
  assert (Hs2 : WFstruct st2) by (eapply WFstruct_heavy; eauto).
  split.
  - constructor.
    + eapply WFstruct_set_sb; eauto.
      * cbn [sb_reps sb_rep optl]. split; [constructor; [intros []|constructor]|]. split.
        -- constructor; [|constructor]. unfold rep_good in *. rewrite Hid, Hval, Hfn.
           destruct H2 as [sh_slots0 sh_sigs0 sh_impls0 sh_rid0 sh_nid0 sh_iid0 sh_ph0 sh_shared0]. rewrite sh_rid0. exact Pg.
        -- intros r' [<-|[]]. right. rewrite Ea2, Hid. exact Pf.
      * cbn [sb_reps sb_rep optl]. constructor; [exact Hdet|constructor].
    + eapply regs_tracks_eq; [apply (set_sb_other_fields (LVar d) _ st2)|].
      eapply regs_dem_eq; [|exact R2]. intros t rid.
      rewrite Eb'. rewrite Ea2, Ea in Eb.
      assert (Hd : dem t rid (dem_of (A' ++ B')) = dem t rid (dem_of (A ++ B))).
      { assert (X : dem t rid (dem_of (A' ++ sb_reps dst ++ B')) = dem t rid (dem_of (A ++ sb_reps dst ++ B)))
          by (rewrite Eb; reflexivity).
        rewrite !dem_of_app, !dem_app in *. lia. }
      rewrite !dem_of_app, !dem_app in *. cbn [sb_reps sb_rep optl dem_of map dem].
      unfold refs_of. rewrite Hid, Hfn. lia.
    + apply sig_ok_set_sb. eapply sig_ok_transfer; [| | |exact Hg]; [destruct H2; assumption|exact T2|].
      destruct H2 as [sh_slots0 sh_sigs0 sh_impls0 sh_rid0 sh_nid0 sh_iid0 sh_ph0 sh_shared0]. rewrite sh_impls0. auto.
    + eapply watch_set_sb_ex; eauto. intros r Hr0. exists r''. split; [reflexivity|].
      destruct (var_rep_detached _ _ _ _ Hs Hget Hr0) as (_ & Ow). rewrite Ow. intros x [].
  - eapply Grow_trans; [apply Grow_heavy; eauto|apply Grow_set_sb_var].
Qed.

Lemma steal_ok s src r b st : WFc st -> get_sb (LVar s) st = Some src -> sb_rep src = Some r ->
  WFp (mkSB (Some (r_with_watch [] r)) b) (set_sb (LVar s) sb_none st).
Proof.
  intros Hc Hget Hrep.
  destruct (var_rep_detached _ _ _ _ (wc_struct _ Hc) Hget Hrep) as (Hatt & Hwat).
  destruct Hc as [Hs Hr Hg Hw].
  destruct (all_reps_set_sb (LVar s) st src sb_none Hget) as (A & B & Ea & Ea').
  unfold sb_reps in Ea, Ea'. rewrite Hrep in Ea. cbn [sb_none sb_rep optl] in Ea, Ea'.
  constructor.
  - eapply WFstruct_set_sb; eauto; [apply reps_upd_nil|constructor].
  - cbn [sb_reps sb_rep optl]. rewrite Ea'. cbn [app].
    eapply regs_tracks_eq; [reflexivity|]. rewrite Ea in Hr. apply regs_mid_out in Hr. exact Hr.
  - apply sig_ok_set_sb. exact Hg.
  - pose proof (watch_set_sb_out st (LVar s) src sb_none Hw Hget) as X.
    unfold sb_reps in X. rewrite Hrep in X. cbn [optl flat_map] in X. rewrite Hwat in X. exact X.
  - cbn [sb_reps sb_rep optl]. constructor; [|constructor].
    assert (Hin : In r (all_reps st)) by (rewrite Ea; apply in_or_app; right; left; reflexivity).
    split; [exact (in_all_reps_good _ _ Hs Hin)|]. split; [split; [exact Hatt|reflexivity]|].
    cbn [r_id r_with_watch]. rewrite Ea'. pose proof (ws_rids _ Hs) as N0. rewrite Ea in N0.
    rewrite !map_app in N0. cbn [map app] in N0. apply NoDup_remove_2 in N0. rewrite map_app. exact N0.
Qed.

Lemma same_rep_refl sb : same_rep sb sb = true.
Proof. unfold same_rep. destruct (sb_rep sb); [apply N.eqb_refl|reflexivity]. Qed.

Lemma sb_assign_ok d s st : WFc st -> noclear st ->
  match sb_assign d s st with
  | Ok st' => WFc st' /\ Casc st st'
  | Err e => e = ErrUnsupported
  end.
Proof.
  intros Hc Hnc. unfold sb_assign.
  destruct (get_sb (LVar d) st) as [dst|] eqn:Hd; [|reflexivity].
  destruct (get_sb (LVar s) st) as [src|] eqn:Hs; [|reflexivity].
  destruct (same_rep src dst).
  { split; [apply set_sb_blocked_ok; assumption|apply Casc_set_sb]. }
  destruct (sb_empty src).
  { destruct (delete_rep_with_check_ok _ _ _ Hc Hd) as (st' & E & W & C). rewrite E. auto. }
  destruct (sb_rep src) as [r|] eqn:Hrep; [|split; [exact Hc|apply Casc_refl]].
  destruct (rep_clone_ok r (sb_blocked src) st Hc Hnc (get_sb_in_all_reps _ _ _ _ Hs Hrep))
    as (r' & st1 & E & Er' & W & G & S).
  rewrite E. cbn [rbind].
  assert (Hd1 : get_sb (LVar d) st1 = Some dst) by (rewrite get_sb_var, S; exact Hd).
  set (r'' := match sb_rep dst with Some old => r_with_attached (r_attached old) r' | None => r' end).
  assert (Hdet : rep_detached r'').
  { unfold r''. destruct (sb_rep dst) as [old|] eqn:Hold.
    - destruct (var_rep_detached _ _ _ _ (wc_struct _ Hc) Hd Hold) as (Oa & _).
      rewrite Oa, Er'. split; reflexivity.
    - rewrite Er'. split; reflexivity. }
  destruct (assign_finish d dst _ r' r'' (sb_blocked src) st1 W eq_refl Hd1) as (st2 & E2 & W2 & G2);
    try (unfold r''; destruct (sb_rep dst); reflexivity); [exact Hdet|].
  rewrite E2. cbn [rbind]. split; [exact W2|]. apply Grow_Casc. eapply Grow_trans; eauto.
Qed.

Lemma sb_move_assign_ok d s st : WFc st -> noclear st ->
  match sb_move_assign d s st with
  | Ok st' => WFc st' /\ Casc st st'
  | Err e => e = ErrUnsupported
  end.
Proof.
  intros Hc Hnc. unfold sb_move_assign.
  destruct (get_sb (LVar d) st) as [dst|] eqn:Hd; [|reflexivity].
  destruct (get_sb (LVar s) st) as [src|] eqn:Hs; [|reflexivity].
  destruct (same_rep src dst) eqn:Hsame.
  { split; [apply set_sb_blocked_ok; assumption|apply Casc_set_sb]. }
  destruct (sb_empty src).
  { destruct (delete_rep_with_check_ok _ _ _ Hc Hd) as (st' & E & W & C). rewrite E. auto. }
  destruct (sb_rep src) as [r|] eqn:Hrep; [|split; [exact Hc|apply Casc_refl]].
  destruct (var_rep_detached _ _ _ _ (wc_struct _ Hc) Hs Hrep) as (Hatt & Hwat).
  rewrite Hatt, Hwat. cbn [null_watchers rbind].
  assert (Hne : LVar d <> LVar s).
  { intro X. inversion X; subst d. rewrite Hd in Hs. inversion Hs; subst dst. rewrite same_rep_refl in Hsame. discriminate. }
  pose proof (steal_ok s src r (sb_blocked src) st Hc Hs Hrep) as W.
  set (st1 := set_sb (LVar s) sb_none st) in *.
  assert (Hd1 : get_sb (LVar d) st1 = Some dst) by (unfold st1; rewrite get_set_sb_other by exact Hne; exact Hd).
  set (rn := r_with_watch [] r) in *.
  set (r'' := match sb_rep dst with Some old => r_with_attached (r_attached old) rn | None => rn end).
  assert (Hdet : rep_detached r'').
  { unfold r''. destruct (sb_rep dst) as [old|] eqn:Hold.
    - destruct (var_rep_detached _ _ _ _ (wc_struct _ Hc) Hd Hold) as (Oa & _).
      rewrite Oa. split; reflexivity.
    - split; [exact Hatt|reflexivity]. }
  destruct (assign_finish d dst _ rn r'' (sb_blocked src) st1 W eq_refl Hd1) as (st2 & E2 & W2 & G2);
    try (unfold r''; destruct (sb_rep dst); reflexivity); [exact Hdet|].
  rewrite E2. cbn [rbind]. split; [exact W2|]. apply Grow_Casc. eapply Grow_trans; [|exact G2].
  unfold st1. apply Grow_set_sb_var.
Qed.

(* ------------------------------------------------------------------ *)
(* installing a pending slot base                                       *)

Lemma pend_upd_ok sb st :
  Forall (fun r => rep_good st r /\ rep_detached r /\ ~ In (r_id r) (map r_id (all_reps st))) (sb_reps sb) ->
  reps_upd_ok st [] (sb_reps sb).
Proof.
  intro F. unfold sb_reps in *. destruct (sb_rep sb) as [r|]; cbn [optl] in *; [|apply reps_upd_nil].
  inversion F as [|? ? (Pg & Pd & Pf) _]; subst. split; [constructor; [intros []|constructor]|].
  split; [constructor; [exact Pg|constructor]|]. intros r' [<-|[]]. right. exact Pf.
Qed.

Lemma new_slot_var_ok s rk sb st : WFp sb st -> aget s (slots st) = None ->
  WFc (new_slot_var s rk sb st) /\ Grow st (new_slot_var s rk sb st).
Proof.
  intros [Hs Hr Hg Hw Hp] Hfresh. unfold new_slot_var.
  set (st1 := with_slots (aset s (Some sb) (slots st)) st).
  assert (Hs1 : WFstruct st1).
  { apply WFstruct_new_slot; auto; cbn [slot_reps]; [apply pend_upd_ok; exact Hp|].
    eapply Forall_impl; [|exact Hp]. intros r (_ & X & _). exact X. }
  assert (Ea : all_reps st1 = var_reps st ++ sb_reps sb ++ node_reps st).
  { unfold all_reps, var_reps, node_reps, st1. cbn [slots impls with_slots].
    rewrite (var_reps_absent _ _ _ Hfresh). cbn [slot_reps]. rewrite <- app_assoc. reflexivity. }
  assert (Hh : same_heavy st1 (with_skind (aset s rk (skind st1)) st1)) by (constructor; reflexivity).
  split.
  - eapply WFc_build; [exact Hs1| |exact Hh|apply tlive_tracks_eq; reflexivity| |].
    + eapply sig_ok_transfer; [| | |exact Hg]; [reflexivity|apply tlive_tracks_eq; reflexivity|auto].
    + eapply regs_tracks_eq; [reflexivity|]. eapply regs_perm; [|exact Hr]. rewrite Ea, !dem_of_app.
      unfold all_reps. rewrite dem_of_app. rewrite app_assoc.
      apply Permutation_trans with ((dem_of (var_reps st) ++ dem_of (sb_reps sb)) ++ dem_of (node_reps st)).
      * apply Permutation_app_tail. apply Permutation_app_comm.
      * rewrite <- app_assoc. apply Permutation_refl.
    + eapply watch_ok_ex_transfer; [| | |exact Hw]; reflexivity.
  - constructor; try reflexivity. apply tlive_tracks_eq. reflexivity.
Qed.

Lemma impl_insert_ok i front sb st im : WFp sb st -> aget i (impls st) = Some im ->
  exists r st', impl_insert i front sb st = Ok (Real (next_nid st), st') /\ WFc st' /\ Casc st st' /\
    get_sb (LNode i (Real (next_nid st))) st' = Some (mkSB (Some r) (sb_blocked sb)) /\
    slots st' = slots st /\ sigs st' = sigs st /\ next_iid st' = next_iid st.
Proof.
  intros [Hs Hr Hg Hw Hp] Hi. unfold impl_insert. rewrite Hi.
  set (n := Real (next_nid st)). set (st1 := with_next_nid (next_nid st + 1) st).
  (* the rep that goes into the node, and the state carrying the rid counter *)
  set (r := match sb_rep sb with Some r => r_with_attached true r | None => mkRep (next_rid st1) false true None [] end).
  set (st2 := match sb_rep sb with Some _ => st1 | None => with_next_rid (next_rid st1 + 1) st1 end).
  assert (Epair : (match sb_rep sb with
                   | Some r => (r_with_attached true r, st1)
                   | None => (mkRep (next_rid st1) false true None [], with_next_rid (next_rid st1 + 1) st1)
                   end) = (r, st2)) by (unfold r, st2; destruct (sb_rep sb); reflexivity).
  rewrite Epair.
  set (nd := mkNode n (mkSB (Some r) (sb_blocked sb))).
  set (nodes' := if front then nd :: i_nodes im else i_nodes im ++ [nd]).
  assert (Hs2 : WFstruct st2).
  { eapply WFstruct_mono; [| | | | | |exact Hs]; unfold st2, st1; destruct (sb_rep sb);
      cbn [slots impls next_rid next_nid next_iid next_ph with_next_nid with_next_rid]; try reflexivity; lia. }
  assert (Hi2 : aget i (impls st2) = Some im) by (unfold st2, st1; destruct (sb_rep sb); exact Hi).
  assert (Ea2 : all_reps st2 = all_reps st) by (unfold st2, st1; destruct (sb_rep sb); reflexivity).
  assert (Hnfresh : ~ In n (ids (i_nodes im))).
  { intro X. destruct (ws_nodes _ Hs i im Hi) as (_ & F). rewrite Forall_forall in F.
    specialize (F n X). unfold n, nid_ok in F. lia. }
  assert (Hsplit : exists P Q, i_nodes im = P ++ [] ++ Q /\ nodes' = P ++ [nd] ++ Q).
  { unfold nodes'. destruct front.
    - exists [], (i_nodes im). split; reflexivity.
    - exists (i_nodes im), []. rewrite !app_nil_r. split; reflexivity. }
  destruct Hsplit as (P & Q & En & En').
  set (im' := with_nodes nodes' im).
  assert (Hup : reps_upd_ok st2 (nodes_reps []) (nodes_reps [nd])).
  { cbn [nodes_reps flat_map nd n_sb sb_reps sb_rep optl app].
    split; [constructor; [intros []|constructor]|]. split.
    - constructor; [|constructor]. unfold r, st2, st1, sb_reps in *. destruct (sb_rep sb) as [r0|]; cbn [optl] in Hp.
      + inversion Hp as [|? ? (Pg & _) _]; subst. exact Pg.
      + split; [cbn [r_id next_rid with_next_rid with_next_nid]; lia|discriminate].
    - intros r' [<-|[]]. right. rewrite Ea2. unfold r, st1, sb_reps in *. destruct (sb_rep sb) as [r0|]; cbn [optl] in Hp.
      + inversion Hp as [|? ? (_ & _ & Pf) _]; subst. exact Pf.
      + cbn [r_id next_rid with_next_nid]. intro X. apply in_map_iff in X. destruct X as (x & Ex & Hx).
        pose proof (proj1 (in_all_reps_good _ _ Hs Hx)) as Y. lia. }
  assert (Hs3 : WFstruct (set_impl i im' st2)).
  { eapply (WFstruct_set_impl st2 i im im' P [] [nd] Q); eauto.
    - cbn [im' i_nodes with_nodes]. unfold nodes', ids. destruct front; cbn [map n_id nd].
      + constructor; [exact Hnfresh|exact (proj1 (ws_nodes _ Hs i im Hi))].
      + rewrite map_app. cbn [map n_id]. apply NoDup_app_swap. cbn [app].
        constructor; [exact Hnfresh|exact (proj1 (ws_nodes _ Hs i im Hi))].
    - cbn [ids map n_id nd]. constructor; [|constructor]. unfold n, nid_ok, st2, st1.
      destruct (sb_rep sb); cbn [next_nid with_next_nid with_next_rid]; lia. }
  destruct (set_impl_nodes_reps st2 i im im' P [] [nd] Q Hi2 En En') as (L & R & Eb & Eb').
  cbn [nodes_reps flat_map nd n_sb sb_reps sb_rep optl app] in Eb, Eb'.
  exists r, (set_impl i im' st2). split; [reflexivity|]. split; [|split; [|split]].
  - constructor.
    + exact Hs3.
    + rewrite Eb'. assert (Et : tracks (set_impl i im' st2) = tracks st).
      { unfold st2, st1. destruct (sb_rep sb); reflexivity. }
      eapply regs_tracks_eq; [exact Et|]. eapply regs_dem_eq; [|exact Hr]. intros t rid.
      rewrite <- Ea2, Eb. change (L ++ r :: R) with (L ++ [r] ++ R). rewrite !dem_of_app, !dem_app.
      set (dL := dem t rid (dem_of L)). set (dR := dem t rid (dem_of R)).
      unfold r, sb_reps. destruct (sb_rep sb) as [r0|]; cbn [optl dem_of map dem]; unfold refs_of; cbn [r_fn r_id r_with_attached count_occ].
      * lia.
      * destruct (N.eqb (next_rid st1) rid); lia.
    + apply sig_ok_set_impl. unfold st2, st1. destruct (sb_rep sb); exact Hg.
    + intros w j m Hpn.
      assert (Hpn0 : get_connptr w st = Some (Some (j, m))).
      { rewrite <- Hpn. unfold st2, st1. destruct (sb_rep sb); destruct w; reflexivity. }
      destruct (Hw w j m Hpn0) as [[]|(sb0 & r0 & G1 & G2 & G3)]. right. exists sb0, r0. split; [|auto].
      rewrite get_sb_set_impl_node. destruct (N.eqb_spec j i) as [->|Hne].
      * rewrite get_sb_node, Hi in G1. cbn [im' i_nodes with_nodes]. unfold nodes'.
        destruct (find_node m (i_nodes im)) as [x|] eqn:Hfm; [|discriminate].
        destruct front.
        -- cbn [find_node nd n_id]. destruct (nid_eqb_spec n m) as [<-|]; [|rewrite Hfm; exact G1].
           exfalso. apply Hnfresh. apply find_node_some_iff. eauto.
        -- rewrite find_node_app, Hfm. exact G1.
      * rewrite <- G1. unfold st2, st1. destruct (sb_rep sb); reflexivity.
  - constructor.
    + unfold st2, st1. destruct (sb_rep sb); reflexivity.
    + unfold st2, st1. destruct (sb_rep sb); reflexivity.
    + unfold st2, st1. destruct (sb_rep sb); reflexivity.
    + apply tlive_tracks_eq. unfold st2, st1. destruct (sb_rep sb); reflexivity.
    + intro j. rewrite aget_set_impl. destruct (N.eqb_spec j i) as [->|Hne].
      * rewrite Hi. split; [reflexivity|]. split; [reflexivity|]. split; [reflexivity|]. split; [|split; [reflexivity|]].
        -- intros _. cbn [im' i_nodes with_nodes]. unfold nodes', ids. destruct front.
           ++ exists [n], []. rewrite app_nil_r. reflexivity.
           ++ exists [], [n]. rewrite map_app. reflexivity.
        -- cbn [im' i_nodes with_nodes]. unfold nodes', ids, phc. destruct front; cbn [map n_id nd filter n nid_is_ph].
           ++ lia.
           ++ rewrite map_app, filter_app, app_length. cbn [map n_id filter nid_is_ph length nd n]. lia.
      * assert (X : aget j (impls st2) = aget j (impls st)) by (unfold st2, st1; destruct (sb_rep sb); reflexivity).
        rewrite X. destruct (aget j (impls st)); [apply impl_same_refl|exact I].
  - rewrite get_sb_set_impl_node, N.eqb_refl. cbn [im' i_nodes with_nodes]. unfold nodes'.
    destruct front.
    + cbn [find_node nd n_id]. rewrite nid_eqb_refl. reflexivity.
    + rewrite find_node_app. destruct (find_node n (i_nodes im)) as [x|] eqn:Hfm.
      * exfalso. apply Hnfresh. apply find_node_some_iff. eauto.
      * cbn [find_node nd n_id]. rewrite nid_eqb_refl. reflexivity.
  - unfold st2, st1. destruct (sb_rep sb); repeat split.
Qed.

(* ------------------------------------------------------------------ *)
(* connections                                                          *)

Definition WFx (ex : list wref) (st : state) : Prop :=
  WFstruct st /\ regs (dem_of (all_reps st)) st /\ sig_ok st /\ watch_ok_ex ex st.

Lemma WFx_nil st : WFx [] st <-> WFc st.
Proof.
  split; [intros (A & B & C & D); constructor; assumption|].
  intros [A B C D]. split; [exact A|split; [exact B|split; [exact C|exact D]]].
Qed.

Lemma WFx_weaken ex ex' st : incl ex ex' -> WFx ex st -> WFx ex' st.
Proof.
  intros Hi (A & B & C & D). split; [exact A|split; [exact B|split; [exact C|]]].
  eapply watch_ok_ex_weaken; eauto.
Qed.

Definition has_rep (i : N) (n : nid) (st : state) : Prop :=
  exists sb r, get_sb (LNode i n) st = Some sb /\ sb_rep sb = Some r.

Lemma has_rep_set_sb l sb r' b' st j m : get_sb l st = Some sb -> has_rep j m st ->
  has_rep j m (set_sb l (mkSB (Some r') b') st).
Proof.
  intros Hget (sb0 & r0 & G1 & G2). destruct (loc_eqb_spec (LNode j m) l) as [<-|Hn].
  - exists (mkSB (Some r') b'), r'. split; [eapply get_set_sb_same; eauto|reflexivity].
  - exists sb0, r0. split; [rewrite get_set_sb_other by assumption; exact G1|exact G2].
Qed.

Lemma has_rep_impls st st' j m : impls st' = impls st -> has_rep j m st -> has_rep j m st'.
Proof. intros E (sb & r & G1 & G2). exists sb, r. rewrite (get_sb_node_impls _ _ _ _ E). auto. Qed.

Lemma target_has_rep w i n st : target_ok w i n st -> has_rep i n st.
Proof. intros (sb & r & A & B & _). exists sb, r. auto. Qed.

Lemma set_connptr_heavy w p st : same_heavy st (set_connptr w p st).
Proof. destruct w; constructor; reflexivity. Qed.

Lemma set_connptr_tracks w p st : tracks (set_connptr w p st) = tracks st.
Proof. destruct w; reflexivity. Qed.

Lemma set_connptr_x w p ex st : WFx ex st -> WFx (w :: ex) (set_connptr w p st).
Proof.
  intros (A & B & C & D). pose proof (set_connptr_heavy w p st) as Hh.
  split; [eapply WFstruct_heavy; eauto|]. split; [|split].
  - rewrite (all_reps_heavy _ _ Hh). eapply regs_tracks_eq; [apply set_connptr_tracks|exact B].
  - eapply sig_ok_transfer; [| | |exact C]; [destruct Hh; assumption|apply tlive_tracks_eq; apply set_connptr_tracks|].
    destruct Hh as [sh_slots0 sh_sigs0 sh_impls0 sh_rid0 sh_nid0 sh_iid0 sh_ph0 sh_shared0]. rewrite sh_impls0. auto.
  - intros w' i n Hp. rewrite get_set_connptr in Hp. destruct (wref_eqb_spec w' w) as [->|Hn].
    + left. left. reflexivity.
    + destruct (D w' i n Hp) as [X|X]; [left; right; exact X|right].
      eapply target_ok_impls; [|exact X]. destruct Hh; assumption.
Qed.

Lemma WFx_close w st : WFx [w] st ->
  (forall i n, get_connptr w st = Some (Some (i, n)) -> target_ok w i n st) -> WFc st.
Proof.
  intros (A & B & C & D) Hw. constructor; try assumption.
  intros w' i n Hp. destruct (D w' i n Hp) as [[<-|[]]|X]; right; auto.
Qed.

Lemma watch_upd_ok ex st i n sb r ws :
  WFx ex st -> get_sb (LNode i n) st = Some sb -> sb_rep sb = Some r ->
  (forall x, In x (r_watch r) -> In x ex \/ In x ws) ->
  WFx ex (set_sb (LNode i n) (mkSB (Some (r_with_watch ws r)) (sb_blocked sb)) st).
Proof.
  intros (Hs & Hr & Hg & Hw) Hget Hrep Hinc.
  assert (Hv : r_valid (r_with_watch ws r) = true -> r_fn (r_with_watch ws r) <> None).
  { cbn [r_valid r_fn r_with_watch]. exact (proj2 (in_all_reps_good _ _ Hs (get_sb_in_all_reps _ _ _ _ Hget Hrep))). }
  destruct (set_sb_rep_ok_gen ex st (LNode i n) sb r (r_with_watch ws r) (sb_blocked sb) Hs Hg Hw Hget Hrep eq_refl Hv I Hinc)
    as (S1 & S2 & S3 & A & B & Ea & Ea').
  split; [exact S1|]. split; [|split; assumption].
  rewrite Ea'. eapply regs_tracks_eq; [apply (set_sb_other_fields (LNode i n) _ st)|].
  eapply regs_dem_eq; [|exact Hr]. intros t rid. rewrite Ea, !dem_of_app, !dem_app. reflexivity.
Qed.

Lemma in_remove_first_other w x l : In x l -> x = w \/ In x (remove_first (wref_eqb w) l).
Proof.
  induction l as [|y l IH]; cbn [In remove_first]; [tauto|].
  intros [<-|Hi].
  - destruct (wref_eqb_spec w y) as [->|Hn]; [left; reflexivity|right; left; reflexivity].
  - destruct (wref_eqb w y); [right; exact Hi|]. destruct (IH Hi) as [X|X]; [left; exact X|right; right; exact X].
Qed.

Lemma watch_add_ok w p st : WFx [w] st -> get_connptr w st = Some p ->
  (forall i n, p = Some (i, n) -> has_rep i n st) ->
  exists st', watch_add p w st = Ok st' /\ WFc st' /\ Casc st st' /\
     (forall j m, has_rep j m st -> has_rep j m st') /\
     (forall w', get_connptr w' st' = get_connptr w' st).
Proof.
  intros Hx Hp Hhas. unfold watch_add. destruct p as [[i n]|].
  - destruct (Hhas i n eq_refl) as (sb & r & G1 & G2). rewrite G1, G2.
    eexists. split; [reflexivity|]. split; [|split; [apply Casc_set_sb|split]].
    + eapply (WFx_close w).
      * eapply watch_upd_ok; eauto. intros x Hxi. right. apply in_or_app. left; exact Hxi.
      * intros i' n' Hp'. rewrite get_connptr_set_sb, Hp in Hp'. inversion Hp'; subst i' n'.
        eexists _, _. split; [eapply get_set_sb_same; eauto|]. split; [reflexivity|].
        cbn [r_watch r_with_watch]. apply in_or_app. right; left; reflexivity.
    + intros j m. eapply has_rep_set_sb. exact G1.
    + intro w'. apply get_connptr_set_sb.
  - exists st. split; [reflexivity|]. split; [|split; [apply Casc_refl|split; auto]].
    eapply WFx_close; eauto. intros i n Hp'. rewrite Hp in Hp'. discriminate.
Qed.

Lemma watch_remove_ok w p st : WFc st -> get_connptr w st = Some p ->
  exists st', watch_remove p w st = Ok st' /\ WFx [w] st' /\ Casc st st' /\
     (forall j m, has_rep j m st -> has_rep j m st') /\
     (forall w', get_connptr w' st' = get_connptr w' st).
Proof.
  intros Hc Hp. unfold watch_remove. destruct p as [[i n]|].
  - destruct (wc_watch _ Hc w i n Hp) as [[]|(sb & r & G1 & G2 & G3)]. rewrite G1, G2.
    eexists. split; [reflexivity|]. split; [|split; [apply Casc_set_sb|split]].
    + eapply watch_upd_ok; eauto.
      * eapply WFx_weaken; [|apply WFx_nil; exact Hc]. intros x [].
      * intros x Hxi. destruct (in_remove_first_other w x _ Hxi) as [->|X]; [left; left; reflexivity|right; exact X].
    + intros j m. eapply has_rep_set_sb. exact G1.
    + intro w'. apply get_connptr_set_sb.
  - exists st. split; [reflexivity|]. split; [|split; [apply Casc_refl|split; auto]].
    eapply WFx_weaken; [|apply WFx_nil; exact Hc]. intros x [].
Qed.

Lemma Casc_set_connptr w p st : Casc st (set_connptr w p st).
Proof. apply Casc_heavy; [apply set_connptr_heavy|apply tlive_tracks_eq; apply set_connptr_tracks]. Qed.

Lemma conn_set_ok w p old st : WFc st -> get_connptr w st = Some old ->
  (forall i n, p = Some (i, n) -> has_rep i n st) ->
  exists st', conn_set w p st = Ok st' /\ WFc st' /\ Casc st st' /\
    (forall j m, has_rep j m st -> has_rep j m st') /\
    get_connptr w st' = Some p /\ (forall w', w' <> w -> get_connptr w' st' = get_connptr w' st).
Proof.
  intros Hc Hold Hhas. unfold conn_set. rewrite Hold.
  destruct (watch_remove_ok w old st Hc Hold) as (st1 & E1 & X1 & C1 & R1 & P1). rewrite E1. cbn [rbind].
  set (st1' := set_connptr w p st1).
  assert (X1' : WFx [w] st1').
  { apply (WFx_weaken [w; w]); [intros x [<-|[<-|[]]]; left; reflexivity|]. apply set_connptr_x. exact X1. }
  assert (Hp1 : get_connptr w st1' = Some p).
  { unfold st1'. rewrite get_set_connptr. destruct (wref_eqb_spec w w); [reflexivity|congruence]. }
  assert (Hhas1 : forall i n, p = Some (i, n) -> has_rep i n st1').
  { intros i n E. eapply has_rep_impls; [|apply R1; apply Hhas; exact E].
    destruct (set_connptr_heavy w p st1); assumption. }
  destruct (watch_add_ok w p st1' X1' Hp1 Hhas1) as (st2 & E2 & W2 & C2 & R2 & P2).
  rewrite E2. cbn [rbind]. exists st2. split; [reflexivity|]. split; [exact W2|]. split; [|split; [|split]].
  - eapply Casc_trans; [exact C1|]. eapply Casc_trans; [apply Casc_set_connptr|exact C2].
  - intros j m H. apply R2. eapply has_rep_impls; [|apply R1; exact H].
    destruct (set_connptr_heavy w p st1); assumption.
  - rewrite P2. exact Hp1.
  - intros w' Hn. rewrite P2. unfold st1'. rewrite get_set_connptr.
    destruct (wref_eqb_spec w' w); [contradiction|]. apply P1.
Qed.

Lemma conn_disconnect_ok p st : WFc st ->
  (forall i n, p = Some (i, n) -> exists sb, get_sb (LNode i n) st = Some sb) ->
  exists st', conn_disconnect p st = Ok st' /\ WFc st' /\ Casc st st'.
Proof.
  intros Hc Hex. unfold conn_disconnect, conn_target. destruct p as [[i n]|].
  - destruct (Hex i n eq_refl) as (sb & G). rewrite G. cbn [rbind].
    destruct (rep_disconnect_ok (LNode i n) st Hc) as (st' & E & W & C & _). exists st'. auto.
  - cbn [rbind]. exists st. split; [reflexivity|]. split; [exact Hc|apply Casc_refl].
Qed.

Lemma live_conn_target w p st : WFc st -> get_connptr w st = Some p ->
  forall i n, p = Some (i, n) -> has_rep i n st.
Proof.
  intros Hc Hp i n ->. destruct (wc_watch _ Hc w i n Hp) as [[]|X]. eapply target_has_rep; eauto.
Qed.

(* ------------------------------------------------------------------ *)
(* operations on one signal_impl                                        *)

Record FrameI (i : N) (st st' : state) : Prop := mkFrameI
  { fi_sigs : sigs st' = sigs st
  ; fi_iid : next_iid st' = next_iid st
  ; fi_shared : shared st' = shared st
  ; fi_tracks : tlive_same st st'
  ; fi_others : forall j, j <> i -> aget j (impls st') = aget j (impls st) }.

Lemma FrameI_refl i st : FrameI i st st.
Proof. constructor; [reflexivity|reflexivity|reflexivity|apply tlive_same_refl|reflexivity]. Qed.

Lemma FrameI_trans i a b c : FrameI i a b -> FrameI i b c -> FrameI i a c.
Proof.
  intros [S1 N1 X1 T1 O1] [S2 N2 X2 T2 O2]. constructor; [congruence|congruence|congruence|eapply tlive_same_trans; eauto|].
  intros j Hj. rewrite (O2 j Hj). apply O1. exact Hj.
Qed.

Lemma FrameI_heavy i st st' : same_heavy st st' -> tlive_same st st' -> FrameI i st st'.
Proof. intros [sh_slots0 sh_sigs0 sh_impls0 sh_rid0 sh_nid0 sh_iid0 sh_ph0 sh_shared0] T. constructor; [assumption|assumption|assumption|exact T|]. intros j _. rewrite sh_impls0. reflexivity. Qed.

Lemma FrameI_set_impl i im' st : FrameI i st (set_impl i im' st).
Proof.
  constructor; [reflexivity|reflexivity|reflexivity|apply tlive_tracks_eq; reflexivity|]. intros j Hj. rewrite aget_set_impl.
  destruct (N.eqb_spec j i); [contradiction|reflexivity].
Qed.

Lemma FrameI_Casc i st st' : FrameI i st st' ->
  match aget i (impls st), aget i (impls st') with
  | Some im, Some im' => impl_same im im'
  | None, None => True
  | _, _ => False
  end -> Casc st st'.
Proof.
  intros [S N0 X0 T O] Hi. constructor; [exact S|exact N0|exact X0|exact T|]. intro j. destruct (N.eq_dec j i) as [->|Hn]; [exact Hi|].
  rewrite (O j Hn). destruct (aget j (impls st)); [apply impl_same_refl|exact I].
Qed.

Lemma disconnect_nodes_ok i ids : forall st, WFc st ->
  exists st', disconnect_nodes i ids st = Ok st' /\ WFc st' /\ Casc st st' /\ FrameI i st st'.
Proof.
  induction ids as [|n ids IH]; intros st Hc; cbn [disconnect_nodes].
  - exists st. split; [reflexivity|]. split; [exact Hc|]. split; [apply Casc_refl|apply FrameI_refl].
  - destruct (rep_disconnect_ok (LNode i n) st Hc) as (st1 & E1 & W1 & C1 & (_ & O1)).
    rewrite E1. cbn [rbind]. destruct (IH st1 W1) as (st2 & E2 & W2 & C2 & F2).
    exists st2. split; [exact E2|]. split; [exact W2|]. split; [eapply Casc_trans; eauto|].
    eapply FrameI_trans; [|exact F2]. constructor; [exact (ca_sigs _ _ C1)|exact (ca_iid _ _ C1)|exact (ca_shared _ _ C1)|exact (ca_tracks _ _ C1)|].
    intros j Hj. apply O1. intros n' X. inversion X. congruence.
Qed.

Lemma nodes_reps_cons x l : nodes_reps (x :: l) = sb_reps (n_sb x) ++ nodes_reps l.
Proof. reflexivity. Qed.

Lemma delete_sbs_ok l : forall D ex st,
  regs (dem_of (nodes_reps l) ++ D) st -> watch_ok_ex (flat_map r_watch (nodes_reps l) ++ ex) st ->
  exists st', delete_sbs l st = Ok st' /\ regs D st' /\ watch_ok_ex ex st' /\
              same_heavy st st' /\ tlive_same st st'.
Proof.
  induction l as [|x l IH]; intros D ex st HR HW; cbn [delete_sbs].
  - exists st. split; [reflexivity|]. split; [exact HR|]. split; [exact HW|].
    split; [apply same_heavy_refl|apply tlive_same_refl].
  - rewrite nodes_reps_cons in HR, HW. rewrite dem_of_app, <- app_assoc in HR.
    rewrite flat_map_app, <- app_assoc in HW. unfold sb_delete.
    rewrite sb_reps_dem in HR. unfold sb_reps in HW. destruct (sb_rep (n_sb x)) as [r|].
    + cbn [optl flat_map app] in HW, HR. rewrite app_nil_r in HW.
      destruct (rep_delete_ok r _ _ st HR HW) as (st1 & E1 & R1 & W1 & H1 & T1).
      rewrite E1. cbn [rbind]. destruct (IH D ex st1 R1 W1) as (st2 & E2 & R2 & W2 & H2 & T2).
      exists st2. split; [exact E2|]. split; [exact R2|]. split; [exact W2|].
      split; [eapply same_heavy_trans; eauto|eapply tlive_same_trans; eauto].
    + cbn [optl flat_map app rbind] in *. apply IH; assumption.
Qed.

Lemma in_flat_map_watch w r l : In r l -> In w (r_watch r) -> In w (flat_map r_watch l).
Proof. intros H1 H2. apply in_flat_map. exists r. auto. Qed.

(* empty the node list of impl i and delete all its slot bases *)
Lemma clear_nodes_ok i im im' st :
  WFc st -> aget i (impls st) = Some im -> i_nodes im' = [] ->
  exists st', delete_sbs (i_nodes im) (set_impl i im' st) = Ok st' /\ WFc st' /\
     same_heavy (set_impl i im' st) st' /\ tlive_same st st'.
Proof.
  intros [Hs Hr Hg Hw] Hi Hn'. set (st1 := set_impl i im' st).
  assert (E1 : i_nodes im = [] ++ i_nodes im ++ []) by (rewrite app_nil_r; reflexivity).
  assert (E2 : i_nodes im' = [] ++ [] ++ []) by (rewrite Hn'; reflexivity).
  destruct (set_impl_nodes_reps st i im im' _ _ _ _ Hi E1 E2) as (L & R & Ea & Ea'). fold st1 in Ea'.
  cbn [nodes_reps flat_map app] in Ea'.
  assert (Hs1 : WFstruct st1).
  { eapply (WFstruct_set_impl st i im im' [] (i_nodes im) [] []); eauto.
    - rewrite Hn'. constructor.
    - constructor.
    - apply reps_upd_nil. }
  assert (Hr1 : regs (dem_of (nodes_reps (i_nodes im)) ++ dem_of (all_reps st1)) st1).
  { rewrite Ea'. apply regs_mid_out. rewrite <- Ea. eapply regs_tracks_eq; [|exact Hr]. reflexivity. }
  assert (Hw1 : watch_ok_ex (flat_map r_watch (nodes_reps (i_nodes im)) ++ []) st1).
  { intros w j m Hp. destruct (Hw w j m Hp) as [[]|(sb & r & G1 & G2 & G3)].
    destruct (N.eqb_spec j i) as [->|Hne].
    - left. rewrite app_nil_r. rewrite get_sb_node, Hi in G1.
      destruct (find_node m (i_nodes im)) as [nd|] eqn:Hf; [|discriminate]. cbn [option_map] in G1. inversion G1; subst sb.
      eapply in_flat_map_watch; [|exact G3]. apply in_nodes_reps. exists nd. split; [|exact G2].
      apply (find_node_in _ _ _ Hf).
    - right. exists sb, r. split; [|auto]. unfold st1. rewrite get_sb_set_impl_node.
      destruct (N.eqb_spec j i); [contradiction|exact G1]. }
  destruct (delete_sbs_ok (i_nodes im) _ [] st1 Hr1 Hw1) as (st' & E' & R' & W' & H' & T').
  exists st'. split; [exact E'|]. split; [|split; [exact H'|]].
  - eapply WFc_build; eauto. apply sig_ok_set_impl. exact Hg.
  - eapply tlive_same_trans; [apply tlive_tracks_eq|exact T']. reflexivity.
Qed.

Lemma all_reps_del_impl st i im : aget i (impls st) = Some im -> i_nodes im = [] ->
  all_reps (with_impls (adel i (impls st)) st) = all_reps st.
Proof.
  intros Hi Hn. unfold all_reps, var_reps, node_reps. cbn [slots impls with_impls].
  destruct (node_reps_present _ _ _ Hi) as (A & B & H1 & _ & H3). rewrite H1, H3, Hn. reflexivity.
Qed.

Lemma Casc_impl_some st st' i im : Casc st st' -> aget i (impls st) = Some im ->
  exists im', aget i (impls st') = Some im' /\ impl_same im im'.
Proof.
  intros C Hi. pose proof (ca_impls _ _ C i) as X. rewrite Hi in X.
  destruct (aget i (impls st')) as [im'|]; [eauto|contradiction].
Qed.

Lemma destroy_impl_ok i im st : WFc st -> aget i (impls st) = Some im ->
  (forall g go, live_sig g st = Some go -> g_impl go <> Some i) ->
  exists st', destroy_impl i st = Ok st' /\ WFc st' /\ FrameI i st st' /\ aget i (impls st') = None.
Proof.
  intros Hc Hi Hnosig. unfold destroy_impl, upd_impl. rewrite Hi. cbn [rbind].
  set (im1 := with_exec (i_exec im + 1) (with_dying true im)). set (st1 := set_impl i im1 st).
  assert (Hi1 : aget i (impls st1) = Some im1) by (unfold st1; rewrite aget_set_impl, N.eqb_refl; reflexivity).
  rewrite Hi1.
  assert (Hc1 : WFc st1) by (eapply WFc_set_impl_flags; eauto).
  destruct (disconnect_nodes_ok i (map n_id (i_nodes im1)) st1 Hc1) as (st2 & E2 & W2 & C2 & F2).
  rewrite E2. cbn [rbind].
  destruct (Casc_impl_some _ _ _ _ C2 Hi1) as (im2 & Hi2 & _). rewrite Hi2.
  destruct (clear_nodes_ok i im2 (with_nodes [] im2) st2 W2 Hi2 eq_refl) as (st4 & E4 & W4 & H4 & T4).
  rewrite E4. cbn [rbind]. eexists. split; [reflexivity|].
  assert (Hi4 : aget i (impls st4) = Some (with_nodes [] im2)).
  { destruct H4 as [sh_slots0 sh_sigs0 sh_impls0 sh_rid0 sh_nid0 sh_iid0 sh_ph0 sh_shared0]. rewrite sh_impls0, aget_set_impl, N.eqb_refl. reflexivity. }
  assert (Hsig4 : sigs st4 = sigs st).
  { destruct H4 as [sh_slots0 sh_sigs0 sh_impls0 sh_rid0 sh_nid0 sh_iid0 sh_ph0 sh_shared0]. rewrite sh_sigs0. cbn [sigs set_impl with_impls]. rewrite (fi_sigs _ _ _ F2). reflexivity. }
  split; [|split].
  - destruct W4 as [Hs Hr Hg Hw]. constructor.
    + eapply WFstruct_del_impl; eauto.
    + rewrite (all_reps_del_impl _ _ _ Hi4 eq_refl). eapply regs_tracks_eq; [|exact Hr]. reflexivity.
    + destruct Hg as [G1 G2]. split; [exact G1|]. intros g go j Hl Hj. cbn [impls with_impls].
      assert (Hne : j <> i).
      { intro X. subst j. apply (Hnosig g go); [|exact Hj]. unfold live_sig in *. rewrite <- Hsig4. exact Hl. }
      rewrite aget_adel_other by exact Hne. eapply G2; eauto.
    + intros w j m Hp. destruct (Hw w j m Hp) as [[]|(sb & r & A1 & A2 & A3)]. right.
      exists sb, r. split; [|auto]. rewrite get_sb_node in *. cbn [impls with_impls].
      destruct (N.eq_dec j i) as [->|Hne].
      * rewrite Hi4 in A1. cbn [i_nodes with_nodes find_node option_map] in A1. discriminate.
      * rewrite aget_adel_other by exact Hne. exact A1.
  - constructor.
    + cbn [sigs with_impls]. exact Hsig4.
    + cbn [next_iid with_impls]. destruct H4 as [sh_slots0 sh_sigs0 sh_impls0 sh_rid0 sh_nid0 sh_iid0 sh_ph0 sh_shared0]. rewrite sh_iid0. cbn [next_iid set_impl with_impls]. exact (fi_iid _ _ _ F2).
    + cbn [shared with_impls]. rewrite (sh_shared _ _ H4). cbn [shared set_impl with_impls]. exact (fi_shared _ _ _ F2).
    + eapply tlive_same_trans; [apply (fi_tracks _ _ _ (FrameI_set_impl i im1 st))|].
      eapply tlive_same_trans; [exact (fi_tracks _ _ _ F2)|]. exact T4.
    + intros j Hj. cbn [impls with_impls]. rewrite aget_adel_other by exact Hj.
      destruct H4 as [sh_slots0 sh_sigs0 sh_impls0 sh_rid0 sh_nid0 sh_iid0 sh_ph0 sh_shared0]. rewrite sh_impls0, aget_set_impl. destruct (N.eqb_spec j i); [contradiction|].
      rewrite (fi_others _ _ _ F2 j Hj). unfold st1. rewrite aget_set_impl.
      destruct (N.eqb_spec j i); [contradiction|reflexivity].
  - cbn [impls with_impls]. apply aget_adel_same. exact (ws_keys_impls _ (wc_struct _ W4)).
Qed.

Lemma refcount_zero i st : refcount i st = 0 ->
  (forall g go, live_sig g st = Some go -> g_impl go <> Some i) /\
  (forall im, aget i (impls st) = Some im -> i_holders im = 0).
Proof.
  unfold refcount, count_if. intro H. split.
  - intros g go Hl Hg.
    set (p := fun x : N * option sigobj => let '(_, o) := x in
                match o with
                | Some g0 => match g_impl g0 with Some j => N.eqb i j | None => false end
                | None => false
                end) in *.
    assert (Hin : In (g, Some go) (filter p (sigs st))).
    { apply filter_In. split.
      - unfold live_sig in Hl. destruct (aget g (sigs st)) as [[x|]|] eqn:E; try discriminate.
        inversion Hl; subst x. apply aget_in. exact E.
      - cbn [p]. rewrite Hg. apply N.eqb_refl. }
    destruct (filter p (sigs st)); [destruct Hin|]. cbn [length] in H. lia.
  - intros im Hi. rewrite Hi in H. lia.
Qed.

Lemma release_check_ok i st : WFc st ->
  exists st', release_check i st = Ok st' /\ WFc st' /\ FrameI i st st' /\
     (st' = st \/ (aget i (impls st') = None /\ refcount i st = 0)).
Proof.
  intro Hc. unfold release_check. destruct (aget i (impls st)) as [im|] eqn:Hi.
  2:{ exists st. split; [reflexivity|]. split; [exact Hc|]. split; [apply FrameI_refl|left; reflexivity]. }
  destruct (N.eqb_spec (refcount i st) 0) as [Hz|Hnz]; cbn [andb].
  2:{ exists st. split; [reflexivity|]. split; [exact Hc|]. split; [apply FrameI_refl|left; reflexivity]. }
  destruct (i_dying im); cbn [negb].
  { exists st. split; [reflexivity|]. split; [exact Hc|]. split; [apply FrameI_refl|left; reflexivity]. }
  destruct (destroy_impl_ok i im st Hc Hi (proj1 (refcount_zero i st Hz))) as (st' & E & W & F & N0).
  exists st'. split; [exact E|]. split; [exact W|]. split; [exact F|]. right. auto.
Qed.

(* ------------------------------------------------------------------ *)
(* sweep                                                                *)

Lemma in_ids_find n l : In n (ids l) -> find_node n l <> None.
Proof. intros H E. apply find_node_none_iff in E. contradiction. Qed.

Lemma get_sb_node_some_in i n st im : aget i (impls st) = Some im ->
  get_sb (LNode i n) st <> None -> In n (ids (i_nodes im)).
Proof.
  intros Hi H. rewrite get_sb_node, Hi in H. destruct (find_node n (i_nodes im)) eqn:E; [|exfalso; apply H; reflexivity].
  apply find_node_some_iff. eauto.
Qed.

Lemma sweep_step_ok i n st im : WFc st -> aget i (impls st) = Some im -> 0 < i_exec im ->
  get_sb (LNode i n) st <> None ->
  exists st0 st1 im1, rep_disconnect (LNode i n) st = Ok st0 /\ erase_node i n st0 = Ok st1 /\
    WFc st1 /\ FrameI i st st1 /\ aget i (impls st1) = Some im1 /\
    i_exec im1 = i_exec im /\ i_holders im1 = i_holders im /\ i_dying im1 = i_dying im /\
    (phc (ids (i_nodes im1)) <= phc (ids (i_nodes im)))%nat /\
    get_sb (LNode i n) st1 = None /\
    (forall m, m <> n -> get_sb (LNode i m) st1 = get_sb (LNode i m) st).
Proof.
  intros Hc Hi Hex Hn.
  destruct (rep_disconnect_ok (LNode i n) st Hc) as (st0 & E0 & W0 & C0 & (O0 & I0)).
  destruct (Casc_impl_some _ _ _ _ C0 Hi) as (im0 & Hi0 & (S1 & S2 & S3 & S4 & S5 & S6)).
  destruct (S4 Hex) as (pre & post & Eids).
  assert (Hin0 : In n (ids (i_nodes im0))).
  { rewrite Eids. apply in_or_app. right. apply in_or_app. left. eapply get_sb_node_some_in; eauto. }
  destruct (find_node n (i_nodes im0)) as [nd|] eqn:Hf; [|exfalso; exact (in_ids_find _ _ Hin0 Hf)].
  destruct (erase_node_ok i n st0 im0 nd W0 Hi0 Hf) as (st1 & E1 & W1 & H1 & T1).
  exists st0, st1, (with_nodes (del_node n (i_nodes im0)) im0).
  split; [exact E0|]. split; [exact E1|]. split; [exact W1|].
  assert (Himpls : impls st1 = impls (set_impl i (with_nodes (del_node n (i_nodes im0)) im0) st0)) by (destruct H1; assumption).
  split; [|split; [|split; [|split; [|split; [|split; [|split]]]]]].
  - constructor.
    + destruct H1 as [sh_slots0 sh_sigs0 sh_impls0 sh_rid0 sh_nid0 sh_iid0 sh_ph0 sh_shared0]. rewrite sh_sigs0. cbn [sigs set_impl with_impls]. exact (ca_sigs _ _ C0).
    + destruct H1 as [sh_slots0 sh_sigs0 sh_impls0 sh_rid0 sh_nid0 sh_iid0 sh_ph0 sh_shared0]. rewrite sh_iid0. cbn [next_iid set_impl with_impls]. exact (ca_iid _ _ C0).
    + rewrite (sh_shared _ _ H1). cbn [shared set_impl with_impls]. exact (ca_shared _ _ C0).
    + eapply tlive_same_trans; [exact (ca_tracks _ _ C0)|exact T1].
    + intros j Hj. rewrite Himpls, aget_set_impl. destruct (N.eqb_spec j i); [contradiction|].
      apply I0. intros n' X. inversion X. congruence.
  - rewrite Himpls, aget_set_impl, N.eqb_refl. reflexivity.
  - exact S1.
  - exact S2.
  - exact S3.
  - cbn [i_nodes with_nodes]. pose proof (phc_del_node n (i_nodes im0)). lia.
  - rewrite (get_sb_node_impls _ _ _ _ Himpls), get_sb_set_impl_node, N.eqb_refl. cbn [i_nodes with_nodes].
    rewrite find_node_del_same; [reflexivity|]. exact (proj1 (ws_nodes _ (wc_struct _ W0) i im0 Hi0)).
  - intros m Hm. rewrite (get_sb_node_impls _ _ _ _ Himpls), get_sb_set_impl_node, N.eqb_refl. cbn [i_nodes with_nodes].
    rewrite find_node_del_other by exact Hm. rewrite <- (O0 (LNode i m)) by congruence.
    rewrite get_sb_node, Hi0. reflexivity.
Qed.

Lemma sweep_nodes_ok i ns : forall st im, WFc st -> aget i (impls st) = Some im -> 0 < i_exec im ->
  NoDup ns -> (forall n, In n ns -> get_sb (LNode i n) st <> None) ->
  exists st' im', sweep_nodes i ns st = Ok st' /\ WFc st' /\ FrameI i st st' /\
     aget i (impls st') = Some im' /\ i_exec im' = i_exec im /\ i_holders im' = i_holders im /\
     i_dying im' = i_dying im /\ (phc (ids (i_nodes im')) <= phc (ids (i_nodes im)))%nat /\
     (forall n sb, get_sb (LNode i n) st' = Some sb ->
        (In n ns /\ sb_empty sb = false) \/ (~ In n ns /\ get_sb (LNode i n) st = Some sb)).
Proof.
  induction ns as [|n ns IH]; intros st im Hc Hi Hex Hnd Hall; cbn [sweep_nodes].
  - exists st, im. split; [reflexivity|]. split; [exact Hc|]. split; [apply FrameI_refl|]. split; [exact Hi|].
    split; [reflexivity|]. split; [reflexivity|]. split; [reflexivity|]. split; [lia|].
    intros n sb H. right. split; [intros []|exact H].
  - inversion Hnd as [|? ? Hnin Hnd']; subst.
    destruct (get_sb (LNode i n) st) as [sb|] eqn:Hg; [|exfalso; apply (Hall n); [left; reflexivity|exact Hg]].
    destruct (sb_empty sb) eqn:Hemp.
    + destruct (sweep_step_ok i n st im Hc Hi Hex) as (st0 & st1 & im1 & E0 & E1 & W1 & F1 & Hi1 & X1 & X2 & X3 & X4 & X5 & X6).
      { rewrite Hg. discriminate. }
      rewrite E0. cbn [rbind]. rewrite E1. cbn [rbind].
      destruct (IH st1 im1 W1 Hi1) as (st' & im' & E' & W' & F' & Hi' & Y1 & Y2 & Y3 & Y4 & Y5); [lia|exact Hnd'| |].
      { intros m Hm. rewrite X6; [apply Hall; right; exact Hm|]. intro X. subst m. contradiction. }
      exists st', im'. split; [exact E'|]. split; [exact W'|]. split; [eapply FrameI_trans; eauto|].
      split; [exact Hi'|]. split; [congruence|]. split; [congruence|]. split; [congruence|]. split; [lia|].
      intros m sbm Hm. destruct (Y5 m sbm Hm) as [(A & B)|(A & B)].
      * left. split; [right; exact A|exact B].
      * right. destruct (nid_eq_dec m n) as [->|Hne]; [rewrite X5 in B; discriminate|].
        split; [intros [X|X]; [congruence|contradiction]|]. rewrite <- X6 by exact Hne. exact B.
    + destruct (IH st im Hc Hi Hex Hnd') as (st' & im' & E' & W' & F' & Hi' & Y1 & Y2 & Y3 & Y4 & Y5).
      { intros m Hm. apply Hall. right; exact Hm. }
      exists st', im'. split; [exact E'|]. split; [exact W'|]. split; [exact F'|].
      split; [exact Hi'|]. split; [exact Y1|]. split; [exact Y2|]. split; [exact Y3|]. split; [exact Y4|].
      intros m sbm Hm. destruct (Y5 m sbm Hm) as [(A & B)|(A & B)].
      * left. split; [right; exact A|exact B].
      * destruct (nid_eq_dec m n) as [->|Hne].
        -- left. split; [left; reflexivity|]. rewrite Hg in B. inversion B; subst sbm. exact Hemp.
        -- right. split; [intros [X|X]; [congruence|contradiction]|exact B].
Qed.

Lemma sweep_nodes_noop i ns : forall st,
  (forall n, In n ns -> exists sb, get_sb (LNode i n) st = Some sb /\ sb_empty sb = false) ->
  sweep_nodes i ns st = Ok st.
Proof.
  induction ns as [|n ns IH]; intros st H; cbn [sweep_nodes]; [reflexivity|].
  destruct (H n (or_introl eq_refl)) as (sb & G & E). rewrite G, E. apply IH.
  intros m Hm. apply H. right; exact Hm.
Qed.

Lemma sweep_pass_ok i im st : WFc st -> aget i (impls st) = Some im ->
  exists st' im', sweep_pass i st = Ok st' /\ WFc st' /\ FrameI i st st' /\ aget i (impls st') = Some im' /\
    i_exec im' = i_exec im /\ i_holders im' = i_holders im + 1 /\ i_dying im' = i_dying im /\
    (phc (ids (i_nodes im')) <= phc (ids (i_nodes im)))%nat /\
    (forall n sb, get_sb (LNode i n) st' = Some sb -> sb_empty sb = false) /\
    ((forall n sb, get_sb (LNode i n) st = Some sb -> sb_empty sb = false) -> i_deferred im' = false).
Proof.
  intros Hc Hi. unfold sweep_pass, upd_impl. rewrite Hi. cbn [rbind].
  set (im1 := with_deferred false (with_exec (i_exec im + 1) (with_holders (i_holders im + 1) im))).
  set (st1 := set_impl i im1 st).
  assert (Hi1 : aget i (impls st1) = Some im1) by (unfold st1; rewrite aget_set_impl, N.eqb_refl; reflexivity).
  rewrite Hi1.
  assert (Hc1 : WFc st1) by (eapply WFc_set_impl_flags; eauto).
  assert (Hsame1 : forall n, get_sb (LNode i n) st1 = get_sb (LNode i n) st).
  { intro n. unfold st1. rewrite get_sb_set_impl_node, N.eqb_refl, get_sb_node, Hi. reflexivity. }
  destruct (sweep_nodes_ok i (map n_id (i_nodes im1)) st1 im1 Hc1 Hi1) as (st2 & im2 & E2 & W2 & F2 & Hi2 & Y1 & Y2 & Y3 & Y4 & Y5).
  { cbn [im1 i_exec with_deferred with_exec]. lia. }
  { exact (proj1 (ws_nodes _ (wc_struct _ Hc1) i im1 Hi1)). }
  { intros n Hn. rewrite get_sb_node, Hi1. pose proof (in_ids_find _ _ Hn) as X.
    destruct (find_node n (i_nodes im1)); [discriminate|contradiction]. }
  rewrite E2. cbn [rbind]. rewrite Hi2.
  eexists _, _. split; [reflexivity|]. split; [eapply WFc_set_impl_flags; eauto|].
  split; [|split; [rewrite aget_set_impl, N.eqb_refl; reflexivity|]].
  { eapply FrameI_trans; [apply FrameI_set_impl|]. eapply FrameI_trans; [exact F2|apply FrameI_set_impl]. }
  cbn [i_exec i_holders i_dying i_deferred i_nodes with_exec]. rewrite Y1, Y2, Y3.
  cbn [im1 i_exec i_holders i_dying with_deferred with_exec with_holders].
  split; [lia|]. split; [reflexivity|]. split; [reflexivity|]. split; [exact Y4|]. split.
  - intros n sb G. rewrite get_sb_set_impl_node, N.eqb_refl in G. cbn [i_nodes with_exec] in G.
    assert (G2 : get_sb (LNode i n) st2 = Some sb) by (rewrite get_sb_node, Hi2; exact G).
    destruct (Y5 n sb G2) as [(_ & B)|(A & B)]; [exact B|]. exfalso. apply A.
    eapply get_sb_node_some_in; [exact Hi1|]. rewrite B. discriminate.
  - intro Hne. assert (X : sweep_nodes i (map n_id (i_nodes im1)) st1 = Ok st1).
    { apply sweep_nodes_noop. intros n Hn. pose proof (in_ids_find _ _ Hn) as X.
      destruct (find_node n (i_nodes im1)) as [nd|] eqn:Hf; [|contradiction].
      exists (n_sb nd). assert (G : get_sb (LNode i n) st1 = Some (n_sb nd)) by (rewrite get_sb_node, Hi1, Hf; reflexivity).
      split; [exact G|]. apply (Hne n). rewrite <- Hsame1. exact G. }
    rewrite X in E2. inversion E2; subst st2. rewrite Hi1 in Hi2. inversion Hi2; subst im2. reflexivity.
Qed.

Lemma refcount_holders_pos i st im : aget i (impls st) = Some im -> 0 < i_holders im -> refcount i st <> 0.
Proof. intros Hi Hh E. pose proof (proj2 (refcount_zero i st E) im Hi). lia. Qed.

(* the end of sweep: drop the holder's shared_ptr copy, then check the refcount *)
Lemma sweep_tail_ok i im st : WFc st -> aget i (impls st) = Some im ->
  exists st', (st3 <- upd_impl_opt i (fun im => with_holders (i_holders im - 1) im) st ;; release_check i st3) = Ok st' /\
    WFc st' /\ FrameI i st st' /\
    (aget i (impls st') = Some (with_holders (i_holders im - 1) im) \/
     (aget i (impls st') = None /\ i_holders im - 1 = 0)).
Proof.
  intros Hc Hi. unfold upd_impl_opt. rewrite Hi. cbn [rbind].
  set (st3 := set_impl i (with_holders (i_holders im - 1) im) st).
  assert (Hc3 : WFc st3) by (eapply WFc_set_impl_flags; eauto).
  assert (Hi3 : aget i (impls st3) = Some (with_holders (i_holders im - 1) im)) by (unfold st3; rewrite aget_set_impl, N.eqb_refl; reflexivity).
  destruct (release_check_ok i st3 Hc3) as (st' & E & W & F & D).
  exists st'. split; [exact E|]. split; [exact W|]. split; [eapply FrameI_trans; [apply FrameI_set_impl|exact F]|].
  destruct D as [->|(A & B)]; [left; exact Hi3|right]. split; [exact A|].
  pose proof (proj2 (refcount_zero i st3 B) _ Hi3) as X. exact X.
Qed.

Lemma sweep_ok i im st : WFc st -> aget i (impls st) = Some im -> i_exec im = 0 ->
  exists st', sweep i st = Ok st' /\ WFc st' /\ FrameI i st st' /\
    ((aget i (impls st') = None /\ i_holders im = 0) \/
     exists im', aget i (impls st') = Some im' /\ i_exec im' = 0 /\ i_holders im' = i_holders im /\
       i_dying im' = i_dying im /\ i_deferred im' = false /\
       (phc (ids (i_nodes im')) <= phc (ids (i_nodes im)))%nat).
Proof.
  intros Hc Hi He. unfold sweep.
  destruct (sweep_pass_ok i im st Hc Hi) as (st1 & im1 & E1 & W1 & F1 & Hi1 & A1 & A2 & A3 & A4 & A5 & _).
  rewrite E1. cbn [rbind]. rewrite Hi1. rewrite A1, He. cbn [N.eqb andb].
  assert (Hmid : exists st2 im2, (if i_deferred im1
                  then st2 <- sweep_pass i st1 ;;
                       st3 <- upd_impl i (fun im => with_holders (i_holders im - 1) im) st2 ;;
                       release_check i st3
                  else Ok st1) = Ok st2 /\ WFc st2 /\ FrameI i st1 st2 /\ aget i (impls st2) = Some im2 /\
                 i_exec im2 = 0 /\ i_holders im2 = i_holders im + 1 /\ i_dying im2 = i_dying im /\
                 i_deferred im2 = false /\ (phc (ids (i_nodes im2)) <= phc (ids (i_nodes im)))%nat).
  { destruct (i_deferred im1) eqn:Hd.
    - destruct (sweep_pass_ok i im1 st1 W1 Hi1) as (st2 & im2 & E2 & W2 & F2 & Hi2 & B1 & B2 & B3 & B4 & B5 & B6).
      rewrite E2. cbn [rbind]. unfold upd_impl. rewrite Hi2. cbn [rbind].
      set (st3 := set_impl i (with_holders (i_holders im2 - 1) im2) st2).
      assert (Hc3 : WFc st3) by (eapply WFc_set_impl_flags; eauto).
      assert (Hi3 : aget i (impls st3) = Some (with_holders (i_holders im2 - 1) im2)) by (unfold st3; rewrite aget_set_impl, N.eqb_refl; reflexivity).
      destruct (release_check_ok i st3 Hc3) as (st' & E & W & F & D).
      destruct D as [->|(_ & Bad)].
      2:{ exfalso. eapply (refcount_holders_pos i st3); [exact Hi3| |exact Bad]. cbn [i_holders with_holders]. lia. }
      exists st3, (with_holders (i_holders im2 - 1) im2). split; [exact E|]. split; [exact Hc3|].
      split; [eapply FrameI_trans; [exact F2|apply FrameI_set_impl]|]. split; [exact Hi3|].
      cbn [i_exec i_holders i_dying i_deferred i_nodes with_holders].
      split; [congruence|]. split; [lia|]. split; [congruence|]. split; [apply B6; exact A5|lia].
    - exists st1, im1. split; [reflexivity|]. split; [exact W1|]. split; [apply FrameI_refl|]. split; [exact Hi1|].
      split; [congruence|]. split; [exact A2|]. split; [exact A3|]. split; [exact Hd|exact A4]. }
  destruct Hmid as (st2 & im2 & E2 & W2 & F2 & Hi2 & C1 & C2 & C3 & C4 & C5). rewrite E2. cbn [rbind].
  destruct (sweep_tail_ok i im2 st2 W2 Hi2) as (st' & E' & W' & F' & D).
  exists st'. split; [exact E'|]. split; [exact W'|].
  split; [eapply FrameI_trans; [exact F1|]; eapply FrameI_trans; eauto|].
  destruct D as [D|(D1 & D2)].
  - right. eexists. split; [exact D|]. cbn [i_exec i_holders i_dying i_deferred i_nodes with_holders].
    split; [exact C1|]. split; [lia|]. split; [exact C3|]. split; [exact C4|exact C5].
  - left. split; [exact D1|lia].
Qed.

Lemma unreference_exec_ok i im st : WFc st -> aget i (impls st) = Some im ->
  exists st', unreference_exec i st = Ok st' /\ WFc st' /\ FrameI i st st' /\
    ((i_exec im - 1 <> 0 \/ i_deferred im = false) -> st' = set_impl i (with_exec (i_exec im - 1) im) st) /\
    ((aget i (impls st') = None /\ i_holders im = 0) \/
     exists im', aget i (impls st') = Some im' /\ i_exec im' = i_exec im - 1 /\ i_holders im' = i_holders im /\
       i_dying im' = i_dying im /\ (i_exec im - 1 = 0 -> i_deferred im' = false) /\
       (phc (ids (i_nodes im')) <= phc (ids (i_nodes im)))%nat).
Proof.
  intros Hc Hi. unfold unreference_exec, upd_impl. rewrite Hi. cbn [rbind].
  set (im1 := with_exec (i_exec im - 1) im). set (st1 := set_impl i im1 st).
  assert (Hi1 : aget i (impls st1) = Some im1) by (unfold st1; rewrite aget_set_impl, N.eqb_refl; reflexivity).
  rewrite Hi1. assert (Hc1 : WFc st1) by (eapply WFc_set_impl_flags; eauto).
  cbn [im1 i_exec i_deferred with_exec].
  destruct (N.eqb_spec (i_exec im - 1) 0) as [Hz|Hnz]; cbn [andb].
  - destruct (i_deferred im) eqn:Hd.
    + destruct (sweep_ok i im1 st1 Hc1 Hi1 Hz) as (st' & E & W & F & D).
      exists st'. split; [exact E|]. split; [exact W|]. split; [eapply FrameI_trans; [apply FrameI_set_impl|exact F]|].
      split; [intros [X|X]; [contradiction|discriminate]|].
      destruct D as [D|(im' & D1 & D2 & D3 & D4 & D5 & D6)]; [left; exact D|right].
      exists im'. split; [exact D1|]. split; [congruence|]. split; [exact D3|]. split; [exact D4|].
      split; [intros _; exact D5|exact D6].
    + exists st1. split; [reflexivity|]. split; [exact Hc1|]. split; [apply FrameI_set_impl|]. split; [reflexivity|].
      right. exists im1. split; [exact Hi1|]. cbn [im1 i_exec i_holders i_dying i_deferred i_nodes with_exec].
      repeat (split; [reflexivity|]). split; [intros _; exact Hd|lia].
  - exists st1. split; [reflexivity|]. split; [exact Hc1|]. split; [apply FrameI_set_impl|]. split; [reflexivity|].
    right. exists im1. split; [exact Hi1|]. cbn [im1 i_exec i_holders i_dying i_deferred i_nodes with_exec].
    repeat (split; [reflexivity|]). split; [intro X; contradiction|lia].
Qed.

(* ------------------------------------------------------------------ *)
(* impl_clear, block, ensure_impl                                       *)

Lemma impl_clear_ok i im st : WFc st -> aget i (impls st) = Some im ->
  (i_exec im = 0 -> i_deferred im = false) ->
  exists st', impl_clear i st = Ok st' /\ WFc st' /\ Casc st st'.
Proof.
  intros Hc Hi Hdef. unfold impl_clear. rewrite Hi.
  set (im1 := with_exec (i_exec im + 1) im). set (st1 := set_impl i im1 st).
  assert (Hi1 : aget i (impls st1) = Some im1) by (unfold st1; rewrite aget_set_impl, N.eqb_refl; reflexivity).
  assert (Hc1 : WFc st1) by (eapply WFc_set_impl_flags; eauto).
  destruct (disconnect_nodes_ok i (map n_id (i_nodes im)) st1 Hc1) as (st2 & E2 & W2 & C2 & F2).
  rewrite E2. cbn [rbind].
  destruct (Casc_impl_some _ _ _ _ C2 Hi1) as (im2 & Hi2 & (S1 & S2 & S3 & S4 & S5 & S6)).
  cbn [im1 i_exec i_holders i_dying i_nodes with_exec] in S1, S2, S3, S4, S6.
  destruct (N.eqb_spec (i_exec im) 0) as [Hz|Hnz]; cbn [negb].
  - (* not during an emission: the list is cleared *)
    rewrite Hi2.
    set (imc := with_nodes [] (with_deferred (i_deferred im) im2)).
    destruct (clear_nodes_ok i im2 imc st2 W2 Hi2 eq_refl) as (st3 & E3 & W3 & H3 & T3).
    rewrite E3. cbn [rbind].
    assert (Hi3 : aget i (impls st3) = Some imc) by (destruct H3 as [sh_slots0 sh_sigs0 sh_impls0 sh_rid0 sh_nid0 sh_iid0 sh_ph0 sh_shared0]; rewrite sh_impls0, aget_set_impl, N.eqb_refl; reflexivity).
    destruct (unreference_exec_ok i imc st3 W3 Hi3) as (st' & E' & W' & F' & P' & _).
    exists st'. split; [exact E'|]. split; [exact W'|].
    assert (Est' : st' = set_impl i (with_exec (i_exec imc - 1) imc) st3).
    { apply P'. right. cbn [imc i_deferred with_nodes with_deferred]. apply Hdef. exact Hz. }
    eapply (FrameI_Casc i).
    + eapply FrameI_trans; [apply FrameI_set_impl|]. eapply FrameI_trans; [exact F2|].
      eapply FrameI_trans; [|exact F']. eapply FrameI_trans; [apply (FrameI_set_impl i imc st2)|].
      apply FrameI_heavy; [exact H3|]. eapply tlive_same_trans; [|exact T3]. apply tlive_tracks_eq. reflexivity.
    + rewrite Hi, Est', aget_set_impl, N.eqb_refl.
      split; [|split; [|split; [|split; [|split]]]]; cbn [imc i_exec i_holders i_dying i_deferred i_nodes with_exec with_nodes with_deferred].
      * rewrite S1. lia.
      * exact S2.
      * exact S3.
      * intro X. lia.
      * intros _. reflexivity.
      * cbn [ids map phc filter length]. lia.
  - (* during an emission: slots are only disconnected *)
    destruct (unreference_exec_ok i im2 st2 W2 Hi2) as (st' & E' & W' & F' & P' & _).
    exists st'. split; [exact E'|]. split; [exact W'|].
    assert (Est' : st' = set_impl i (with_exec (i_exec im2 - 1) im2) st2).
    { apply P'. left. rewrite S1. lia. }
    eapply (FrameI_Casc i).
    + eapply FrameI_trans; [apply FrameI_set_impl|]. eapply FrameI_trans; [exact F2|exact F'].
    + rewrite Hi, Est', aget_set_impl, N.eqb_refl.
      split; [|split; [|split; [|split; [|split]]]]; cbn [i_exec i_holders i_dying i_deferred i_nodes with_exec].
      * rewrite S1. lia.
      * exact S2.
      * exact S3.
      * intros _. apply S4. lia.
      * intro X. contradiction.
      * exact S6.
Qed.

Lemma nodes_reps_map_blocked b l :
  nodes_reps (map (fun x => mkNode (n_id x) (mkSB (sb_rep (n_sb x)) b)) l) = nodes_reps l.
Proof.
  induction l as [|x l IH]; [reflexivity|]. cbn [map]. rewrite !nodes_reps_cons, IH. reflexivity.
Qed.

Lemma ids_map_blocked b l : ids (map (fun x => mkNode (n_id x) (mkSB (sb_rep (n_sb x)) b)) l) = ids l.
Proof. unfold ids. rewrite map_map. reflexivity. Qed.

Lemma find_node_map_blocked b n l :
  find_node n (map (fun x => mkNode (n_id x) (mkSB (sb_rep (n_sb x)) b)) l) =
  option_map (fun x => mkNode (n_id x) (mkSB (sb_rep (n_sb x)) b)) (find_node n l).
Proof.
  induction l as [|x l IH]; [reflexivity|]. cbn [map find_node n_id].
  destruct (nid_eqb (n_id x) n); [reflexivity|exact IH].
Qed.

Lemma block_all_ok i im b st : WFc st -> aget i (impls st) = Some im ->
  WFc (set_impl i (with_nodes (map (fun x => mkNode (n_id x) (mkSB (sb_rep (n_sb x)) b)) (i_nodes im)) im) st) /\
  Casc st (set_impl i (with_nodes (map (fun x => mkNode (n_id x) (mkSB (sb_rep (n_sb x)) b)) (i_nodes im)) im) st).
Proof.
  intros [Hs Hr Hg Hw] Hi.
  set (f := fun x => mkNode (n_id x) (mkSB (sb_rep (n_sb x)) b)).
  set (im' := with_nodes (map f (i_nodes im)) im).
  assert (E1 : i_nodes im = [] ++ i_nodes im ++ []) by (rewrite app_nil_r; reflexivity).
  assert (E2 : i_nodes im' = [] ++ map f (i_nodes im) ++ []) by (rewrite app_nil_r; reflexivity).
  destruct (set_impl_nodes_reps st i im im' _ _ _ _ Hi E1 E2) as (L & R & Ea & Ea').
  unfold f in Ea'. rewrite nodes_reps_map_blocked in Ea'. fold f in Ea'.
  split.
  - constructor.
    + eapply (WFstruct_set_impl st i im im' [] (i_nodes im) (map f (i_nodes im)) []); eauto.
      * cbn [im' i_nodes with_nodes]. unfold f. rewrite ids_map_blocked. exact (proj1 (ws_nodes _ Hs i im Hi)).
      * unfold f. rewrite ids_map_blocked. exact (proj2 (ws_nodes _ Hs i im Hi)).
      * unfold f. rewrite nodes_reps_map_blocked. eapply reps_upd_refl; eauto using ws_rids, ws_good.
    + rewrite Ea', <- Ea. eapply regs_tracks_eq; [|exact Hr]. reflexivity.
    + apply sig_ok_set_impl. exact Hg.
    + intros w j m Hp. destruct (Hw w j m Hp) as [[]|(sb & r & G1 & G2 & G3)]. right. unfold target_ok.
      rewrite get_sb_set_impl_node. destruct (N.eqb_spec j i) as [->|Hne]; [|exists sb, r; auto].
      rewrite get_sb_node, Hi in G1. cbn [im' i_nodes with_nodes]. unfold f. rewrite find_node_map_blocked.
      destruct (find_node m (i_nodes im)) as [nd|]; [|discriminate]. cbn [option_map] in *. inversion G1; subst sb.
      eexists _, r. split; [reflexivity|]. split; [exact G2|exact G3].
  - eapply (FrameI_Casc i); [apply FrameI_set_impl|]. rewrite Hi, aget_set_impl, N.eqb_refl.
    apply impl_same_ids; cbn [im' i_exec i_holders i_dying i_deferred i_nodes with_nodes]; auto.
    unfold f. apply ids_map_blocked.
Qed.

Lemma live_sig_aset g g' o st :
  live_sig g' (with_sigs (aset g o (sigs st)) st) = if N.eqb g' g then o else live_sig g' st.
Proof.
  unfold live_sig. cbn [sigs with_sigs]. rewrite aget_aset. destruct (N.eqb g' g); [destruct o|]; reflexivity.
Qed.

Lemma ensure_impl_ok g go st : WFc st -> live_sig g st = Some go ->
  exists i st', ensure_impl g go st = (i, st') /\ WFc st' /\ aget i (impls st') <> None /\
    live_sig g st' = Some (mkSig (g_kind go) (Some i)) /\
    ((g_impl go = Some i /\ st' = st) \/
     (g_impl go = None /\ i = next_iid st /\
      st' = with_sigs (aset g (Some (mkSig (g_kind go) (Some i))) (sigs st))
              (set_impl i (mkImpl [] 0 false 0 false) (with_next_iid (i + 1) st)))).
Proof.
  intros Hc Hl. unfold ensure_impl. destruct (g_impl go) as [i|] eqn:Hgi.
  - exists i, st. split; [reflexivity|]. split; [exact Hc|]. split; [eapply (proj2 (wc_sig _ Hc)); eauto|].
    split; [|left; auto]. rewrite Hl. destruct go; cbn in *. subst. reflexivity.
  - set (i := next_iid st). eexists i, _. split; [reflexivity|].
    set (st1 := set_impl i (mkImpl [] 0 false 0 false) (with_next_iid (i + 1) st)).
    set (st2 := with_sigs (aset g (Some (mkSig (g_kind go) (Some i))) (sigs st1)) st1).
    destruct Hc as [Hs Hr Hg Hw].
    assert (Hn : aget i (impls st) = None).
    { apply aget_none_iff. intro Hin. pose proof (ws_iid _ Hs _ Hin). unfold i in *. lia. }
    assert (Hs1 : WFstruct st1) by (apply WFstruct_new_impl; exact Hs).
    assert (Ea : all_reps st2 = all_reps st).
    { unfold all_reps, var_reps, node_reps, st2, st1, set_impl. cbn [slots impls with_impls with_next_iid with_sigs].
      rewrite (node_reps_absent _ _ _ Hn). cbn [i_nodes nodes_reps flat_map]. rewrite app_nil_r. reflexivity. }
    assert (Hi2 : aget i (impls st2) = Some (mkImpl [] 0 false 0 false)).
    { unfold st2. cbn [impls with_sigs]. unfold st1. rewrite aget_set_impl, N.eqb_refl. reflexivity. }
    split; [|split; [rewrite Hi2; discriminate|split; [|right; auto]]].
    + constructor.
      * eapply WFstruct_mono; [| | | | | |exact Hs1]; try reflexivity; lia.
      * rewrite Ea. eapply regs_tracks_eq; [|exact Hr]. reflexivity.
      * destruct Hg as [G1 G2]. split.
        -- intro g'. destruct (G1 g') as [A B]. unfold st2. rewrite live_sig_aset. split.
           ++ destruct (N.eqb_spec g' g) as [->|Hne]; [|exact A].
              rewrite Hl in A. split.
              ** intro X. destruct (proj1 A X) as (go' & E & K). inversion E; subst go'. eexists. split; [reflexivity|exact K].
              ** intros (go' & E & K). inversion E; subst go'. apply (proj2 A). exists go. auto.
           ++ cbn [sigs with_sigs tracks]. rewrite aget_aset. destruct (N.eqb_spec g' g) as [->|Hne]; [discriminate|exact B].
        -- intros g' go' j Hl' Hj. unfold st2 in Hl'. rewrite live_sig_aset in Hl'.
           unfold st2. cbn [impls with_sigs]. unfold st1. destruct (N.eqb_spec g' g) as [->|Hne].
           ++ inversion Hl'; subst go'. cbn [g_impl] in Hj. inversion Hj; subst j. rewrite aget_set_impl, N.eqb_refl. discriminate.
           ++ apply set_impl_present. eapply G2; eauto.
      * intros w j m Hp. destruct (Hw w j m) as [[]|(sb & r & A1 & A2 & A3)].
        { rewrite <- Hp. destruct w; reflexivity. }
        right. exists sb, r. split; [|auto]. rewrite get_sb_node in *. unfold st2. cbn [impls with_sigs]. unfold st1.
        rewrite aget_set_impl. destruct (N.eqb_spec j i) as [->|Hne]; [rewrite Hn in A1; discriminate|exact A1].
    + unfold st2. rewrite live_sig_aset, N.eqb_refl. reflexivity.
Qed.
