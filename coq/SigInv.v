(* SigInv.v -- the well-formedness invariant of SigCore states and its preservation by the
   primitives that do not run user code. *)
From Coq Require Import List NArith Bool Lia Arith Permutation.
Import ListNotations.
Require Import Util SigCore SigLemmas.
Local Open Scope N_scope.

Definition safe_err (e : error) : Prop :=
  e <> ErrUAF /\ e <> ErrDangling /\ e <> ErrDoubleErase /\ e <> ErrLoop.

Lemma safe_unsupported : safe_err ErrUnsupported.
Proof. repeat split; discriminate. Qed.
Lemma safe_fuel : safe_err ErrFuel.
Proof. repeat split; discriminate. Qed.

(* ------------------------------------------------------------------ *)
(* The invariant                                                        *)

Definition nid_is_ph (n : nid) : bool := match n with Ph _ => true | Real _ => false end.
Definition phc (l : list nid) : nat := length (filter nid_is_ph l).
Definition nid_ok (st : state) (n : nid) : Prop :=
  match n with Real k => k < next_nid st | Ph k => k < next_ph st end.

Definition impl_nodes_ok (st : state) (im : impl) : Prop :=
  NoDup (ids (i_nodes im)) /\ Forall (nid_ok st) (ids (i_nodes im)).

Definition rep_good (st : state) (r : rep) : Prop :=
  r_id r < next_rid st /\ (r_valid r = true -> r_fn r <> None).
Definition rep_detached (r : rep) : Prop := r_attached r = false /\ r_watch r = [].

Record WFstruct (st : state) : Prop := mkWFstruct
  { ws_keys_slots : NoDup (akeys (slots st))
  ; ws_keys_impls : NoDup (akeys (impls st))
  ; ws_iid : forall i, In i (akeys (impls st)) -> i < next_iid st
  ; ws_nodes : forall i im, aget i (impls st) = Some im -> impl_nodes_ok st im
  ; ws_rids : NoDup (map r_id (all_reps st))
  ; ws_good : Forall (rep_good st) (all_reps st)
  ; ws_vars : Forall rep_detached (var_reps st) }.

Definition tl_of (tr : trackable) : list (N * bool) :=
  match t_list tr with Some l => l | None => [] end.

Definition regs (D : demand) (st : state) : Prop :=
  (forall t rid, (0 < dem t rid D)%nat -> live_track t st <> None) /\
  (forall t tr, live_track t st = Some tr -> forall rid, cnt rid (tl_of tr) = dem t rid D).

Definition sig_ok (st : state) : Prop :=
  (forall g, (live_track (trackable_of_sig g) st <> None <->
              exists go, live_sig g st = Some go /\ gk_track (g_kind go) = true) /\
             (aget g (sigs st) = None -> aget (trackable_of_sig g) (tracks st) = None)) /\
  (forall g go i, live_sig g st = Some go -> g_impl go = Some i -> aget i (impls st) <> None).

Definition target_ok (w : wref) (i : N) (n : nid) (st : state) : Prop :=
  exists sb r, get_sb (LNode i n) st = Some sb /\ sb_rep sb = Some r /\ In w (r_watch r).

(* connection pointers are registered at their target, except possibly those in [ex] *)
Definition watch_ok_ex (ex : list wref) (st : state) : Prop :=
  forall w i n, get_connptr w st = Some (Some (i, n)) -> In w ex \/ target_ok w i n st.
Definition watch_ok := watch_ok_ex [].

Record WFc (st : state) : Prop := mkWFc
  { wc_struct : WFstruct st
  ; wc_regs : regs (dem_of (all_reps st)) st
  ; wc_sig : sig_ok st
  ; wc_watch : watch_ok st }.

Definition noclear (st : state) : Prop :=
  forall t tr, live_track t st = Some tr -> t_clearing tr = false.
Definition flags_ok (st : state) : Prop :=
  forall i im, aget i (impls st) = Some im ->
    i_dying im = false /\ (i_exec im = 0 -> i_deferred im = false) /\
    N.of_nat (phc (ids (i_nodes im))) <= i_exec im.

Record WF (st : state) : Prop := mkWF
  { wf_c : WFc st
  ; wf_noclear : noclear st
  ; wf_flags : flags_ok st }.

Definition quiescent (st : state) : Prop :=
  forall i im, aget i (impls st) = Some im ->
    i_exec im = 0 /\ i_deferred im = false /\ i_holders im = 0 /\ i_dying im = false /\
    (forall nd n, In nd (i_nodes im) -> n_id nd <> Ph n).

Definition WF_top (st : state) : Prop := WF st /\ quiescent st.

Lemma WF_st0 : WF st0.
Proof.
  constructor; [constructor|..].
  - constructor; cbn; try constructor; try (intros; contradiction); try discriminate.
  - split; [intros t rid H; cbn in H; lia|]. intros t tr H. discriminate.
  - split; [intro g; split; [split|]|].
    + intro H. exfalso. apply H. reflexivity.
    + intros (go & H & _). discriminate.
    + reflexivity.
    + intros g go i H. discriminate.
  - intros w i n H. destruct w; discriminate.
  - intros t tr H. discriminate.
  - intros i im H. discriminate.
Qed.

Lemma WF_top_st0 : WF_top st0.
Proof. split; [exact WF_st0|]. intros i im H. discriminate. Qed.

(* ------------------------------------------------------------------ *)
(* Frames                                                               *)

(* slots, sigs, impls and the counters are untouched *)
Record same_heavy (st st' : state) : Prop := mkSH
  { sh_slots : slots st' = slots st
  ; sh_sigs : sigs st' = sigs st
  ; sh_impls : impls st' = impls st
  ; sh_rid : next_rid st' = next_rid st
  ; sh_nid : next_nid st' = next_nid st
  ; sh_iid : next_iid st' = next_iid st
  ; sh_ph : next_ph st' = next_ph st }.

Lemma same_heavy_refl st : same_heavy st st.
Proof. constructor; reflexivity. Qed.

Lemma same_heavy_trans a b c : same_heavy a b -> same_heavy b c -> same_heavy a c.
Proof. intros [] []. constructor; congruence. Qed.

Definition tlive_same (st st' : state) : Prop :=
  forall t, (aget t (tracks st') = None <-> aget t (tracks st) = None) /\
            option_map t_clearing (live_track t st') = option_map t_clearing (live_track t st).

Lemma tlive_same_refl st : tlive_same st st.
Proof. intro t. split; reflexivity. Qed.

Lemma tlive_same_trans a b c : tlive_same a b -> tlive_same b c -> tlive_same a c.
Proof.
  intros H1 H2 t. destruct (H1 t) as [A1 B1], (H2 t) as [A2 B2]. split; [tauto|congruence].
Qed.

Lemma tlive_live st st' t : tlive_same st st' -> (live_track t st' <> None <-> live_track t st <> None).
Proof.
  intro H. destruct (H t) as [_ E].
  destruct (live_track t st'), (live_track t st); cbn [option_map] in E; split; intro X; congruence.
Qed.

Lemma tlive_tracks_eq st st' : tracks st' = tracks st -> tlive_same st st'.
Proof. intros E t. unfold live_track. rewrite E. split; reflexivity. Qed.

Lemma all_reps_heavy st st' : same_heavy st st' -> all_reps st' = all_reps st.
Proof. intros []. unfold all_reps, var_reps, node_reps. congruence. Qed.

Lemma var_reps_heavy st st' : same_heavy st st' -> var_reps st' = var_reps st.
Proof. intros []. unfold var_reps. congruence. Qed.

Lemma WFstruct_heavy st st' : same_heavy st st' -> WFstruct st -> WFstruct st'.
Proof.
  intros Hh []. pose proof (all_reps_heavy _ _ Hh) as Ea. pose proof (var_reps_heavy _ _ Hh) as Ev.
  destruct Hh. constructor; rewrite ?Ea, ?Ev; try congruence.
  - rewrite sh_impls0, sh_iid0. assumption.
  - rewrite sh_impls0. intros i im Hi. destruct (ws_nodes0 i im Hi) as (A & B).
    split; [exact A|].
    eapply Forall_impl; [|exact B]. intros [k|k]; unfold nid_ok; congruence.
  - eapply Forall_impl; [|exact ws_good0]. unfold rep_good. intros r. rewrite sh_rid0. tauto.
Qed.

Lemma get_sb_node_impls st st' i n : impls st' = impls st -> get_sb (LNode i n) st' = get_sb (LNode i n) st.
Proof. intro E. rewrite !get_sb_node, E. reflexivity. Qed.

Lemma sig_ok_transfer st st' : sigs st' = sigs st -> tlive_same st st' ->
  (forall i, aget i (impls st) <> None -> aget i (impls st') <> None) ->
  sig_ok st -> sig_ok st'.
Proof.
  intros Es Ht Hi [H1 H2]. split.
  - intro g. destruct (H1 g) as [A B]. unfold live_sig in *. rewrite Es. split.
    + rewrite (tlive_live _ _ _ Ht). exact A.
    + intro X. apply (Ht (trackable_of_sig g)). auto.
  - intros g go i Hl Hg. unfold live_sig in *. rewrite Es in Hl. apply Hi. eapply H2; eauto.
Qed.

Lemma regs_dem_eq D D' st : (forall t rid, dem t rid D = dem t rid D') -> regs D st -> regs D' st.
Proof.
  intros E [H1 H2]. split.
  - intros t rid H. rewrite <- E in H. eauto.
  - intros t tr H rid. rewrite <- E. eauto.
Qed.

Lemma regs_perm D D' st : Permutation D D' -> regs D st -> regs D' st.
Proof. intro P. apply regs_dem_eq. intros. apply dem_perm. exact P. Qed.

Lemma regs_tracks_eq D st st' : tracks st' = tracks st -> regs D st -> regs D st'.
Proof. intros E [H1 H2]. unfold regs, live_track. rewrite E. split; assumption. Qed.

(* ------------------------------------------------------------------ *)
(* trackable callback lists                                             *)

Lemma live_set_track t t' tr st :
  live_track t' (set_track t tr st) = if N.eqb t' t then Some tr else live_track t' st.
Proof.
  unfold live_track, set_track. cbn [tracks with_tracks]. rewrite aget_aset.
  destruct (N.eqb t' t); reflexivity.
Qed.

Lemma set_track_heavy t tr st : same_heavy st (set_track t tr st).
Proof. constructor; reflexivity. Qed.

Lemma set_track_tlive t tr tr0 st : live_track t st = Some tr0 -> t_clearing tr = t_clearing tr0 ->
  tlive_same st (set_track t tr st).
Proof.
  intros Hl Hc t'. split.
  - unfold set_track. cbn [tracks with_tracks]. rewrite aget_aset. destruct (N.eqb_spec t' t) as [->|Hn]; [|reflexivity].
    unfold live_track in Hl. destruct (aget t (tracks st)) as [[x|]|]; try discriminate. split; discriminate.
  - rewrite live_set_track. destruct (N.eqb_spec t' t) as [->|Hn]; [|reflexivity].
    rewrite Hl. cbn [option_map]. congruence.
Qed.

Lemma dem_cons t rid rid' refs D :
  dem t rid ((rid', refs) :: D) = ((if N.eqb rid' rid then count_occ N.eq_dec refs t else O) + dem t rid D)%nat.
Proof. reflexivity. Qed.

Lemma track_add_ok t rid D st tr : live_track t st = Some tr -> t_clearing tr = false -> regs D st ->
  exists st', track_add t rid st = Ok st' /\ regs ((rid, [t]) :: D) st' /\
              same_heavy st st' /\ tlive_same st st' /\ conns st' = conns st /\ sconns st' = sconns st.
Proof.
  intros Hl Hc [R1 R2]. unfold track_add. rewrite Hl, Hc. eexists. split; [reflexivity|].
  split; [|split; [apply set_track_heavy|split; [eapply set_track_tlive; eauto|split; reflexivity]]].
  split.
  - intros t' rid' H. rewrite live_set_track. destruct (N.eqb_spec t' t) as [->|Hn]; [discriminate|].
    rewrite dem_cons in H. cbn [count_occ] in H. destruct (N.eq_dec t t'); [congruence|].
    apply (R1 t' rid'). destruct (N.eqb rid rid'); cbn [Nat.add] in H; exact H.
  - intros t' tr' H rid'. rewrite live_set_track in H. rewrite dem_cons. cbn [count_occ].
    destruct (N.eqb_spec t' t) as [->|Hn].
    + inversion H; subst tr'. unfold tl_of at 1. cbn [t_list]. rewrite cnt_app. fold (tl_of tr).
      rewrite (R2 t tr Hl rid'). rewrite cnt_cons. unfold cnt at 1. cbn [filter length].
      destruct (N.eq_dec t t); [|congruence]. rewrite andb_true_r. destruct (N.eqb rid rid'); lia.
    + destruct (N.eq_dec t t'); [congruence|]. rewrite (R2 t' tr' H rid'). destruct (N.eqb rid rid'); lia.
Qed.

Lemma track_remove_ok t rid refs D st :
  regs ((rid, t :: refs) :: D) st ->
  exists st', track_remove t rid st = Ok st' /\ regs ((rid, refs) :: D) st' /\
              same_heavy st st' /\ tlive_same st st' /\ conns st' = conns st /\ sconns st' = sconns st.
Proof.
  intros [R1 R2].
  assert (Hpos : (0 < dem t rid ((rid, t :: refs) :: D))%nat).
  { rewrite dem_cons, N.eqb_refl. cbn [count_occ]. destruct (N.eq_dec t t); [lia|congruence]. }
  destruct (live_track t st) as [tr|] eqn:Hl; [|exfalso; exact (R1 _ _ Hpos Hl)].
  unfold track_remove. rewrite Hl.
  set (l := match t_list tr with Some l => l | None => [] end).
  assert (Hgen : forall l', (forall rid', cnt rid' l' = if N.eqb rid' rid then pred (cnt rid l) else cnt rid' l) ->
     forall c, c = t_clearing tr ->
     regs ((rid, refs) :: D) (set_track t (mkTr (Some l') c) st) /\
     same_heavy st (set_track t (mkTr (Some l') c) st) /\
     tlive_same st (set_track t (mkTr (Some l') c) st)).
  { intros l' Hl' c Hc. split; [|split; [apply set_track_heavy|eapply set_track_tlive; eauto]].
    split.
    - intros t' rid' H. rewrite live_set_track. destruct (N.eqb_spec t' t) as [->|Hn]; [discriminate|].
      apply (R1 t' rid'). rewrite dem_cons in *. cbn [count_occ]. destruct (N.eq_dec t t'); [congruence|]. exact H.
    - intros t' tr' H rid'. rewrite live_set_track in H. destruct (N.eqb_spec t' t) as [->|Hn].
      + inversion H; subst tr'. unfold tl_of at 1. cbn [t_list]. rewrite Hl'.
        pose proof (R2 t tr Hl rid') as E1. pose proof (R2 t tr Hl rid) as E2. fold l in E1, E2. unfold tl_of in E1, E2. fold l in E1, E2.
        rewrite dem_cons in *. cbn [count_occ] in *. destruct (N.eq_dec t t); [|congruence].
        rewrite N.eqb_refl in E2. destruct (N.eqb_spec rid' rid) as [->|Hn].
        * rewrite N.eqb_refl. rewrite E2. lia.
        * destruct (N.eqb_spec rid rid'); [congruence|]. destruct (N.eqb_spec rid rid'); [congruence|]. exact E1.
      + rewrite (R2 t' tr' H rid'). rewrite !dem_cons. cbn [count_occ]. destruct (N.eq_dec t t'); [congruence|]. reflexivity. }
  destruct (t_clearing tr) eqn:Hc; eexists; (split; [reflexivity|]).
  - destruct (Hgen (cb_null_first rid l) (fun r => cnt_null rid r l) true eq_refl) as (A & B & C).
    split; [exact A|split; [exact B|split; [exact C|split; reflexivity]]].
  - destruct (Hgen (cb_erase_first rid l) (fun r => cnt_erase rid r l) false eq_refl) as (A & B & C).
    split; [exact A|split; [exact B|split; [exact C|split; reflexivity]]].
Qed.

Lemma regs_drop_nil rid D st : regs ((rid, []) :: D) st -> regs D st.
Proof.
  apply regs_dem_eq. intros t r. rewrite dem_cons. cbn [count_occ]. destruct (N.eqb rid r); reflexivity.
Qed.

Lemma unbind_all_ok rid refs : forall D st,
  regs ((rid, refs) :: D) st ->
  exists st', unbind_all rid refs st = Ok st' /\ regs D st' /\
              same_heavy st st' /\ tlive_same st st' /\ conns st' = conns st /\ sconns st' = sconns st.
Proof.
  induction refs as [|t refs IH]; intros D st H; cbn [unbind_all].
  - exists st. split; [reflexivity|]. split; [eapply regs_drop_nil; eauto|].
    split; [apply same_heavy_refl|split; [apply tlive_same_refl|split; reflexivity]].
  - destruct (track_remove_ok _ _ _ _ _ H) as (st1 & E1 & R1 & H1 & T1 & C1 & K1).
    rewrite E1. cbn [rbind]. destruct (IH D st1 R1) as (st2 & E2 & R2 & H2 & T2 & C2 & K2).
    exists st2. split; [exact E2|]. split; [exact R2|].
    split; [eapply same_heavy_trans; eauto|split; [eapply tlive_same_trans; eauto|split; congruence]].
Qed.

Lemma bind_all_ok rid refs : forall D st,
  regs D st -> noclear st -> (forall t, In t refs -> live_track t st <> None) ->
  exists st', bind_all rid refs st = Ok st' /\ regs ((rid, refs) :: D) st' /\
              same_heavy st st' /\ tlive_same st st' /\ conns st' = conns st /\ sconns st' = sconns st.
Proof.
  induction refs as [|t refs IH]; intros D st H Hnc Hlive; cbn [bind_all].
  - exists st. split; [reflexivity|]. split.
    + eapply regs_dem_eq; [|exact H]. intros t r. rewrite dem_cons. cbn [count_occ]. destruct (N.eqb rid r); reflexivity.
    + split; [apply same_heavy_refl|split; [apply tlive_same_refl|split; reflexivity]].
  - destruct (live_track t st) as [tr|] eqn:Hl; [|exfalso; apply (Hlive t); [left; reflexivity|exact Hl]].
    destruct (track_add_ok t rid D st tr Hl (Hnc _ _ Hl) H) as (st1 & E1 & R1 & H1 & T1 & C1 & K1).
    rewrite E1. cbn [rbind].
    assert (Hnc1 : noclear st1).
    { intros t' tr' Hl'. destruct (T1 t') as [_ E]. rewrite Hl' in E. cbn [option_map] in E.
      destruct (live_track t' st) as [tr0|] eqn:Hl0; cbn [option_map] in E; [|discriminate].
      inversion E. rewrite (Hnc _ _ Hl0) in *. assumption. }
    assert (Hlive1 : forall t', In t' refs -> live_track t' st1 <> None).
    { intros t' Hi. apply (tlive_live _ _ _ T1). apply Hlive. right; exact Hi. }
    destruct (IH _ st1 R1 Hnc1 Hlive1) as (st2 & E2 & R2 & H2 & T2 & C2 & K2).
    exists st2. split; [exact E2|]. split.
    + eapply regs_dem_eq; [|exact R2]. intros t' r. rewrite !dem_cons. cbn [count_occ].
      destruct (N.eqb rid r); destruct (N.eq_dec t t'); lia.
    + split; [eapply same_heavy_trans; eauto|split; [eapply tlive_same_trans; eauto|split; congruence]].
Qed.
