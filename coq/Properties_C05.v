(* Properties_C05.v -- type-unsafe connections are rejected at compile time; well-typed ones compile.
   Statements only (proofs in TypeProofs.v). *)
From Coq Require Import List String Bool ZArith.
Import ListNotations.
Require Import GenTypes AdaptorModel TypeModel TypeProofs gen.Tables.
Local Open Scope string_scope.
Local Open Scope list_scope.

(* obligations over the regenerated tables *)
Theorem C05_gen_modes_ok : tmodes_ok gen_hop_modes = true.
Proof. vm_compute. reflexivity. Qed.
Print Assumptions C05_gen_modes_ok.

(* the mem_fun(obj, method) factories hand the method pointer on by implicit conversion only *)
Theorem C05_gen_memfun_pass_ok : memptr_ok gen_memfun_pass = true.
Proof. vm_compute. reflexivity. Qed.
Print Assumptions C05_gen_memfun_pass_ok.

(* bind<I> / hide<I> cut the argument tuple with the arithmetic the model expects: a position outside
   the argument list makes a count negative, which does not compile *)
Theorem C05_gen_slices_ok : slices_ok gen_slices = true.
Proof. vm_compute. reflexivity. Qed.
Print Assumptions C05_gen_slices_ok.

(* every explicit conversion written in the headers is one the model accounts for *)
Theorem C05_gen_conversions_are_the_modelled_ones : casts_ok gen_casts = true.
Proof. vm_compute. reflexivity. Qed.
Print Assumptions C05_gen_conversions_are_the_modelled_ones.

(* the type-erased call: the type through which every call site calls equals the type of the
   function whose address is stored; every function_pointer_cast targets call_type or hook *)
Theorem C05_gen_erased_call_typed :
  gen_callsig_call_type = gen_callsig_call_it /\
  forallb (fun c => String.eqb c "call_type" || String.eqb c "hook") gen_callsig_casts = true /\
  gen_callsig_cstyle_casts = 0.
Proof. vm_compute. repeat split; reflexivity. Qed.
Print Assumptions C05_gen_erased_call_typed.

(* the library accepts a functor exactly when it is callable with the signature's parameter types as
   the library passes them and its result converts: the hops neither launder a mismatch nor reject a
   legal call -- for every arity, every signature and every functor shape of the universe *)
Theorem C05_accepts_iff_callable :
  forall M P S, tmodes_ok M = true -> memptr_ok P = true -> slices_ok S = true ->
    forall sig r f, lib_accepts M P S sig r f = direct_ok sig r f.
Proof. exact accepts_iff_callable. Qed.
Print Assumptions C05_accepts_iff_callable.

Corollary C05_library_accepts_iff_callable :
  forall sig r f, lib_accepts gen_hop_modes gen_memfun_pass gen_slices sig r f = direct_ok sig r f.
Proof.
  exact (accepts_iff_callable gen_hop_modes gen_memfun_pass gen_slices
           C05_gen_modes_ok C05_gen_memfun_pass_ok C05_gen_slices_ok).
Qed.
Print Assumptions C05_library_accepts_iff_callable.

(* the named rejection classes *)
Theorem C05_arity_mismatch_rejected :
  forall ps rf sig r, List.length ps <> List.length sig -> direct_ok sig r (TFun ps rf) = false.
Proof. exact arity_mismatch_rejected. Qed.

Theorem C05_unconvertible_parameter_rejected :
  forall p a, ref_related (pt_base p) (ae_base a) = false -> converts (ae_base a) (pt_base p) = false -> binds p a = false.
Proof. exact unconvertible_parameter_rejected. Qed.

Theorem C05_nonconst_reference_needs_nonconst_lvalue :
  forall b a, pt_form a <> FLRef -> binds (mkP b FLRef) (take a) = false.
Proof. exact nonconst_reference_needs_nonconst_lvalue. Qed.

Theorem C05_nonconst_method_on_const_object_rejected :
  forall rel ps rf sig r, direct_ok sig r (TMemBound rel true false ps rf) = false.
Proof. exact nonconst_method_on_const_object_rejected. Qed.
Print Assumptions C05_nonconst_method_on_const_object_rejected.

(* a method of a class that is neither the object's class nor one of its bases *)
Theorem C05_method_of_foreign_class_rejected :
  forall rel oc mc ps rf sig r, memptr_doc rel = false -> direct_ok sig r (TMemBound rel oc mc ps rf) = false.
Proof. exact foreign_method_rejected. Qed.

(* hide<i> / bind<i> with a position that names no argument (for bind: beyond one past the last) *)
Theorem C05_hide_position_out_of_range_rejected :
  forall i f sig r, List.length sig <= i -> direct_ok sig r (THideAt i f) = false.
Proof. exact hide_at_out_of_range_rejected. Qed.
Print Assumptions C05_hide_position_out_of_range_rejected.

Theorem C05_bind_position_out_of_range_rejected :
  forall i f v sig r, List.length sig < i -> direct_ok sig r (TBindAt i f v) = false.
Proof. exact bind_at_out_of_range_rejected. Qed.
Print Assumptions C05_bind_position_out_of_range_rejected.

(* at the end of the argument list the positional adaptors are the unpositioned ones *)
Theorem C05_hide_at_last_is_hide :
  forall f args, args <> [] ->
    callable_args (THideAt (List.length args - 1) f) args = callable_args (THideLast f) args.
Proof. exact hide_at_last_is_hide. Qed.
Print Assumptions C05_hide_at_last_is_hide.

Theorem C05_bind_at_end_is_bind :
  forall f v args, callable_args (TBindAt (List.length args) f v) args = callable_args (TBindLast f v) args.
Proof. exact bind_at_end_is_bind. Qed.
Print Assumptions C05_bind_at_end_is_bind.

Theorem C05_incompatible_result_rejected :
  forall ps rf sig r, result_ok rf r = false -> direct_ok sig r (TFun ps rf) = false.
Proof. exact incompatible_result_rejected. Qed.

(* retype() converts explicitly (static_cast): it never removes constness and never converts between
   unrelated types; a non-const reference still needs a non-const lvalue *)
Theorem C05_retype_keeps_constness :
  forall b a, ae_const a = true -> explicit_ok (mkP b FLRef) a = false.
Proof. exact retype_keeps_constness. Qed.
Theorem C05_retype_unrelated_rejected :
  forall p a, ref_related (pt_base p) (ae_base a) = false -> downcast (pt_base p) (ae_base a) = false ->
    explicit_converts (ae_base a) (pt_base p) = false -> explicit_ok p a = false.
Proof. exact retype_unrelated_rejected. Qed.
(* everything that binds implicitly also converts explicitly *)
Theorem C05_retype_accepts_implicit :
  forall p a, binds p a = true -> explicit_ok p a = true.
Proof. exact retype_accepts_implicit. Qed.

Theorem C05_void_and_value_do_not_mix :
  forall b, result_ok None (Some b) = false /\ result_ok (Some b) None = false.
Proof. intro b; split; reflexivity. Qed.

(* ... and standard implicit conversions are accepted *)
Theorem C05_implicit_conversions_accepted :
  forall s d c, converts s d = true ->
    binds (mkP d FVal) (mkAE s c) = true /\ binds (mkP d FCRef) (mkAE s c) = true.
Proof. exact implicit_conversions_accepted. Qed.

Theorem C05_pointwise :
  forall ps rf sig r, direct_ok sig r (TFun ps rf) = true <->
    List.length ps = List.length sig /\ forallb sig_param_ok sig = true /\ result_ok rf r = true /\
    (forall i p a, nth_error ps i = Some p -> nth_error sig i = Some a -> binds p (take a) = true).
Proof. exact direct_ok_pointwise. Qed.
Print Assumptions C05_pointwise.

(* a by-value pack under a deducing adaptor launders constness (the pre-fix code, finding F7):
   signal<void(int,int)>.connect(hide(hide_return(ptr_fun of an int(int&) function))) was accepted *)
Example C05_by_value_hop_refuted :
  let M := ("retype_return_functor<void>", [ByValue]) :: gen_hop_modes in
  let f := THideLast (THideReturn (TFun [mkP TInt FLRef] (Some TInt))) in
  tmodes_ok M = false /\
  lib_accepts M MPImplicit gen_slices [mkP TInt FVal; mkP TInt FVal] None f = true /\
  direct_ok [mkP TInt FVal; mkP TInt FVal] None f = false /\
  (* ... but not when hide_return is outermost (explicit instantiation by call_it) *)
  lib_accepts M MPImplicit gen_slices [mkP TInt FVal] None (THideReturn (TFun [mkP TInt FLRef] (Some TInt))) = false.
Proof. vm_compute. repeat split; reflexivity. Qed.

(* a factory that casts the method pointer would accept a derived-class method on a base object *)
Example C05_explicit_memptr_refuted :
  lib_accepts [] MPExplicit expected_slices [] None (TMemBound RMethInDerived false false [] None) = true /\
  direct_ok [] None (TMemBound RMethInDerived false false [] None) = false.
Proof. exact explicit_memptr_launders. Qed.

(* tail-count arithmetic that clamps at zero instead of going negative would accept hide<2> on a
   two-argument signal: signal<void(int,int)>.connect(hide<2>(ptr_fun of a void(int,int) function)) *)
Example C05_clamped_hide_refuted :
  let S' :=
    [ ("bind_functor", [("tuple_start", ALoc); ("tuple_end", ASub ASize ALoc)])
    ; ("hide_functor", [("tuple_start", AIf (AEq ALoc (ANeg (AConst 1))) (ASub ASize (AConst 1)) ALoc);
                        ("tuple_end", AIf (AEq (ASub ASize ALoc) (AConst 0)) (AConst 0)
                                          (ASub (ASub ASize ALoc) (AConst 1)))]) ] in
  let f := THideAt 2 (TFun [mkP TInt FVal; mkP TInt FVal] None) in
  slices_ok S' = false /\
  lib_accepts [] MPImplicit S' [mkP TInt FVal; mkP TInt FVal] None f = true /\
  direct_ok [mkP TInt FVal; mkP TInt FVal] None f = false /\
  (* in range the clamped arithmetic and the expected one agree *)
  lib_accepts [] MPImplicit S' [mkP TInt FVal; mkP TInt FVal] None (THideAt 1 (TFun [mkP TInt FVal] None)) = true.
Proof. exact clamped_hide_launders. Qed.
Print Assumptions C05_clamped_hide_refuted.

Example C05_example :
  direct_ok [mkP TD FLRef; mkP TInt FVal] (Some TDouble) (TBindLast (TFun [mkP TB FLRef; mkP TLong FCRef; mkP TPB FVal] (Some TInt)) TPD) = true /\
  direct_ok [mkP TD FCRef] None (TFun [mkP TB FLRef] None) = false /\
  (* bind<0>(hide<2>(f), pointer to D): f is called with (the pointer, the first argument) *)
  lib_accepts gen_hop_modes gen_memfun_pass gen_slices [mkP TLong FVal; mkP TU FCRef] None
    (TBindAt 0 (THideAt 2 (TFun [mkP TPB FVal; mkP TDouble FCRef] None)) TPD) = true /\
  direct_ok [mkP TLong FVal; mkP TU FCRef] None (TBindAt 3 (TFun [mkP TLong FVal; mkP TU FCRef; mkP TPB FVal] None) TPD) = false.
Proof. vm_compute. repeat split; reflexivity. Qed.
