(* Extract.v -- extraction of the executable models to OCaml (ExtrOcamlBasic only). *)
Require Import TrackModel SigCore GenTypes AdaptorModel TypeModel NestModel NestSpec gen.Tables.
Require Import ExtrOcamlBasic.
Extraction Language OCaml.
Set Extraction KeepSingleton.
Extraction "../ocaml/extracted/model.ml"
  TrackModel.run TrackModel.obs_lists TrackModel.delivered TrackModel.removed_pending
  SigCore.run_program SigCore.trace
  AdaptorModel.refs AdaptorModel.visited AdaptorModel.call AdaptorModel.call_doc AdaptorModel.wt AdaptorModel.wf_values
  AdaptorModel.table_ok AdaptorModel.slices_ok AdaptorModel.modes_ok AdaptorModel.fields_ok
  TypeModel.binds TypeModel.explicit_ok TypeModel.result_ok TypeModel.converts TypeModel.direct_ok TypeModel.lib_accepts TypeModel.all_ptypes TypeModel.all_argexprs TypeModel.all_bases
  Tables.gen_visit_table Tables.gen_hop_modes Tables.gen_slices Tables.gen_members Tables.gen_memfun_pass Tables.gen_casts TypeModel.casts_ok
  NestModel.nstep NestModel.nrun NestModel.observe NestModel.nst0 NestSpec.user_ok.
