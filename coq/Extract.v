(* Extract.v -- extraction of the executable models to OCaml (ExtrOcamlBasic only). *)
Require Import TrackModel SigCore.
Require Import ExtrOcamlBasic.
Extraction Language OCaml.
Set Extraction KeepSingleton.
Extraction "../ocaml/extracted/model.ml"
  TrackModel.run TrackModel.obs_lists TrackModel.delivered TrackModel.removed_pending
  SigCore.run_program SigCore.trace.
