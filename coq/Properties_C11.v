(* Properties_C11.v -- references stay references and values stay intact along the call path. *)
From Coq Require Import List String ZArith NArith Bool.
Import ListNotations.
Require Import GenTypes AdaptorModel AdaptorProofs gen.Tables.
Local Open Scope string_scope.
Local Open Scope list_scope.

(* obligation over the regenerated parameter-passing modes: no adaptor takes a deduced pack by value *)
Theorem C11_gen_modes_ok : modes_ok gen_hop_modes = true.
Proof. vm_compute. reflexivity. Qed.
Print Assumptions C11_gen_modes_ok.

Theorem C11_gen_slices_ok : slices_ok gen_slices = true.
Proof. vm_compute. reflexivity. Qed.

(* if every hop between the caller and the target passes references through, the target observes
   the caller's very objects (identity and value), bound std::ref / std::cref objects included,
   through any chain and nesting of adaptors, whichever way the outermost one is instantiated *)
Theorem C11_reference_identity :
  forall M S, slices_ok S = true ->
  forall e, all_forwarding M e = true ->
  forall d args, wt e (List.length args) = true -> wf_values e = true ->
    call M S e d args = COk (fst (call_doc e args)) (snd (call_doc e args)).
Proof. exact reference_identity. Qed.
Print Assumptions C11_reference_identity.

Theorem C11_modes_ok_all_forwarding :
  forall M, modes_ok M = true -> forall e, all_forwarding M e = true.
Proof. exact modes_ok_all_forwarding. Qed.

Corollary C11_library_reference_identity :
  forall e d args, wt e (List.length args) = true -> wf_values e = true ->
    call gen_hop_modes gen_slices e d args = COk (fst (call_doc e args)) (snd (call_doc e args)).
Proof.
  intros e d args. apply C11_reference_identity; [exact C11_gen_slices_ok|].
  apply C11_modes_ok_all_forwarding. exact C11_gen_modes_ok.
Qed.
Print Assumptions C11_library_reference_identity.

(* in the documented behaviour an argument reaches a generic target with the identity it had at the
   caller, and a bound reference with the identity of the bound object: never a copy *)
Theorem C11_doc_preserves_identity_leaf :
  forall id th args, fst (call_doc (FLeaf id th) args) = [(id, args)].
Proof. reflexivity. Qed.
Theorem C11_bound_ref_is_the_object :
  forall t, a_id (bound_arg (BRef t)) = IBoundRef t /\ a_id (bound_arg (BCRef t)) = IBoundRef t.
Proof. intro t; split; reflexivity. Qed.

(* a by-value pack under a deducing adaptor does lose the identity: the pre-fix modes are refuted *)
Example C11_by_value_hop_refuted :
  let M := ("retype_return_functor<void>", [ByValue]) :: gen_hop_modes in
  let e := FHide None (FHideReturn (FLeaf 1 false)) in
  let args := [mkArg 5 (IOrig 0); mkArg 6 (IOrig 1)] in
  modes_ok M = false /\
  call M gen_slices e true args = COk [(1%N, [mkArg 5 ICopy])] RVoid /\
  fst (call_doc e args) = [(1%N, [mkArg 5 (IOrig 0)])] /\
  (* ... but not when it is the outermost adaptor of a slot (explicit instantiation) *)
  call M gen_slices (FSlot (FHideReturn (FLeaf 1 false))) true [mkArg 5 (IOrig 0)] = COk [(1%N, [mkArg 5 (IOrig 0)])] RVoid.
Proof. vm_compute. repeat split; reflexivity. Qed.
