(* Properties_C19.v -- object graphs confined to different threads never interfere.
   PARTIAL BY NATURE: proved are (i) the source declares no mutable variable of static storage
   duration (obligation over the table regenerated from the clang AST of the five .cc files and
   the headers they include), (ii) in the model, where every thread's objects live in that thread's
   own state, every schedule gives every thread exactly its solo behaviour, (iii) each thread's solo
   behaviour is memory safe.  The C++ memory model, the allocator and shared_ptr's atomics are not
   modelled; a data race is exhibited only by ThreadSanitizer in the correspondence run. *)
From Coq Require Import List String NArith Bool Arith PeanoNat.
Import ListNotations.
Require Import Util SigCore SigInv SigSafe ThreadModel GenTypes gen.Tables.

(* no hidden shared mutable state: every variable with static storage duration is immutable
   (constexpr / const) or thread_local *)
Theorem C19_gen_no_shared_mutable_state :
  forallb (fun '(_, _, mutable, tls) => negb mutable || tls) gen_globals = true.
Proof. vm_compute. reflexivity. Qed.
Print Assumptions C19_gen_no_shared_mutable_state.

(* for every number of threads, every assignment of programs (object graphs + histories) to them and
   every interleaving: the state of thread i is the one it reaches alone *)
Theorem C19_interleaving_irrelevant :
  forall fuel sched ts i t,
    nth_error ts i = Some t ->
    nth_error (run_sched fuel sched ts) i = Some (th_iter fuel (count_occ Nat.eq_dec sched i) t).
Proof. exact interleaving_irrelevant. Qed.
Print Assumptions C19_interleaving_irrelevant.

Theorem C19_each_thread_observes_solo_behaviour :
  forall fuel (ps : list program) sched i p,
    nth_error ps i = Some p ->
    count_occ Nat.eq_dec sched i = List.length (p_main p) ->
    exists t, nth_error (run_sched fuel sched (map th_init ps)) i = Some t /\ th_state t = run_program fuel p.
Proof. exact each_thread_observes_solo_behaviour. Qed.
Print Assumptions C19_each_thread_observes_solo_behaviour.

(* ... and that solo behaviour never contains a memory error *)
Theorem C19_solo_behaviour_safe :
  forall fuel p, match run_program fuel p with Ok _ => True | Err e => safe_err e end.
Proof. exact ll_safe. Qed.
Print Assumptions C19_solo_behaviour_safe.

(* a static counter would be caught by the obligation *)
Example C19_static_counter_refuted :
  forallb (fun '(_, _, mutable, tls) => negb mutable || tls)
          (("g_live_slots"%string, "sigc++/functors/slot_base.cc:40"%string, true, false) :: gen_globals) = false.
Proof. vm_compute. reflexivity. Qed.

Example C19_example :
  let p1 := mkProg [] [] [] [OGNew 0 (mkGK RI None false); OGQuery 0] in
  let p2 := mkProg [] [] [] [OTNew 0; OTDel 0] in
  forall sched, count_occ Nat.eq_dec sched 0 = 2 ->
    exists t, nth_error (run_sched 3 sched (map th_init [p1; p2])) 0 = Some t /\ th_state t = run_program 3 p1.
Proof. intros p1 p2 sched H. apply (each_thread_observes_solo_behaviour 3 [p1; p2] sched 0 p1); [reflexivity|exact H]. Qed.
