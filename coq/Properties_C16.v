(* Properties_C16.v -- property C16 (trackable notifications fire exactly once; copies do not
   inherit them) stated over TrackModel.  This file contains statements only; each is closed
   by a lemma of TrackProofs.v and followed by Print Assumptions. *)
From Coq Require Import List NArith Bool.
Import ListNotations.
Require Import TrackModel TrackSpec TrackProofs.
Local Open Scope N_scope.

(* No registration is ever delivered twice, over any history. *)
Theorem C16_at_most_once : forall ops, NoDup (delivered (run ops)).
Proof. exact delivered_nodup. Qed.
Print Assumptions C16_at_most_once.

(* A registration selected by a remove before its delivery is never delivered. *)
Theorem C16_removed_first_never_delivered :
  forall ops r, was_removed_first (run ops) r -> ~ was_delivered (run ops) r.
Proof. exact removed_never_delivered. Qed.
Print Assumptions C16_removed_first_never_delivered.

(* Every registration ever made is in exactly one of three states:
   still pending on a live trackable, delivered, or removed before delivery. *)
Theorem C16_trichotomy :
  forall ops r, r < next_rid (run ops) ->
    let w := run ops in
       (pending w r /\ ~ was_delivered w r /\ ~ was_removed_first w r)
    \/ (was_delivered w r /\ ~ pending w r /\ ~ was_removed_first w r)
    \/ (was_removed_first w r /\ ~ pending w r /\ ~ was_delivered w r).
Proof. exact trichotomy. Qed.
Print Assumptions C16_trichotomy.

(* Each of the events named by the statement (destruction, being the target of a copy or move
   assignment, being the source of a move, notify_callbacks()) delivers -- in that very step --
   every registration the trackable holds, except those removed during the round before their
   turn, and leaves the trackable with no registration.  Together with C16_at_most_once this is
   "exactly once, at the first such event". *)
Theorem C16_trigger_delivers_all :
  forall ops o t, triggers o t = true -> effective (run ops) o = true ->
    let w := run ops in let w' := step w o in
    regs_of w' t = [] /\
    forall e, In e (regs_of w t) -> was_delivered w' (rid e) \/ was_removed_first w' (rid e).
Proof. exact trigger_delivers_all. Qed.
Print Assumptions C16_trigger_delivers_all.

(* ... and nothing else is delivered: what a step adds to the delivery trace are registrations
   of trackables for which the step is a trigger. *)
Theorem C16_only_triggers_deliver :
  forall ops o, let w := run ops in let w' := step w o in
    exists new, delivered w' = delivered w ++ new /\
      forall r, In r new -> exists t e, triggers o t = true /\ In e (regs_of w t) /\ rid e = r.
Proof. exact only_triggers_deliver. Qed.
Print Assumptions C16_only_triggers_deliver.

(* Copy construction transfers no registration and notifies nobody. *)
Theorem C16_copy_ctor_transfers_nothing :
  forall w tn to, let w' := step w (TCopyCtor tn to) in
    delivered w' = delivered w /\ removed_pending w' = removed_pending w /\
    (forall t, t <> tn -> regs_of w' t = regs_of w t) /\
    (present tn w = false -> regs_of w' tn = []).
Proof. exact copy_ctor_transfers_nothing. Qed.
Print Assumptions C16_copy_ctor_transfers_nothing.

(* Self-assignment (copy or move) changes nothing at all. *)
Theorem C16_self_assign_silent :
  forall w t, step w (TAssign t t) = w /\ step w (TMoveAssign t t) = w.
Proof. exact self_assign_silent. Qed.
Print Assumptions C16_self_assign_silent.

(* While a round is being delivered, removals null entries and never erase them, and adds are
   ignored: the list keeps its length and its rids, so the walk by position visits every entry. *)
Theorem C16_remove_during_round_safe :
  forall sc l dl rp, map rid (fst (run_script sc l dl rp)) = map rid l.
Proof. exact run_script_keeps_rids. Qed.
Print Assumptions C16_remove_during_round_safe.

(* Within one round, deliveries happen in list order. *)
Theorem C16_round_in_list_order :
  forall l dl rp, let '(_, dl', _) := round (length l) 0 l dl rp in
    exists new, dl' = dl ++ new /\
      exists keep : list bool, length keep = length l /\
        new = map rid (map fst (filter snd (combine l keep))).
Proof. exact round_in_list_order. Qed.
Print Assumptions C16_round_in_list_order.

(* Non-vacuity: a concrete history with duplicates, a removal during the round that hits an
   already delivered duplicate, a copy, a self-assignment and a move. *)
Example C16_example :
  let ops := [TNew 0; TAdd 0 7 [CRemove 7; CRemove 8]; TAdd 0 7 []; TAdd 0 8 []; TAdd 0 9 [CAdd 5];
              TCopyCtor 1 0; TAssign 0 0; TRemove 0 9; TAdd 1 3 []; TMoveCtor 2 1; TDestroy 0] in
  delivered (run ops) = [4; 0; 1] /\ removed_pending (run ops) = [3; 2].
Proof. vm_compute. split; reflexivity. Qed.
