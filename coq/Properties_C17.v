(* Properties_C17.v -- A scoped_connection disconnects its slot exactly when it gives up ownership.
   Statements only: each Prop is defined in SigSpec.v (or spelled out here) and closed by a lemma of
   SigSafe.v, SigConn.v; Print Assumptions follows each. *)
From Coq Require Import List NArith Bool.
Import ListNotations.
Require Import Util SigCore SigLemmas SigInv SigSafe SigSpec SigConn SigQuiesce SigWatch.
Local Open Scope N_scope.

Theorem C17_move_transfers_without_disconnecting : S_scoped_move_no_disconnect.
Proof. exact scoped_move_no_disconnect. Qed.
Print Assumptions C17_move_transfers_without_disconnecting.

Theorem C17_release_transfers_without_disconnecting : S_scoped_release_no_disconnect.
Proof. exact scoped_release_no_disconnect. Qed.
Print Assumptions C17_release_transfers_without_disconnecting.

Theorem C17_swap_exchanges_without_disconnecting : S_scoped_swap_exchanges.
Proof. exact scoped_swap_exchanges. Qed.
Print Assumptions C17_swap_exchanges_without_disconnecting.

Theorem C17_destruction_disconnects : S_scoped_destroy_disconnects.
Proof. exact scoped_destroy_disconnects. Qed.
Print Assumptions C17_destruction_disconnects.

Theorem C17_assignment_disconnects_old : S_scoped_assign_disconnects_old.
Proof. exact scoped_assign_disconnects_old_partial. Qed.
Print Assumptions C17_assignment_disconnects_old.

Theorem C17_plain_connection_stays_valid_handle : S_conn_never_dangles.
Proof. exact conn_never_dangles. Qed.
Print Assumptions C17_plain_connection_stays_valid_handle.

(* on every reachable state the side condition of the previous theorem is automatic: a handle
   registered at an element points at it (watch lists are exact), so assignment from any connection
   that does not itself refer to the held slot disconnects exactly the old slot *)
Theorem C17_assignment_disconnects_old_reachable : S_scoped_assign_disconnects_old_reachable.
Proof. exact scoped_assign_disconnects_old_reachable. Qed.
Print Assumptions C17_assignment_disconnects_old_reachable.
