(* TrackModel.v -- executable model of sigc::trackable and its callback list.
   Mirrors /repo/sigc++/trackable.cc (line numbers of the pinned tree):
     trackable::trackable()                     :25    callback_list_ = nullptr
     trackable(const trackable&)                :29    transfers nothing
     trackable(trackable&& src)                 :37-40 src.notify_callbacks()
     operator=(const trackable&)                :42-49 if (this != &src) notify_callbacks()
     operator=(trackable&&)                     :51-60 notify_callbacks(); src.notify_callbacks()
     ~trackable()                               :62-65 notify_callbacks()
     add_destroy_notify_callback                :67-71 callback_list()->add_callback   (allocates lazily)
     remove_destroy_notify_callback             :73-77 callback_list()->remove_callback (allocates lazily!)
     notify_callbacks                           :79-84 delete callback_list_; callback_list_ = nullptr
     ~trackable_callback_list                   :98-107 clearing_ = true; deliver every entry whose func_ is set
     add_callback                               :109-118 ignored while clearing_
     remove_callback                            :136-154 first entry with data_ == data && func_ != nullptr:
                                                         nulled while clearing_, erased otherwise
   No proofs in this file (the model must still extract and run when a proof breaks). *)
From Coq Require Import List NArith Bool.
Import ListNotations.
Local Open Scope N_scope.

(* What a destroy-notify callback does when it is delivered: a list of actions on the
   trackable that is being notified (property C16: "callbacks that remove arbitrary other
   registrations of the same trackable during delivery"; Add is there to cover the
   documented "silently ignored while clearing" behaviour). *)
Inductive cbact := CRemove (key : N) | CAdd (key : N).

Record reg := mkReg
  { rkey : N              (* the notifiable* data_ ; duplicates are legal *)
  ; rid : N               (* ghost: unique id of this registration (allocation order) *)
  ; rset : bool           (* func_ != nullptr *)
  ; rscript : list cbact  (* what the callback does when delivered *)
  }.

(* callback_list_: None = nullptr *)
Definition cbl := option (list reg).

Record world := mkWorld
  { trs : list (N * cbl)   (* live trackables, by variable index *)
  ; next_rid : N
  ; delivered : list N     (* trace: rids in order of delivery *)
  ; removed_pending : list N  (* ghost: rids selected by a remove before being delivered *)
  }.

Definition w0 : world := mkWorld [] 0 [] [].

Fixpoint lookup {A} (k : N) (l : list (N * A)) : option A :=
  match l with
  | [] => None
  | (k', v) :: r => if N.eqb k k' then Some v else lookup k r
  end.

Fixpoint update {A} (k : N) (v : A) (l : list (N * A)) : list (N * A) :=
  match l with
  | [] => []
  | (k', v') :: r => if N.eqb k k' then (k', v) :: r else (k', v') :: update k v r
  end.

Fixpoint delete {A} (k : N) (l : list (N * A)) : list (N * A) :=
  match l with
  | [] => []
  | (k', v') :: r => if N.eqb k k' then r else (k', v') :: delete k r
  end.

(* remove_callback, clearing_ == false: erase the first entry with that key whose func is set.
   Returns the rid it selected, if any. *)
Fixpoint erase_first (key : N) (l : list reg) : list reg * option N :=
  match l with
  | [] => ([], None)
  | r :: rest =>
      if N.eqb (rkey r) key && rset r then (rest, Some (rid r))
      else let '(rest', o) := erase_first key rest in (r :: rest', o)
  end.

(* remove_callback, clearing_ == true: null the func of the first such entry. *)
Fixpoint null_first (key : N) (l : list reg) : list reg * option N :=
  match l with
  | [] => ([], None)
  | r :: rest =>
      if N.eqb (rkey r) key && rset r
      then (mkReg (rkey r) (rid r) false (rscript r) :: rest, Some (rid r))
      else let '(rest', o) := null_first key rest in (r :: rest', o)
  end.

(* One callback body executed while its list is being cleared.
   dl = rids delivered so far (to decide whether a selected entry was still pending). *)
Fixpoint run_script (sc : list cbact) (l : list reg) (dl rp : list N) : list reg * list N :=
  match sc with
  | [] => (l, rp)
  | CRemove k :: sc' =>
      let '(l', o) := null_first k l in
      let rp' := match o with
                 | Some r => if existsb (N.eqb r) dl then rp else rp ++ [r]
                 | None => rp
                 end in
      run_script sc' l' dl rp'
  | CAdd _ :: sc' => run_script sc' l dl rp      (* add_callback: ignored while clearing_ *)
  end.

(* ~trackable_callback_list: walk the list by position; the list never changes length
   during the round (entries are nulled, never erased; adds are ignored). *)
Fixpoint round (n : nat) (i : nat) (l : list reg) (dl rp : list N) : list reg * list N * list N :=
  match n with
  | O => (l, dl, rp)
  | S n' =>
      match nth_error l i with
      | None => (l, dl, rp)
      | Some r =>
          if rset r
          then let dl' := dl ++ [rid r] in
               let '(l', rp') := run_script (rscript r) l dl' rp in
               round n' (S i) l' dl' rp'
          else round n' (S i) l dl rp
      end
  end.

(* trackable::notify_callbacks on variable t *)
Definition notify (t : N) (w : world) : world :=
  match lookup t (trs w) with
  | Some (Some l) =>
      let '(_, dl, rp) := round (length l) 0 l (delivered w) (removed_pending w) in
      mkWorld (update t None (trs w)) (next_rid w) dl rp
  | _ => w
  end.

Inductive top :=
| TNew (t : N)                        (* default construct *)
| TCopyCtor (tnew told : N)
| TMoveCtor (tnew told : N)
| TAssign (tdst tsrc : N)             (* tdst = tsrc  (tdst = tdst is self assignment) *)
| TMoveAssign (tdst tsrc : N)
| TNotify (t : N)
| TDestroy (t : N)
| TAdd (t : N) (key : N) (sc : list cbact)
| TRemove (t : N) (key : N).

Definition present (t : N) (w : world) : bool :=
  match lookup t (trs w) with Some _ => true | None => false end.

(* Operations whose operand variables do not exist (or whose result variable already exists)
   are no-ops: every op list is a valid program, which keeps shrinking trivial. *)
Definition step (w : world) (o : top) : world :=
  match o with
  | TNew t =>
      if present t w then w
      else mkWorld (trs w ++ [(t, None)]) (next_rid w) (delivered w) (removed_pending w)
  | TCopyCtor tn to =>
      if present tn w || negb (present to w) then w
      else mkWorld (trs w ++ [(tn, None)]) (next_rid w) (delivered w) (removed_pending w)
  | TMoveCtor tn to =>
      if present tn w || negb (present to w) then w
      else let w1 := notify to w in
           mkWorld (trs w1 ++ [(tn, None)]) (next_rid w1) (delivered w1) (removed_pending w1)
  | TAssign td ts =>
      if negb (present td w) || negb (present ts w) then w
      else if N.eqb td ts then w else notify td w
  | TMoveAssign td ts =>
      if negb (present td w) || negb (present ts w) then w
      else if N.eqb td ts then w else notify ts (notify td w)
  | TNotify t => notify t w
  | TDestroy t =>
      if present t w
      then let w1 := notify t w in
           mkWorld (delete t (trs w1)) (next_rid w1) (delivered w1) (removed_pending w1)
      else w
  | TAdd t key sc =>
      match lookup t (trs w) with
      | None => w
      | Some c =>
          let l := match c with Some l => l | None => [] end in
          mkWorld (update t (Some (l ++ [mkReg key (next_rid w) true sc])) (trs w))
                  (N.succ (next_rid w)) (delivered w) (removed_pending w)
      end
  | TRemove t key =>
      match lookup t (trs w) with
      | None => w
      | Some c =>
          let l := match c with Some l => l | None => [] end in   (* callback_list() allocates *)
          let '(l', o) := erase_first key l in
          mkWorld (update t (Some l') (trs w)) (next_rid w) (delivered w)
                  (match o with Some r => removed_pending w ++ [r] | None => removed_pending w end)
      end
  end.

Definition run (ops : list top) : world := fold_left step ops w0.

(* Observations compared with the implementation: the delivery order, and for each live
   trackable whether a callback list is allocated and how many entries it holds. *)
Definition obs_lists (w : world) : list (N * option N) :=
  map (fun '(t, c) => (t, match c with Some l => Some (N.of_nat (length l)) | None => None end)) (trs w).
