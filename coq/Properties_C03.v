(* Properties_C03.v -- Slots may connect, disconnect, destroy or re-emit during an emission, safely.
   Statements only: each Prop is defined in SigSpec.v (or spelled out here) and closed by a lemma of
   SigSafe.v, SigSnapshot.v, SigQuiesce.v; Print Assumptions follows each. *)
From Coq Require Import List NArith Bool.
Import ListNotations.
Require Import Util SigCore SigLemmas SigInv SigSafe SigSpec SigSnapshot SigQuiesce SigFuel.
Local Open Scope N_scope.

(* no dangling iterator, double erase, use after free or runaway loop, whatever the running slots do *)
Theorem C03_memory_safe_for_every_program : forall (fuel : nat) (p : program), match run_program fuel p with Ok _ => True | Err e => safe_err e end.
Proof. exact ll_safe. Qed.
Print Assumptions C03_memory_safe_for_every_program.

(* for any user code respecting the rely/guarantee discipline (all of it does: step_ok): not invoked if gone before its turn, connected-during-emission not invoked now, remaining ones still invoked *)
Theorem C03_reentrant_emission_is_snapshot : S_emit_is_snapshot.
Proof. exact emit_is_snapshot. Qed.
Print Assumptions C03_reentrant_emission_is_snapshot.

(* the loop itself calls nothing outside the snapshot *)
Theorem C03_loop_only_invokes_snapshot : S_loop_only_invokes_snapshot.
Proof. exact loop_only_invokes_snapshot. Qed.
Print Assumptions C03_loop_only_invokes_snapshot.

(* after every top-level operation: exec_count 0, not deferred, no placeholder *)
Theorem C03_outermost_return_restores_quiescence : forall p fuel ops st, WF_top st -> match run_top p fuel ops st with Ok st' => WF_top st' | Err e => safe_err e end.
Proof. exact run_top_safe. Qed.
Print Assumptions C03_outermost_return_restores_quiescence.

(* ... and the signal holds exactly the still-connected slots *)
Theorem C03_lists_hold_exactly_connected_slots : S_quiescent_lists.
Proof. exact quiescent_lists. Qed.
Print Assumptions C03_lists_hold_exactly_connected_slots.

(* the nesting bound of the interpreter is not part of the meaning: a run that does not hit it is
   the same under every larger bound, so the theorems above (stated for every bound) speak about
   arbitrarily deep re-entrant emission *)
Theorem C03_nesting_bound_irrelevant_callee : S_fuel_monotone_callee.
Proof. exact fuel_monotone_callee. Qed.
Print Assumptions C03_nesting_bound_irrelevant_callee.

Theorem C03_nesting_bound_irrelevant : S_fuel_monotone.
Proof. exact fuel_monotone. Qed.
Print Assumptions C03_nesting_bound_irrelevant.

Theorem C03_reachable_grows_with_bound : S_reachable_mono.
Proof. exact reachable_mono. Qed.
Print Assumptions C03_reachable_grows_with_bound.
