(* NestProofs.v -- proofs of the statements of NestSpec.v.
   The development is split over NestProofs1.v .. NestProofs15.v (compile in numeric order, then this file); this file states the final lemmas. *)
From Coq Require Import List NArith Bool Arith Lia Permutation.
Import ListNotations.
Require Import Util NestModel NestSpec NestProofs1 NestProofs2 NestProofs3 NestProofs4 NestProofs5 NestProofs6 NestProofs7 NestProofs8 NestProofs9 NestProofs10 NestProofs11 NestProofs12 NestProofs13 NestProofs14 NestProofs15.
Local Open Scope N_scope.

(* ---- ids ---- *)
Lemma nest_ids_unique : S_nest_ids_unique.
Proof.
  intros st Hr. pose proof (nreach_inv st Hr) as H. split.
  - exact (gi_nodup _ _ _ _ H).
  - intros r Hin. exact (proj2 (gi_idpos _ _ _ _ H r Hin)).
Qed.

(* ---- by-value children ---- *)
Lemma nest_value_child_parent : S_nest_value_child_parent.
Proof.
  intros st q r Hr Hq Hin. pose proof (nreach_inv st Hr) as H. apply in_kids in Hin.
  destruct (gi_vcp _ _ _ _ H q r Hq Hin) as [E|[_ []]]. exact E.
Qed.

(* ---- parents ---- *)
Lemma nest_parent_exact : S_nest_parent_exact.
Proof.
  intros st r p Hr Hin Hp. pose proof (nreach_inv st Hr) as H.
  destruct (gi_parent _ _ _ _ H r p Hin Hp) as [(q & Hq & Hw)|(s & [] & _)].
  exists q. rewrite find_rep_lk. split; [exact Hq|]. destruct Hw as [Hw|Hw]; [left; apply in_kids; exact Hw | right; exact Hw].
Qed.

(* ---- registrations ---- *)
Lemma filter_all : forall (A : Type) (p : A -> bool) l, (forall e, In e l -> p e = true) -> filter p l = l.
Proof.
  intros A p l H. induction l as [|a tl IH]; [reflexivity|]. cbn [filter]. rewrite (H a (or_introl eq_refl)).
  f_equal. apply IH. intros e He. apply H. right. exact He.
Qed.

Lemma nest_regs_exact : S_nest_regs_exact.
Proof.
  intros st t x Hr Hx. pose proof (nreach_inv st Hr) as H.
  assert (Hc : t_clearing x = false).
  { destruct (t_clearing x) eqn:E; [|reflexivity]. pose proof (gi_clearing _ _ _ _ H t x Hx E). discriminate. }
  pose proof (gi_armed _ _ _ _ H t x Hx Hc) as Harm.
  split; [exact Hc|]. split; [exact Harm|].
  intros id. pose proof (gi_regs _ _ _ _ H t x id Hx) as Hcnt. unfold acount, armed_ids in Hcnt.
  rewrite (filter_all _ (fun e : N * bool => snd e) (t_regs x) Harm) in Hcnt. rewrite Hcnt.
  cbn [bcount filter length]. rewrite Nat.add_0_r. unfold drefs. rewrite find_rep_lk. reflexivity.
Qed.

(* ---- safety ---- *)
Lemma nest_safe : S_nest_safe.
Proof.
  intros st o Hr Hu. destruct (step_ok st o (nreach_inv st Hr) Hu) as (st' & E & _). exists st'. exact E.
Qed.

(* ---- destroying a trackable ---- *)
Lemma refers_none : forall t r, (forall x, In x (reps_of r) -> ~ In (ITrack t) (items_of x)) -> refers_val t r = false.
Proof.
  intros t. apply (rep_kids_ind (fun r => (forall x, In x (reps_of r) -> ~ In (ITrack t) (items_of x)) -> refers_val t r = false)).
  intros r IH Hno. rewrite refers_val_eq.
  assert (Hself : ~ In (ITrack t) (items_of r)) by (apply Hno; apply reps_of_self).
  assert (Hkids : forall c, In c (kids (items_of r)) -> refers_val t c = false).
  { intros c Hc. apply (IH c Hc). intros x Hx. apply Hno. apply (reps_of_kid r c Hc). exact Hx. }
  revert Hself Hkids. generalize (items_of r) as l. clear. intros l.
  induction l as [|it tl IHl]; intros Hself Hkids; [reflexivity|].
  destruct it as [t'|s|[c|]]; cbn [refers_items kids] in *.
  - destruct (N.eqb t t') eqn:E; [apply N.eqb_eq in E; subst; exfalso; apply Hself; left; reflexivity|].
    cbn [orb]. apply IHl; [intros Hin; apply Hself; right; exact Hin | exact Hkids].
  - apply IHl; [intros Hin; apply Hself; right; exact Hin | exact Hkids].
  - rewrite (Hkids c (or_introl eq_refl)). cbn [orb].
    apply IHl; [intros Hin; apply Hself; right; exact Hin | intros c' Hc'; apply Hkids; right; exact Hc'].
  - apply IHl; [intros Hin; apply Hself; right; exact Hin | exact Hkids].
Qed.

Lemma refers_items_true : forall t l, refers_items t l = true ->
  In (ITrack t) l \/ exists c, In c (kids l) /\ refers_val t c = true.
Proof.
  intros t l. induction l as [|it tl IH]; intros H; [discriminate|].
  destruct it as [t'|s|[c|]]; cbn [refers_items kids] in *.
  - apply orb_true_iff in H. destruct H as [H|H]; [apply N.eqb_eq in H; subst; left; left; reflexivity|].
    destruct (IH H) as [H1|H1]; [left; right; exact H1 | right; exact H1].
  - destruct (IH H) as [H1|H1]; [left; right; exact H1 | right; exact H1].
  - apply orb_true_iff in H. destruct H as [H|H]; [right; exists c; split; [left; reflexivity | exact H]|].
    destruct (IH H) as [H1|(c' & Hc' & H1)]; [left; right; exact H1 | right; exists c'; split; [right; exact Hc' | exact H1]].
  - destruct (IH H) as [H1|H1]; [left; right; exact H1 | right; exact H1].
Qed.

Lemma skel_in_track : forall t l l', skel l' = skel l -> In (ITrack t) l -> In (ITrack t) l'.
Proof.
  intros t l. induction l as [|it tl IH]; intros l' E H; [destruct H|].
  destruct l' as [|it' tl']; [discriminate|]. cbn [skel map] in E. injection E as E1 E2.
  destruct H as [->|H]; [|right; apply (IH tl' E2 H)].
  left. destruct it' as [t'|s'|[c'|]]; try discriminate. injection E1 as ->. reflexivity.
Qed.

Lemma skel_kid : forall c l l', skel l' = skel l -> In c (kids l) -> exists c', In c' (kids l') /\ r_id c' = r_id c.
Proof.
  intros c l. induction l as [|it tl IH]; intros l' E H; [destruct H|].
  destruct l' as [|it' tl']; [discriminate|]. cbn [skel map] in E. injection E as E1 E2.
  destruct it as [t|s|[c0|]]; cbn [kids] in H.
  - destruct it' as [t'|s'|[c'|]]; try discriminate. cbn [kids]. apply (IH tl' E2 H).
  - destruct it' as [t'|s'|[c'|]]; try discriminate. cbn [kids]. apply (IH tl' E2 H).
  - destruct it' as [t'|s'|[c'|]]; try discriminate. cbn [kids]. injection E1 as E1. destruct H as [->|H].
    + exists c'. split; [left; reflexivity | exact E1].
    + destruct (IH tl' E2 H) as (c'' & Hc'' & Ei). exists c''. split; [right; exact Hc'' | exact Ei].
  - destruct it' as [t'|s'|[c'|]]; try discriminate. cbn [kids]. apply (IH tl' E2 H).
Qed.

Lemma nest_tdel : S_nest_tdel.
Proof.
  intros st t st' Hr Hlive Hstep. pose proof (nreach_inv st Hr) as H.
  destruct (live_tr t st) as [x|] eqn:Hx; [|contradiction].
  destruct (step_tdel_live st t x H Hx) as (st2 & E & H' & HG2 & Hevo & Hk & Hno & _).
  rewrite Hstep in E. injection E as ->.
  set (st' := with_tracks (aset t None (tracks st2)) st2) in *.
  assert (EU : all_reps st' = all_reps st2) by reflexivity.
  assert (Hpart1 : forall r, In r (all_reps st') -> refers_val t r = false).
  { intros r Hin. apply refers_none. intros y Hy. apply Hno. rewrite <- EU. exact (all_reps_sub_closed st' r Hin y Hy). }
  split; [exact Hpart1|].
  assert (Hdead : forall y, In y (all_reps st) -> refers_val t y = true -> forall y', lk (r_id y) (all_reps st') = Some y' -> r_fn y' = None).
  { apply (rep_kids_ind (fun y => In y (all_reps st) -> refers_val t y = true -> forall y', lk (r_id y) (all_reps st') = Some y' -> r_fn y' = None)).
    intros y IH Hy Hrf y' Hy'. rewrite EU in Hy'.
    destruct (Hevo (r_id y) y' Hy') as (y0 & Hy0 & _ & Hcase).
    rewrite (lk_in _ y (gi_nodup _ _ _ _ H) Hy) in Hy0. injection Hy0 as <-.
    destruct Hcase as [Hfn|[Hfn Hsk]]; [exact Hfn|]. exfalso.
    destruct (lk_some _ _ _ Hy') as [Hy'_in _]. rewrite <- EU in Hy'_in.
    rewrite refers_val_eq in Hrf. destruct (refers_items_true t _ Hrf) as [Hin|(c & Hc & Hcr)].
    - apply (Hno y'); [rewrite <- EU; exact Hy'_in|]. exact (skel_in_track t _ _ Hsk Hin).
    - destruct (skel_kid c _ _ Hsk Hc) as (c' & Hc' & Ei).
      pose proof (all_reps_kid_closed st' y' c' Hy'_in Hc') as Hc'_in.
      assert (Hlkc : lk (r_id c) (all_reps st') = Some c') by (rewrite <- Ei; apply lk_in; [exact (gi_nodup _ _ _ _ H') | exact Hc'_in]).
      pose proof (IH c Hc (all_reps_kid_closed st y c Hy Hc) Hcr c' Hlkc) as Hfc.
      exact (gi_kidfn _ _ _ _ H' y' c' Hy'_in Hc' Hfc). }
  intros s r Hs Hrf.
  assert (Hk' : vkind s st' = Some (Some (Some (r_id r)))).
  { change (vkind s st') with (vkind s st2). rewrite Hk. apply live_var_kind_rep. exists r. split; [exact Hs | reflexivity]. }
  apply live_var_kind_rep in Hk'. destruct Hk' as (r' & Hs' & Ei).
  exists r'. split; [exact Hs'|]. split; [exact Ei|].
  pose proof (live_var_in _ _ _ Hs') as Hr'_in.
  assert (Hfn : r_fn r' = None).
  { apply (Hdead r (live_var_in _ _ _ Hs) Hrf r'). rewrite <- Ei. apply lk_in; [exact (gi_nodup _ _ _ _ H') | exact Hr'_in]. }
  split; [exact (gi_fnvalid _ _ _ _ H' r' Hr'_in Hfn) | exact Hfn].
Qed.

(* ---- destroying a slot variable ---- *)
Lemma nest_sdel_no_trace : S_nest_sdel_no_trace.
Proof.
  intros st s r st' Hr Hu Hs Hstep r' Hr'. pose proof (nreach_inv st Hr) as H.
  cbn [user_ok] in Hu. apply negb_true_iff in Hu.
  destruct (step_sdel_live st s r H Hu Hs) as (st'' & E & H' & F). rewrite Hstep in E. injection E as <-.
  assert (Hgone : ~ In (r_id r') (ids (all_reps st'))).
  { intros Hin. apply (vf_ids _ _ (if_v _ _ F)) in Hin.
    destruct (wfnew_of_removed None [] st s r None H Hs (or_introl eq_refl)) as (_ & W & _). exact (proj2 (proj2 (W r' Hr')) Hin). }
  split.
  - intros t x Hx Hin.
    assert (Hc : t_clearing x = false).
    { destruct (t_clearing x) eqn:Ec; [|reflexivity]. pose proof (gi_clearing _ _ _ _ H' t x Hx Ec). discriminate. }
    apply in_map_iff in Hin. destruct Hin as ([d a] & Ed & He). cbn [fst] in Ed. subst d.
    pose proof (gi_armed _ _ _ _ H' t x Hx Hc _ He) as Ha. cbn [snd] in Ha. subst a.
    pose proof (acount_pos _ _ He) as Hpos. rewrite (gi_regs _ _ _ _ H' t x (r_id r') Hx) in Hpos.
    rewrite drefs_absent in Hpos by exact Hgone. cbn in Hpos. lia.
  - intros q Hq Hp. destruct (gi_parent _ _ _ _ H' q (r_id r') Hq Hp) as [(q0 & Hq0 & _)|(s0 & [] & _)].
    destruct (lk_some _ _ _ Hq0) as [Hq0_in Hq0_id]. apply Hgone. rewrite <- Hq0_id. apply in_ids. exact Hq0_in.
Qed.

(* ---- copies are independent ---- *)
Lemma nest_copy_fresh : S_nest_copy_fresh.
Proof.
  intros st d s st' Hr Hstep Hfresh r Hin. pose proof (nreach_inv st Hr) as H.
  cbn [nstep] in Hstep.
  assert (Hsame : all_reps st' = all_reps st -> exists r', In r' (all_reps st') /\ r_id r' = r_id r /\ r_valid r' = r_valid r /\
      map (fun it => match it with IVal _ => 0 | ITrack t => 1 + t | IRef x => 1000 + x end) (items_of r') =
      map (fun it => match it with IVal _ => 0 | ITrack t => 1 + t | IRef x => 1000 + x end) (items_of r) /\
      (r_parent r' = r_parent r \/ (r_parent r = None /\ exists p, r_parent r' = Some p /\ next_id st <= p))).
  { intros E. exists r. rewrite E. split; [exact Hin|]. repeat split; try reflexivity. left. reflexivity. }
  destruct (live_var s st) as [src|] eqn:Hs; [|injection Hstep as <-; apply Hsame; reflexivity].
  rewrite Hfresh in Hstep.
  destruct (copy_of_ok None [] st src H) as (v & st1 & E1 & HG1 & F1 & N1 & Hp1 & C1).
  { intros r0 ->. eapply live_var_in. exact Hs. }
  rewrite E1 in Hstep. cbn [nbind fst snd] in Hstep. injection Hstep as <-.
  destruct (C1 r Hin) as (r' & Hr' & A1 & A2 & A3 & A4).
  exists r'. split; [|split; [exact A1 | split; [exact A2 | split; [exact A3 | exact A4]]]].
  destruct (all_reps_set_var d st1) as (L1 & L2 & EU & EU').
  rewrite (vkind_cur_reps d st st1 (vf_v _ _ F1) (fresh_cur_reps d st Hfresh)) in EU. cbn [app] in EU.
  rewrite EU'. rewrite EU in Hr'. apply in_app_or in Hr'. apply in_or_app.
  destruct Hr' as [Hr'|Hr']; [left; exact Hr' | right; apply in_or_app; right; exact Hr'].
Qed.

(* ---- the adopter of a referenced slot variable dies with it ---- *)
Lemma refers_fn : forall t r, refers_val t r = true -> r_fn r <> None.
Proof. intros t r H Hfn. rewrite refers_val_eq in H. unfold items_of in H. rewrite Hfn in H. discriminate. Qed.

Lemma nest_tdel_adopter : S_nest_tdel_adopter.
Proof.
  intros st t st' s r p Hr Hlive Hstep Hs Hrf Hp q Hq. pose proof (nreach_inv st Hr) as H.
  destruct (proj2 (nest_tdel st t st' Hr Hlive Hstep) s r Hs Hrf) as (r' & Hs' & Ei & _ & Hfn').
  destruct (live_tr t st) as [x|] eqn:Hx; [|contradiction].
  destruct (step_tdel_live st t x H Hx) as (st2 & E & H' & _ & _ & _ & _ & A).
  rewrite Hstep in E. injection E as ->.
  assert (Hlk : lk (r_id r) (all_reps st) = Some r) by (apply lk_in; [exact (gi_nodup _ _ _ _ H) | eapply live_var_in; exact Hs]).
  assert (Hlk' : lk (r_id r) (all_reps st2) = Some r').
  { rewrite <- Ei. change (all_reps st2) with (all_reps (with_tracks (aset t None (tracks st2)) st2)).
    apply lk_in; [exact (gi_nodup _ _ _ _ H') | eapply live_var_in; exact Hs']. }
  rewrite find_rep_lk in Hq.
  destruct (A (r_id r) r r' p (fun f => f) Hlk Hlk' Hp) as [[_ Hf]|Hg].
  - exfalso. exact (refers_fn t r Hrf (Hf Hfn')).
  - apply Hg. exact Hq.
Qed.

Print Assumptions nest_ids_unique.
Print Assumptions nest_regs_exact.
Print Assumptions nest_parent_exact.
Print Assumptions nest_value_child_parent.
Print Assumptions nest_safe.
Print Assumptions nest_tdel.
Print Assumptions nest_tdel_adopter.
Print Assumptions nest_sdel_no_trace.
Print Assumptions nest_copy_fresh.
