(* NestProofs1.v -- basic infrastructure for NestProofs: induction principle for the nested
   inductive rep/item, top-level versions of the inner loops, association-list lemmas. *)
From Coq Require Import List NArith Bool Arith Lia Permutation.
Import ListNotations.
Require Import Util NestModel NestSpec.
Local Open Scope N_scope.

(* ---------- induction principle ---------- *)
Section RepInd.
  Variable P : rep -> Prop.
  Variable Q : list item -> Prop.
  Hypothesis Hnone : forall i v p, P (mkRep i v None p).
  Hypothesis Hsome : forall i v l p, Q l -> P (mkRep i v (Some l) p).
  Hypothesis Hnil : Q [].
  Hypothesis Htrack : forall t l, Q l -> Q (ITrack t :: l).
  Hypothesis Href : forall s l, Q l -> Q (IRef s :: l).
  Hypothesis Hvaln : forall l, Q l -> Q (IVal None :: l).
  Hypothesis Hval : forall r l, P r -> Q l -> Q (IVal (Some r) :: l).

  Fixpoint rep_mind (r : rep) : P r :=
    match r with
    | mkRep i v None p => Hnone i v p
    | mkRep i v (Some l) p =>
        Hsome i v l p
          ((fix items_mind (l : list item) : Q l :=
              match l with
              | [] => Hnil
              | ITrack t :: tl => Htrack t tl (items_mind tl)
              | IRef s :: tl => Href s tl (items_mind tl)
              | IVal None :: tl => Hvaln tl (items_mind tl)
              | IVal (Some r') :: tl => Hval r' tl (rep_mind r') (items_mind tl)
              end) l)
    end.

  Lemma items_mind : forall l, Q l.
  Proof.
    induction l as [|it tl IH]; [exact Hnil|].
    destruct it as [t|s|[r'|]].
    - apply Htrack; exact IH.
    - apply Href; exact IH.
    - apply Hval; [apply rep_mind | exact IH].
    - apply Hvaln; exact IH.
  Qed.
End RepInd.

(* ---------- by-value children ---------- *)
Fixpoint kids (l : list item) : list rep :=
  match l with
  | [] => []
  | IVal (Some r) :: tl => r :: kids tl
  | _ :: tl => kids tl
  end.

Lemma in_kids : forall l r, In r (kids l) <-> In (IVal (Some r)) l.
Proof.
  induction l as [|it tl IH]; intros r; cbn [kids In]; [tauto|].
  destruct it as [t|s|[r'|]]; cbn [In]; rewrite IH; split; intros H.
  - right; exact H.
  - destruct H as [H|H]; [discriminate|exact H].
  - right; exact H.
  - destruct H as [H|H]; [discriminate|exact H].
  - destruct H as [H|H]; [left; congruence | right; exact H].
  - destruct H as [H|H]; [left; congruence | right; exact H].
  - right; exact H.
  - destruct H as [H|H]; [discriminate|exact H].
Qed.

(* simple induction: P holds for r when it holds for all by-value children *)
Lemma rep_kids_ind (P : rep -> Prop) :
  (forall r, (forall c, In c (kids (items_of r)) -> P c) -> P r) -> forall r, P r.
Proof.
  intros H.
  apply (rep_mind P (fun l => forall c, In c (kids l) -> P c)).
  - intros i v p. apply H. cbn. intros c [].
  - intros i v l p IH. apply H. cbn. exact IH.
  - intros c [].
  - intros t l IH c Hc. apply IH, Hc.
  - intros s l IH c Hc. apply IH, Hc.
  - intros l IH c Hc. apply IH, Hc.
  - intros r l Hr IH c [Hc|Hc]; [subst; exact Hr | apply IH, Hc].
Qed.

(* ---------- top-level versions of the inner loops ---------- *)
Fixpoint reps_items (l : list item) : list rep :=
  match l with
  | [] => []
  | IVal (Some r') :: tl => reps_of r' ++ reps_items tl
  | _ :: tl => reps_items tl
  end.

Lemma reps_of_eq : forall r, reps_of r = r :: reps_items (items_of r).
Proof. intros [i v [l|] p]; reflexivity. Qed.

Lemma reps_items_kids : forall l, reps_items l = flat_map reps_of (kids l).
Proof.
  induction l as [|it tl IH]; [reflexivity|].
  destruct it as [t|s|[r'|]]; cbn [reps_items kids flat_map]; rewrite ?IH; reflexivity.
Qed.

Section FindItems.
  Variable id : N.
  Fixpoint find_items (l : list item) : option rep :=
    match l with
    | [] => None
    | IVal (Some r') :: tl => match find_in_rep id r' with Some x => Some x | None => find_items tl end
    | _ :: tl => find_items tl
    end.
End FindItems.

Lemma find_in_rep_eq : forall id r,
  find_in_rep id r = if N.eqb (r_id r) id then Some r else find_items id (items_of r).
Proof. intros id [i v [l|] p]; reflexivity. Qed.

Fixpoint find_reps (id : N) (l : list rep) : option rep :=
  match l with
  | [] => None
  | r :: tl => match find_in_rep id r with Some x => Some x | None => find_reps id tl end
  end.

Lemma find_items_kids : forall id l, find_items id l = find_reps id (kids l).
Proof.
  induction l as [|it tl IH]; [reflexivity|].
  destruct it as [t|s|[r'|]]; cbn [find_items kids find_reps]; rewrite ?IH; reflexivity.
Qed.

Section MapItems.
  Variable id : N.
  Variable f : rep -> rep.
  Fixpoint map_items (l : list item) : list item :=
    match l with
    | [] => []
    | IVal (Some r') :: tl => IVal (Some (map_in_rep id f r')) :: map_items tl
    | x :: tl => x :: map_items tl
    end.
End MapItems.

Lemma map_in_rep_eq : forall id f r,
  map_in_rep id f r =
  if N.eqb (r_id r) id then f r
  else mkRep (r_id r) (r_valid r) (option_map (map_items id f) (r_fn r)) (r_parent r).
Proof. intros id f [i v [l|] p]; reflexivity. Qed.

Fixpoint drop_items (l : list item) (st : nstate) : nres nstate :=
  match l with
  | [] => NOk st
  | IVal (Some r') :: tl => st2 <-- drop_rep r' st ;;; drop_items tl st2
  | _ :: tl => drop_items tl st
  end.

Lemma drop_rep_eq : forall r st,
  drop_rep r st =
  match r_fn r with
  | None => NOk st
  | Some l => st1 <-- unbind_items (r_id r) l st ;;; drop_items l st1
  end.
Proof. intros [i v [l|] p] st; reflexivity. Qed.

Fixpoint count_items (l : list item) : nat :=
  match l with
  | [] => O
  | IVal (Some r') :: tl => (count_reps r' + count_items tl)%nat
  | _ :: tl => count_items tl
  end.

Lemma count_reps_eq : forall r, count_reps r = S (count_items (items_of r)).
Proof. intros [i v [l|] p]; reflexivity. Qed.

Section RefersItems.
  Variable t : N.
  Fixpoint refers_items (l : list item) : bool :=
    match l with
    | [] => false
    | ITrack t' :: tl => N.eqb t t' || refers_items tl
    | IVal (Some r') :: tl => refers_val t r' || refers_items tl
    | _ :: tl => refers_items tl
    end.
End RefersItems.

Lemma refers_val_eq : forall t r, refers_val t r = refers_items t (items_of r).
Proof. intros t [i v [l|] p]; reflexivity. Qed.

Definition clone_item_hd (clone : rep -> nstate -> nres (rep * nstate)) (r' : rep) (st : nstate)
  : nres (item * nstate) :=
  if r_valid r' then c <-- clone r' st ;;; NOk (IVal (Some (fst c)), snd c)
  else NOk (IVal None, st).

Fixpoint clone_items (l : list item) (st : nstate) : nres (list item * nstate) :=
  match l with
  | [] => NOk ([], st)
  | IVal (Some r') :: tl =>
      hd <-- (if r_valid r' then c <-- clone_rep r' st ;;; NOk (IVal (Some (fst c)), snd c)
              else NOk (IVal None, st)) ;;;
      rest <-- clone_items tl (snd hd) ;;;
      NOk (fst hd :: fst rest, snd rest)
  | x :: tl => rest <-- clone_items tl st ;;; NOk (x :: fst rest, snd rest)
  end.

Definition adopt_kids (me : N) (l : list item) : list item :=
  map (fun it => match it with
                 | IVal (Some r') => match r_parent r' with
                                     | None => IVal (Some (set_parent (Some me) r'))
                                     | Some _ => it
                                     end
                 | _ => it
                 end) l.

Section BindNonval.
  Variable me : N.
  Fixpoint bind_nonval (l : list item) (st : nstate) : nres nstate :=
    match l with
    | [] => NOk st
    | IVal _ :: tl => bind_nonval tl st
    | it :: tl => st1 <-- bind_item me it st ;;; bind_nonval tl st1
    end.
End BindNonval.

Lemma clone_rep_eq : forall r st,
  clone_rep r st =
  let me := next_id st in
  match r_fn r with
  | None => NErr NErrUAF
  | Some l =>
      res <-- clone_items l (with_next (me + 1) st) ;;;
      let items := adopt_kids me (fst res) in
      st2 <-- bind_nonval me items (snd res) ;;;
      NOk (mkRep me true (Some items) None, st2)
  end.
Proof. intros [i v [l|] p] st; reflexivity. Qed.

(* ---------- association lists ---------- *)
Section AL.
  Context {A : Type}.
  Lemma aget_split : forall k (l : list (N * A)) v, aget k l = Some v ->
    exists l1 l2, l = l1 ++ (k, v) :: l2 /\ aget k l1 = None.
  Proof.
    induction l as [|[k' v'] tl IH]; intros v H; cbn [aget] in H; [discriminate|].
    destruct (N.eqb k k') eqn:E.
    - apply N.eqb_eq in E; subst k'. injection H as <-. exists [], tl. split; reflexivity.
    - destruct (IH v H) as (l1 & l2 & -> & Hn).
      exists ((k', v') :: l1), l2. split; [reflexivity|]. cbn [aget]. rewrite E. exact Hn.
  Qed.

  Lemma aset_split : forall k (l1 l2 : list (N * A)) v v', aget k l1 = None ->
    aset k v' (l1 ++ (k, v) :: l2) = l1 ++ (k, v') :: l2.
  Proof.
    induction l1 as [|[k' w] tl IH]; intros l2 v v' H; cbn [app aset aget] in *.
    - rewrite N.eqb_refl. reflexivity.
    - destruct (N.eqb k k') eqn:E; [discriminate|]. rewrite IH by exact H. reflexivity.
  Qed.

  Lemma aset_none : forall k (l : list (N * A)) v, aget k l = None -> aset k v l = l ++ [(k, v)].
  Proof.
    induction l as [|[k' w] tl IH]; intros v H; cbn [app aset aget] in *; [reflexivity|].
    destruct (N.eqb k k') eqn:E; [discriminate|]. rewrite IH by exact H. reflexivity.
  Qed.

  Lemma aget_app_none : forall k (l1 l2 : list (N * A)), aget k l1 = None -> aget k (l1 ++ l2) = aget k l2.
  Proof.
    induction l1 as [|[k' w] tl IH]; intros l2 H; cbn [app aget] in *; [reflexivity|].
    destruct (N.eqb k k') eqn:E; [discriminate|]. apply IH, H.
  Qed.

  Lemma aget_aset_same : forall k (l : list (N * A)) v, aget k (aset k v l) = Some v.
  Proof.
    induction l as [|[k' w] tl IH]; intros v; cbn [aset aget].
    - rewrite N.eqb_refl. reflexivity.
    - destruct (N.eqb k k') eqn:E; cbn [aget]; rewrite E; [reflexivity | apply IH].
  Qed.

  Lemma aget_aset_other : forall k k' (l : list (N * A)) v, k' <> k -> aget k' (aset k v l) = aget k' l.
  Proof.
    induction l as [|[k0 w] tl IH]; intros v Hne; cbn [aset aget].
    - destruct (N.eqb k' k) eqn:E; [apply N.eqb_eq in E; contradiction | reflexivity].
    - destruct (N.eqb k k0) eqn:E; cbn [aget].
      + apply N.eqb_eq in E; subst k0.
        destruct (N.eqb k' k) eqn:E'; [apply N.eqb_eq in E'; contradiction | reflexivity].
      + destruct (N.eqb k' k0); [reflexivity | apply IH, Hne].
  Qed.

  Lemma aget_in : forall k (l : list (N * A)) v, aget k l = Some v -> In (k, v) l.
  Proof.
    intros k l v H. destruct (aget_split _ _ _ H) as (l1 & l2 & -> & _).
    apply in_or_app. right. left. reflexivity.
  Qed.

  Lemma aset_keys : forall k (l : list (N * A)) v v0, aget k l = Some v0 -> map fst (aset k v l) = map fst l.
  Proof.
    intros k l v v0 H. destruct (aget_split _ _ _ H) as (l1 & l2 & -> & Hn).
    rewrite aset_split by exact Hn. rewrite !map_app. reflexivity.
  Qed.
End AL.
