(* TypeProofs.v -- proofs of the C05 statements (Properties_C05.v) over TypeModel.v *)
From Coq Require Import List Bool String Lia Arith ZArith.
Import ListNotations.
Require Import GenTypes AdaptorModel AdaptorProofs TypeModel.
Local Open Scope string_scope.
Local Open Scope list_scope.

(* ------------------------------------------------------------------------------------------ *)
(* forallb2 *)

Lemma forallb2_length :
  forall (A B : Type) (p : A -> B -> bool) (l1 : list A) (l2 : list B),
    forallb2 p l1 l2 = true -> List.length l1 = List.length l2.
Proof.
  intros A B p l1; induction l1 as [|x r1 IH]; intros [|y r2] H; simpl in *;
    try reflexivity; try discriminate.
  apply andb_true_iff in H. destruct H as [_ H]. f_equal. apply IH. exact H.
Qed.

Lemma forallb2_length_neq :
  forall (A B : Type) (p : A -> B -> bool) (l1 : list A) (l2 : list B),
    List.length l1 <> List.length l2 -> forallb2 p l1 l2 = false.
Proof.
  intros A B p l1 l2 Hne. destruct (forallb2 p l1 l2) eqn:E; [|reflexivity].
  exfalso. apply Hne. eapply forallb2_length. exact E.
Qed.

Lemma forallb2_pointwise :
  forall (A B : Type) (p : A -> B -> bool) (l1 : list A) (l2 : list B),
    forallb2 p l1 l2 = true <->
    List.length l1 = List.length l2 /\
    (forall i x y, nth_error l1 i = Some x -> nth_error l2 i = Some y -> p x y = true).
Proof.
  intros A B p l1; induction l1 as [|x r1 IH]; intros [|y r2]; simpl.
  - split; [intros _|reflexivity]. split; [reflexivity|].
    intros [|i] x0 y0 H; simpl in H; discriminate.
  - split; [discriminate|]. intros [H _]; discriminate.
  - split; [discriminate|]. intros [H _]; discriminate.
  - rewrite andb_true_iff. rewrite IH. split.
    + intros [Hp [Hl Hn]]. split; [f_equal; exact Hl|].
      intros [|i] x0 y0 H1 H2; simpl in H1, H2.
      * inversion H1; inversion H2; subst. exact Hp.
      * eapply Hn; eassumption.
    + intros [Hl Hn]. split; [|split].
      * apply (Hn 0 x y); reflexivity.
      * inversion Hl. reflexivity.
      * intros i x0 y0 H1 H2. apply (Hn (S i) x0 y0); assumption.
Qed.

(* ------------------------------------------------------------------------------------------ *)
(* the library path equals the criterion when no hop takes its pack by value *)

Lemma tpass_not_by_value :
  forall m d args, m <> ByValue -> tpass m d args = args.
Proof.
  intros m d args H. destruct m; try reflexivity. exfalso; apply H; reflexivity.
Qed.

Lemma tpass_length :
  forall m d args, List.length (tpass m d args) = List.length args.
Proof.
  intros m d args. destruct m; try reflexivity. destruct d; [|reflexivity]. simpl. apply map_length.
Qed.

Lemma tmodes_ok_not_by_value :
  forall M, tmodes_ok M = true ->
    mode_of M "adaptor_functor" <> ByValue /\
    mode_of M "bound_mem_functor" <> ByValue /\
    mode_of M "bind_functor<-1>" <> ByValue /\
    mode_of M "hide_functor" <> ByValue /\
    mode_of M "retype_return_functor<void>" <> ByValue /\
    mode_of M "retype_functor" <> ByValue /\
    mode_of M "bind_functor" <> ByValue.
Proof.
  intros M H. unfold tmodes_ok in H. cbn [forallb] in H.
  repeat (apply andb_true_iff in H; let H1 := fresh "Hm" in destruct H as [H1 H]).
  repeat split; intro E.
  - rewrite E in Hm; discriminate.
  - rewrite E in Hm0; discriminate.
  - rewrite E in Hm1; discriminate.
  - rewrite E in Hm2; discriminate.
  - rewrite E in Hm3; discriminate.
  - rewrite E in Hm4; discriminate.
  - rewrite E in Hm5; discriminate.
Qed.

Lemma memptr_ok_implicit : forall P, memptr_ok P = true -> P = MPImplicit.
Proof. intros [| |] H; try reflexivity; discriminate. Qed.

(* the positional arithmetic outside the range: a count would be negative (does not compile) *)
Lemma slice_hide_out_of_range :
  forall S i n, slices_ok S = true -> n <= i ->
    slice_counts S "hide_functor" (Z.of_nat i) n = None.
Proof.
  intros S i n H Hi. destruct (slices_ok_hide S H) as [l [E [E1 E2]]].
  unfold slice_counts. rewrite E, E1, E2. unfold hide_end, hide_start. cbn [aeval option_map].
  replace (Z.of_nat i =? - (1))%Z with false by (symmetry; apply Z.eqb_neq; lia).
  cbn [Z.eqb aeval].
  replace (0 <=? Z.of_nat n - Z.of_nat i - 1)%Z with false by (symmetry; apply Z.leb_gt; lia).
  rewrite andb_false_r. reflexivity.
Qed.

Lemma slice_bind_out_of_range :
  forall S i n, slices_ok S = true -> n < i ->
    slice_counts S "bind_functor" (Z.of_nat i) n = None.
Proof.
  intros S i n H Hi. destruct (slices_ok_bind S H) as [l [E [E1 E2]]].
  unfold slice_counts. rewrite E, E1, E2. unfold bind_start, bind_end. cbn [aeval].
  replace (0 <=? Z.of_nat n - Z.of_nat i)%Z with false by (symmetry; apply Z.leb_gt; lia).
  rewrite andb_false_r. reflexivity.
Qed.

(* one positional hop under the expected arithmetic *)
Lemma hide_at_hop :
  forall S i (a : list argexpr) (k : list argexpr -> bool), slices_ok S = true ->
    match slice_counts S "hide_functor" (Z.of_nat i) (List.length a) with
    | Some (s, e) => Nat.leb s (List.length a) && Nat.leb e (List.length a) && k (firstn s a ++ lastn e a)
    | None => false
    end = Nat.ltb i (List.length a) && k (firstn i a ++ skipn (Datatypes.S i) a).
Proof.
  intros S i a k HS. destruct (Nat.ltb_spec i (List.length a)) as [Hlt|Hge].
  - rewrite (slice_hide_some S i (List.length a) HS Hlt).
    replace (Nat.leb i (List.length a)) with true by (symmetry; apply Nat.leb_le; lia).
    replace (Nat.leb (List.length a - i - 1) (List.length a)) with true by (symmetry; apply Nat.leb_le; lia).
    rewrite (lastn_skipn _ a (List.length a - i - 1) (Datatypes.S i)) by lia. reflexivity.
  - rewrite (slice_hide_out_of_range S i (List.length a) HS Hge). reflexivity.
Qed.

Lemma bind_at_hop :
  forall S i (a mid : list argexpr) (k : list argexpr -> bool), slices_ok S = true ->
    match slice_counts S "bind_functor" (Z.of_nat i) (List.length a) with
    | Some (s, e) => Nat.leb s (List.length a) && Nat.leb e (List.length a) && k (firstn s a ++ mid ++ lastn e a)
    | None => false
    end = Nat.leb i (List.length a) && k (firstn i a ++ mid ++ skipn i a).
Proof.
  intros S i a mid k HS. destruct (Nat.leb_spec i (List.length a)) as [Hle|Hgt].
  - rewrite (slice_bind S i (List.length a) HS Hle).
    replace (Nat.leb i (List.length a)) with true by (symmetry; apply Nat.leb_le; lia).
    replace (Nat.leb (List.length a - i) (List.length a)) with true by (symmetry; apply Nat.leb_le; lia).
    rewrite (lastn_skipn _ a (List.length a - i) i) by lia. reflexivity.
  - rewrite (slice_bind_out_of_range S i (List.length a) HS Hgt). reflexivity.
Qed.

Lemma lib_call_args_callable_args :
  forall M P S, tmodes_ok M = true -> memptr_ok P = true -> slices_ok S = true ->
    forall f d args, lib_call_args M P S f d args = callable_args f args.
Proof.
  intros M P S HM HP HS. apply memptr_ok_implicit in HP. subst P.
  destruct (tmodes_ok_not_by_value M HM) as [H1 [H2 [H3 [H4 [H5 [H6 H7]]]]]].
  induction f as [ps rf|rel oc mc ps rf|g IH v|g IH|g IH|g IH|i g IH|i g IH v]; intros d args;
    cbn [lib_call_args callable_args].
  - rewrite (tpass_not_by_value _ d args H1). reflexivity.
  - rewrite (tpass_not_by_value _ d args H2). reflexivity.
  - rewrite (tpass_not_by_value _ d args H3). apply IH.
  - rewrite (tpass_not_by_value _ d args H4). destruct args; [reflexivity|]. apply IH.
  - rewrite (tpass_not_by_value _ d args H5). apply IH.
  - rewrite (tpass_not_by_value _ d args H6). reflexivity.
  - rewrite (tpass_not_by_value _ d args H4).
    rewrite (hide_at_hop S i args (lib_call_args M MPImplicit S g true) HS).
    rewrite IH. reflexivity.
  - rewrite (tpass_not_by_value _ d args H7).
    rewrite (bind_at_hop S i args [mkAE v false] (lib_call_args M MPImplicit S g true) HS).
    rewrite IH. reflexivity.
Qed.

Lemma lib_call_callable :
  forall M P S, tmodes_ok M = true -> memptr_ok P = true -> slices_ok S = true ->
    forall f d args r, lib_call M P S f d args r = callable f args r.
Proof.
  intros M P S HM HP HS f d args r. unfold lib_call, callable.
  rewrite (lib_call_args_callable_args M P S HM HP HS). reflexivity.
Qed.

Lemma accepts_iff_callable :
  forall M P S, tmodes_ok M = true -> memptr_ok P = true -> slices_ok S = true ->
    forall sig r f, lib_accepts M P S sig r f = direct_ok sig r f.
Proof.
  intros M P S HM HP HS sig r f. unfold lib_accepts, direct_ok.
  rewrite (lib_call_callable M P S HM HP HS). reflexivity.
Qed.

(* a method of a class the object's class does not derive from is rejected, whatever else matches *)
Lemma foreign_method_rejected :
  forall rel oc mc ps rf sig r, memptr_doc rel = false -> direct_ok sig r (TMemBound rel oc mc ps rf) = false.
Proof.
  intros rel oc mc ps rf sig r H. unfold direct_ok, callable. simpl. rewrite H. simpl. apply andb_false_r.
Qed.

(* a factory that casts the method pointer explicitly accepts a method of a derived class on a base object *)
Lemma explicit_memptr_launders :
  lib_accepts [] MPExplicit expected_slices [] None (TMemBound RMethInDerived false false [] None) = true /\
  direct_ok [] None (TMemBound RMethInDerived false false [] None) = false.
Proof. split; vm_compute; reflexivity. Qed.

(* ------------------------------------------------------------------------------------------ *)
(* positional adaptors: hide<i> / bind<i> *)

Lemma hide_at_out_of_range_rejected :
  forall i f sig r, List.length sig <= i -> direct_ok sig r (THideAt i f) = false.
Proof.
  intros i f sig r Hi. unfold direct_ok, callable. cbn [callable_args]. rewrite map_length.
  replace (Nat.ltb i (List.length sig)) with false by (symmetry; apply Nat.ltb_ge; exact Hi).
  cbn [andb]. apply andb_false_r.
Qed.

Lemma bind_at_out_of_range_rejected :
  forall i f v sig r, List.length sig < i -> direct_ok sig r (TBindAt i f v) = false.
Proof.
  intros i f v sig r Hi. unfold direct_ok, callable. cbn [callable_args]. rewrite map_length.
  replace (Nat.leb i (List.length sig)) with false by (symmetry; apply Nat.leb_gt; exact Hi).
  cbn [andb]. apply andb_false_r.
Qed.

(* hide<size-1> is hide(), bind<size> is bind() *)
Lemma hide_at_last_is_hide :
  forall f args, args <> [] ->
    callable_args (THideAt (List.length args - 1) f) args = callable_args (THideLast f) args.
Proof.
  intros f args Hne. cbn [callable_args].
  destruct args as [|a0 rest]; [exfalso; apply Hne; reflexivity|].
  set (l := a0 :: rest).
  assert (Hlen : 1 <= List.length l) by (unfold l; simpl; lia).
  replace (Nat.ltb (List.length l - 1) (List.length l)) with true by (symmetry; apply Nat.ltb_lt; lia).
  replace (Datatypes.S (List.length l - 1)) with (List.length l) by lia.
  rewrite skipn_all, app_nil_r. rewrite removelast_firstn_len.
  replace (Nat.pred (List.length l)) with (List.length l - 1) by lia. reflexivity.
Qed.

Lemma bind_at_end_is_bind :
  forall f v args, callable_args (TBindAt (List.length args) f v) args = callable_args (TBindLast f v) args.
Proof.
  intros f v args. cbn [callable_args].
  rewrite Nat.leb_refl, firstn_all, skipn_all, app_nil_r. reflexivity.
Qed.

(* arithmetic that clamps the tail count at zero accepts hide<size>: nothing is dropped, the call goes
   through with all arguments, although position size names no argument *)
Lemma clamped_hide_launders :
  slices_ok clamped_hide_slices = false /\
  lib_accepts [] MPImplicit clamped_hide_slices [mkP TInt FVal; mkP TInt FVal] None
    (THideAt 2 (TFun [mkP TInt FVal; mkP TInt FVal] None)) = true /\
  direct_ok [mkP TInt FVal; mkP TInt FVal] None (THideAt 2 (TFun [mkP TInt FVal; mkP TInt FVal] None)) = false /\
  (* in range the clamped arithmetic and the expected one agree *)
  lib_accepts [] MPImplicit clamped_hide_slices [mkP TInt FVal; mkP TInt FVal] None
    (THideAt 1 (TFun [mkP TInt FVal] None)) = true.
Proof. vm_compute. repeat split; reflexivity. Qed.

(* ------------------------------------------------------------------------------------------ *)
(* the named rejection classes *)

Lemma arity_mismatch_rejected :
  forall ps rf sig r, List.length ps <> List.length sig -> direct_ok sig r (TFun ps rf) = false.
Proof.
  intros ps rf sig r H. unfold direct_ok, callable. simpl.
  rewrite forallb2_length_neq.
  - simpl. apply andb_false_r.
  - rewrite map_length. exact H.
Qed.

Lemma unconvertible_parameter_rejected :
  forall p a, ref_related (pt_base p) (ae_base a) = false ->
    converts (ae_base a) (pt_base p) = false -> binds p a = false.
Proof.
  intros [pb pf] [ab ac] H1 H2. unfold binds. simpl in *.
  destruct pf; rewrite ?H1, ?H2; reflexivity.
Qed.

Lemma nonconst_reference_needs_nonconst_lvalue :
  forall b a, pt_form a <> FLRef -> binds (mkP b FLRef) (take a) = false.
Proof.
  intros b [ab af] H. unfold binds, take. simpl in *.
  destruct af; simpl; try apply andb_false_r.
  exfalso; apply H; reflexivity.
Qed.

Lemma nonconst_method_on_const_object_rejected :
  forall rel ps rf sig r, direct_ok sig r (TMemBound rel true false ps rf) = false.
Proof.
  intros rel ps rf sig r. unfold direct_ok, callable. simpl. rewrite andb_false_r. simpl. apply andb_false_r.
Qed.

Lemma incompatible_result_rejected :
  forall ps rf sig r, result_ok rf r = false -> direct_ok sig r (TFun ps rf) = false.
Proof.
  intros ps rf sig r H. unfold direct_ok, callable. simpl. rewrite H.
  rewrite andb_false_r. apply andb_false_r.
Qed.

Lemma implicit_conversions_accepted :
  forall s d c, converts s d = true ->
    binds (mkP d FVal) (mkAE s c) = true /\ binds (mkP d FCRef) (mkAE s c) = true.
Proof.
  intros s d c H. unfold binds. simpl. rewrite H. split; [reflexivity|apply orb_true_r].
Qed.

Lemma direct_ok_pointwise :
  forall ps rf sig r, direct_ok sig r (TFun ps rf) = true <->
    List.length ps = List.length sig /\ forallb sig_param_ok sig = true /\ result_ok rf r = true /\
    (forall i p a, nth_error ps i = Some p -> nth_error sig i = Some a -> binds p (take a) = true).
Proof.
  intros ps rf sig r. unfold direct_ok, callable. simpl.
  rewrite !andb_true_iff. rewrite forallb2_pointwise. rewrite map_length.
  split.
  - intros [Hs [[Hl Hn] Hr]]. repeat split; try assumption.
    intros i p a H1 H2. apply (Hn i p (take a)); [exact H1|].
    rewrite nth_error_map. rewrite H2. reflexivity.
  - intros [Hl [Hs [Hr Hn]]]. repeat split; try assumption.
    intros i x y H1 H2. rewrite nth_error_map in H2.
    destruct (nth_error sig i) as [a|] eqn:E; simpl in H2; [|discriminate].
    inversion H2; subst. apply (Hn i x a); assumption.
Qed.

(* ------------------------------------------------------------------------------------------ *)
(* retype: explicit conversion of every argument *)

Lemma retype_keeps_constness :
  forall b a, ae_const a = true -> explicit_ok (mkP b FLRef) a = false.
Proof.
  intros b [ab ac] H. simpl in H. subst ac. unfold explicit_ok. simpl. apply andb_false_r.
Qed.

Lemma retype_unrelated_rejected :
  forall p a, ref_related (pt_base p) (ae_base a) = false -> downcast (pt_base p) (ae_base a) = false ->
    explicit_converts (ae_base a) (pt_base p) = false -> explicit_ok p a = false.
Proof.
  intros [pb pf] [ab ac] H1 H2 H3. unfold explicit_ok. simpl in *.
  assert (H4 : converts ab pb = false).
  { unfold explicit_converts in H3. apply orb_false_elim in H3. exact (proj1 H3). }
  rewrite H1, H2, ?H3, ?H4. destruct pf; reflexivity.
Qed.

Lemma retype_accepts_implicit :
  forall p a, binds p a = true -> explicit_ok p a = true.
Proof.
  intros [pb pf] [ab ac].
  destruct pf; destruct pb; destruct ab; destruct ac; intro H;
    first [reflexivity | discriminate H].
Qed.

Print Assumptions accepts_iff_callable.
Print Assumptions hide_at_out_of_range_rejected.
Print Assumptions bind_at_out_of_range_rejected.
Print Assumptions hide_at_last_is_hide.
Print Assumptions bind_at_end_is_bind.
Print Assumptions clamped_hide_launders.
Print Assumptions arity_mismatch_rejected.
Print Assumptions unconvertible_parameter_rejected.
Print Assumptions nonconst_reference_needs_nonconst_lvalue.
Print Assumptions nonconst_method_on_const_object_rejected.
Print Assumptions incompatible_result_rejected.
Print Assumptions implicit_conversions_accepted.
Print Assumptions direct_ok_pointwise.
Print Assumptions retype_keeps_constness.
Print Assumptions retype_unrelated_rejected.
Print Assumptions retype_accepts_implicit.
