(* Properties_C14.v -- Signal objects are shared handles; the slot list lives as long as any handle.
   Statements only: each Prop is defined in SigSpec.v (or spelled out here) and closed by a lemma of
   SigSafe.v, SigValues.v; Print Assumptions follows each. *)
From Coq Require Import List NArith Bool.
Import ListNotations.
Require Import Util SigCore SigLemmas SigInv SigSafe SigSpec SigValues SigExtra SigShared.
Local Open Scope N_scope.

Theorem C14_copy_shares : S_copy_shares.
Proof. exact copy_shares. Qed.
Print Assumptions C14_copy_shares.

Theorem C14_assign_shares : S_assign_shares.
Proof. exact assign_shares. Qed.
Print Assumptions C14_assign_shares.

Theorem C14_move_transfers : S_move_transfers.
Proof. exact move_transfers. Qed.
Print Assumptions C14_move_transfers.

Theorem C14_last_handle_teardown : S_last_handle_teardown.
Proof. exact last_handle_teardown. Qed.
Print Assumptions C14_last_handle_teardown.

Theorem C14_other_handles_keep_list : S_other_handles_keep_list.
Proof. exact other_handles_keep_list_partial. Qed.
Print Assumptions C14_other_handles_keep_list.

Theorem C14_other_handles_keep_impl : S_other_handles_keep_impl.
Proof. exact other_handles_keep_impl. Qed.
Print Assumptions C14_other_handles_keep_impl.

(* both handles of one list see the same slots, and emitting through either is the same computation *)
Theorem C14_handles_share_list : S_handles_share_list.
Proof. exact handles_share_list. Qed.
Theorem C14_emission_through_either_handle : S_emission_through_either_handle.
Proof. exact emission_through_either_handle. Qed.
Print Assumptions C14_emission_through_either_handle.

(* a signal object co-owned (std::shared_ptr) by functor copies: it lives until the program has released
   it AND the last owning functor copy is gone - wherever that copy was stored, including a slot of the
   object's own list - and not a moment longer than the operation in which that happens *)
Theorem C14_signal_object_owned_by_functors_lifetime : S_shared_signal_lifetime_history.
Proof. exact shared_signal_lifetime_history. Qed.
Print Assumptions C14_signal_object_owned_by_functors_lifetime.

Theorem C14_no_unowned_signal_object_between_operations : S_no_orphan_signal_at_rest.
Proof. exact no_orphan_signal_at_rest. Qed.
Print Assumptions C14_no_unowned_signal_object_between_operations.
